"""C08 - MOF produced by tomof() recompiles to the same objects."""
from pyvc.contract import Contract, Raises, LoopSpec
from pyvc.values import *   # noqa

EXPLANATION = (
    "mofstr(): the folding loop is verified with ghost state: the text consumed so far plus the rest still to be "
    "written always equals the escaped value (nothing lost, nothing twice, wherever the line is folded), the "
    "returned MOF text is exactly the quoted parts (with line breaks) the ghost recorded, the loop's own "
    "endless-loop assertion can never fire and the rest strictly shrinks (termination). That no part ends inside "
    "an escape sequence is bounded only (string reasoning beyond both solvers)."
)
K = 'pywbem/_cim_obj.py::'
CONTRACTS = []

# a part that ends inside an escape sequence: an unescaped backslash, optionally followed by x and < 4 hex digits
INSIDE_ESC = r'(.|\n)*(\\\\)*\\(x[0-9A-Fa-f]{0,3})?'
NOT_ESCAPED_TAIL = r'((.|\n)*[^\\])?(\\\\)*'      # text ending with an even number of backslashes

mof_escaped_c = Contract(K + '_mof_escaped', returns=Str, trusted=True,
                         notes='the escaping chain itself is covered by the escape/unescape lemma and the bounded stand-in')

WORD_SPLIT_CALLEE = Contract(K + '_mof_word_split_pos', returns=Int, requires=['split_pos >= 0'],
                             ensures=[('bounds', '0 <= result <= split_pos')], raises={},
                             notes='proved below (word_split)')

CONTRACTS.append(Contract(
    K + 'mofstr',
    params={'value': Str, 'indent': Int, 'maxline': Int, 'line_pos': Int, 'end_space': Int,
            'avoid_splits': Bool, 'quote_char': Lit('"')},
    requires=['indent >= 0', 'line_pos >= 0', 'end_space >= 0', 'maxline - indent >= 3'],
    callees={'_mof_escaped': mof_escaped_c, '_mof_word_split_pos': WORD_SPLIT_CALLEE},
    kinds={'mof': 'str'},
    ghost_init={'g_done': "''", 'g_text': "''", 'g_E': "''"},
    ghost_code={
        'value = _mof_escaped(value)': 'g_E = value',
        'mof.append(new_line)': 'g_text = g_text + new_line',
        'mof.append(value)': 'g_done = g_done + value\ng_text = g_text + quote_char + value + quote_char',
        'mof.append(part_value)': 'g_done = g_done + part_value\ng_text = g_text + quote_char + part_value + quote_char',
    },
    loops={1: LoopSpec(modifies=['mof'],
                       types={'saved_value': Str, 'avl_len': Int, 'blank_pos': Int, 'split_pos': Int, 'part_value': Str,
                              'g_done': Str, 'g_text': Str},
                       invariant=[('nothing-lost-nothing-twice', 'g_done + value == g_E'),
                                  ('text-is-the-quoted-parts', 'joined(mof) == g_text'),
                                  ('line-position-nonnegative', 'line_pos >= 0')],
                       variant='len(value)')},
    ensures=[('all-of-the-escaped-value-was-written', 'g_done == g_E'),
             ('returned-text-is-the-quoted-parts', 'result[0] == g_text'),
             ('line-position-nonnegative', 'result[1] >= 0')],
    raises={},          # in particular the endless-loop AssertionError can never fire
))

word_split = Contract(
    K + '_mof_word_split_pos',
    params={'escaped_str': Str, 'split_pos': Int},
    requires=['split_pos >= 0'],
    returns=Int,
    loops={1: LoopSpec(types={'seq_len': Int, 'i': Int},
                       invariant=[('index-nonnegative', '0 <= i')],
                       variant='len(escaped_str) + 6 - i')},
    ensures=[('not-after-the-requested-position', '0 <= result <= split_pos')],
    raises={},
    notes='that the returned position is not inside an escape sequence is string reasoning beyond both solvers: '
          'bounded only (exhaustive fold sweep in bounded/C08.py)',
)
CONTRACTS.append(word_split)


# ---- grammar actions of the MOF compiler: what the production's symbols say arrives in the constructed object.
# The specification is GENERATED from the grammar rule in each action's docstring (read from the real source on every
# run): symbol dataType -> type, propertyName -> name, array -> is_array True and array_size, no array symbol -> no
# array_size, no defaultValue symbol -> NULL value.  (A-PLY: p[i] is the value of the i-th symbol of the rule.)
import ast as _ast
from pyvc.repo import Repo as _Repo
import os as _os

SYM = {'dataType': Str, 'propertyName': Str, 'array': Opt(Int), 'defaultValue': Opt(Str),
       'qualifierList': ListOf(('ref', 'CIMQualifier')), "';'": Str}
CLASS_SPECS = dict(globals().get('CLASS_SPECS', {}))
CLASS_SPECS['CIMQualifier'] = {'name': Str}


def _rule(fn):
    doc = _ast.get_docstring(fn) or ''
    head, _, rhs = doc.partition(':')
    return head.strip(), rhs.split()


def _property_action_contracts():
    repo = _Repo(_os.environ.get('PYVC_REPO', '/repo'))
    mod = repo.module('pywbem._mof_compiler')
    out = []
    for n in range(1, 9):
        fname = f'p_propertyDeclaration_{n}'
        fi = mod.get_func(fname)
        if fi is None:
            continue
        head, syms = _rule(fi.node)
        if any(s not in SYM for s in syms):
            continue
        pos = {s: i + 1 for i, s in enumerate(syms)}
        req = [('name-is-the-propertyName-symbol', f"name == caller_p[{pos['propertyName']}]"),
               ('type-is-the-dataType-symbol', f"type == caller_p[{pos['dataType']}]")]
        if 'array' in pos:
            req.append(('array-symbol-means-an-array-of-that-size', f"is_array is True and array_size == caller_p[{pos['array']}]"))
        else:
            req.append(('no-array-symbol-means-no-array-size', 'array_size is None and not is_array'))
        if 'defaultValue' not in pos:
            req.append(('no-defaultValue-symbol-means-NULL', 'value is None'))
        if 'qualifierList' in pos:
            req.append(('qualifierList-symbol-means-qualifiers-are-handed-over', 'qualifiers is not None'))
        init_c = Contract('pywbem/_cim_obj.py::CIMProperty.__init__', trusted=True,
                          raises={'TypeError': Raises(), 'ValueError': Raises()}, requires=req)
        cimvalue_c = Contract('pywbem/_cim_obj.py::cimvalue', returns=Opt(Ref('value')), trusted=True,
                              raises={'TypeError': Raises(), 'ValueError': Raises()},
                              requires=[('the-default-is-typed-with-the-declared-type',
                                         f"type == caller_p[{pos['dataType']}]" + (f" and value is caller_p[{pos['defaultValue']}]" if 'defaultValue' in pos else ''))])
        out.append(Contract(
            f'pywbem/_mof_compiler.py::{fname}',
            params={'p': Obj('YaccProduction', __items__=TupleOf(NoneT, *[SYM[s] for s in syms]))},
            callees={'CIMProperty.__init__': init_c, 'cimvalue': cimvalue_c},
            opaque=['CIMProperty'],
            ensures=[('production-value-is-the-property', 'isinstance(p[0], CIMProperty)')],
            raises={'TypeError': Raises(), 'ValueError': Raises()},
            notes=f'rule: {head} : {" ".join(syms)}'))
    return out


CONTRACTS.extend(_property_action_contracts())

SYM.update({'parameterName': Str, 'objectRef': Str})


def _alternatives(fn):
    doc = _ast.get_docstring(fn) or ''
    head, _, rhs = doc.partition(':')
    return head.strip(), [alt.split() for alt in rhs.split('|') if alt.split()]


def _parameter_action_contracts():
    repo = _Repo(_os.environ.get('PYVC_REPO', '/repo'))
    mod = repo.module('pywbem._mof_compiler')
    out = []
    for n in range(1, 5):
        fname = f'p_parameter_{n}'
        fi = mod.get_func(fname)
        if fi is None:
            continue
        head, alts = _alternatives(fi.node)
        for syms in alts:
            if any(s not in SYM for s in syms):
                continue
            pos = {s: i + 1 for i, s in enumerate(syms)}
            req = [('name-is-the-parameterName-symbol', f"name == caller_p[{pos['parameterName']}]")]
            if 'dataType' in pos:
                req.append(('type-is-the-dataType-symbol', f"type == caller_p[{pos['dataType']}]"))
                req.append(('no-reference-class-for-a-typed-parameter', 'reference_class is None'))
            else:
                req.append(('objectRef-symbol-means-a-reference-to-that-class',
                            f"type == 'reference' and reference_class == caller_p[{pos['objectRef']}]"))
            if 'array' in pos:
                req.append(('array-symbol-means-an-array-of-that-size', f"is_array is True and array_size == caller_p[{pos['array']}]"))
            else:
                req.append(('no-array-symbol-means-no-array-size', 'array_size is None and not is_array'))
            if 'qualifierList' in pos:
                req.append(('qualifierList-symbol-means-qualifiers-are-handed-over', 'qualifiers is not None'))
            init_c = Contract('pywbem/_cim_obj.py::CIMParameter.__init__', trusted=True,
                              raises={'TypeError': Raises(), 'ValueError': Raises()}, requires=req)
            out.append(Contract(
                f'pywbem/_mof_compiler.py::{fname}', label=' '.join(syms),
                params={'p': Obj('YaccProduction', __items__=TupleOf(NoneT, *[SYM[s] for s in syms]))},
                callees={'CIMParameter.__init__': init_c},
                opaque=['CIMParameter'],
                ensures=[('production-value-is-the-parameter', 'isinstance(p[0], CIMParameter)')],
                raises={'TypeError': Raises(), 'ValueError': Raises()},
                notes=f'rule: {head} : {" ".join(syms)}'))
    return out


CONTRACTS.extend(_parameter_action_contracts())

# ---- further grammar-action contracts live in a sibling file
import importlib.util as _ilu
import sys as _sys
_p = _os.path.join(_os.path.dirname(_os.path.abspath(__file__)), 'C08_mof.py')
if _os.path.exists(_p):
    _s = _ilu.spec_from_file_location('contracts_C08_mof', _p)
    _m = _ilu.module_from_spec(_s)
    _sys.modules['contracts_C08_mof'] = _m
    _s.loader.exec_module(_m)
    CONTRACTS.extend(_m.CONTRACTS)
    for _k, _v in getattr(_m, 'CLASS_SPECS', {}).items():
        CLASS_SPECS.setdefault(_k, {}).update(_v)
