"""C08 - MOF produced by tomof() recompiles to the same objects."""
from pyvc.contract import Contract, Raises, LoopSpec
from pyvc.values import *   # noqa

EXPLANATION = (
    "mofstr(): the folding loop is verified with ghost state: the text consumed so far plus the rest still to be "
    "written always equals the escaped value (nothing lost, nothing twice, wherever the line is folded), the "
    "returned MOF text is exactly the quoted parts (with line breaks) the ghost recorded, the loop's own "
    "endless-loop assertion can never fire and the rest strictly shrinks (termination). That no part ends inside "
    "an escape sequence is bounded only (string reasoning beyond both solvers)."
)
K = 'pywbem/_cim_obj.py::'
CONTRACTS = []

# a part that ends inside an escape sequence: an unescaped backslash, optionally followed by x and < 4 hex digits
INSIDE_ESC = r'(.|\n)*(\\\\)*\\(x[0-9A-Fa-f]{0,3})?'
NOT_ESCAPED_TAIL = r'((.|\n)*[^\\])?(\\\\)*'      # text ending with an even number of backslashes

mof_escaped_c = Contract(K + '_mof_escaped', returns=Str, trusted=True,
                         notes='the escaping chain itself is covered by the escape/unescape lemma and the bounded stand-in')

WORD_SPLIT_CALLEE = Contract(K + '_mof_word_split_pos', returns=Int, requires=['split_pos >= 0'],
                             ensures=[('bounds', '0 <= result <= split_pos')], raises={},
                             notes='proved below (word_split)')

CONTRACTS.append(Contract(
    K + 'mofstr',
    params={'value': Str, 'indent': Int, 'maxline': Int, 'line_pos': Int, 'end_space': Int,
            'avoid_splits': Bool, 'quote_char': Lit('"')},
    requires=['indent >= 0', 'line_pos >= 0', 'end_space >= 0', 'maxline - indent >= 3'],
    callees={'_mof_escaped': mof_escaped_c, '_mof_word_split_pos': WORD_SPLIT_CALLEE},
    kinds={'mof': 'str'},
    ghost_init={'g_done': "''", 'g_text': "''", 'g_E': "''"},
    ghost_code={
        'value = _mof_escaped(value)': 'g_E = value',
        'mof.append(new_line)': 'g_text = g_text + new_line',
        'mof.append(value)': 'g_done = g_done + value\ng_text = g_text + quote_char + value + quote_char',
        'mof.append(part_value)': 'g_done = g_done + part_value\ng_text = g_text + quote_char + part_value + quote_char',
    },
    loops={1: LoopSpec(modifies=['mof'],
                       types={'saved_value': Str, 'avl_len': Int, 'blank_pos': Int, 'split_pos': Int, 'part_value': Str,
                              'g_done': Str, 'g_text': Str},
                       invariant=[('nothing-lost-nothing-twice', 'g_done + value == g_E'),
                                  ('text-is-the-quoted-parts', 'joined(mof) == g_text'),
                                  ('line-position-nonnegative', 'line_pos >= 0')],
                       variant='len(value)')},
    ensures=[('all-of-the-escaped-value-was-written', 'g_done == g_E'),
             ('returned-text-is-the-quoted-parts', 'result[0] == g_text'),
             ('line-position-nonnegative', 'result[1] >= 0')],
    raises={},          # in particular the endless-loop AssertionError can never fire
))

word_split = Contract(
    K + '_mof_word_split_pos',
    params={'escaped_str': Str, 'split_pos': Int},
    requires=['split_pos >= 0'],
    returns=Int,
    loops={1: LoopSpec(types={'seq_len': Int, 'i': Int},
                       invariant=[('index-nonnegative', '0 <= i')],
                       variant='len(escaped_str) + 6 - i')},
    ensures=[('not-after-the-requested-position', '0 <= result <= split_pos')],
    raises={},
    notes='that the returned position is not inside an escape sequence is string reasoning beyond both solvers: '
          'bounded only (exhaustive fold sweep in bounded/C08.py)',
)
CONTRACTS.append(word_split)
