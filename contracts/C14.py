"""C14 - Pull enumeration sessions deliver each object exactly once, within limits.

Contracts on the real functions of pywbem_mock/_mainprovider.py and
pywbem/_cim_operations.py.  Top-level postconditions come from the property
statement; helper contracts from the code.
"""
from pyvc.contract import Contract, Raises, LoopSpec
from pyvc.values import *   # noqa

EXPLANATION = (
    "Per-call contracts of the server-side pull machinery (_open_response, _pull_response, "
    "CloseEnumeration) over a symbolic enumeration-context table with the data-structure "
    "invariant 'every stored context has a non-empty data list', and of the client-side "
    "validators/_get_rslt_params.  Exactly-once delivery over a whole session follows from "
    "the per-call partition postconditions by induction over the pulls (lemma exactly_once)."
)

# every stored context: pull_type, data (non-empty list of opaque objects), namespace
CTX = Rec(pull_type=Str, data=ListOf('ref'), namespace=Str)
TABLE = MapOf('str', CTX, inv="len(v['data']) >= 1")
SELF = Obj('MainProvider', enumeration_contexts=TABLE, disable_pull_operations=Bool)

validate_namespace = Contract(
    'pywbem_mock/_baseprovider.py::BaseProvider.validate_namespace',
    raises={'CIMError': Raises(post=[('code', 'exc.status_code == CIM_ERR_INVALID_NAMESPACE')])},
    trusted=True,
    notes='assumed: raises only CIMError(CIM_ERR_INVALID_NAMESPACE), writes nothing')

create_contextid = Contract(
    'pywbem_mock/_mainprovider.py::MainProvider._create_contextid',
    returns=Str, trusted=True,
    notes='assumed: returns a str (uuid4); uniqueness is a hypothesis of the frame postcondition')

CONTRACTS = []

E_DATA = "self.enumeration_contexts[EnumerationContext]['data']"

pull_response = Contract(
    'pywbem_mock/_mainprovider.py::MainProvider._pull_response',
    params={'self': SELF, 'req_type': Str, 'EnumerationContext': Str, 'MaxObjectCount': Opt(Int)},
    consts={'DEFAULT_MAX_OBJECT_COUNT': Int}, facts=['DEFAULT_MAX_OBJECT_COUNT >= 1'],
    # = postcondition of _validate_MaxObjectCount_OpenPull (proved below), which every
    # Pull... operation of WBEMConnection calls first
    requires=['MaxObjectCount is None or MaxObjectCount >= 0'],
    callees={'validate_namespace': validate_namespace},
    ensures=[
        ('at-most-MaxObjectCount',
         'implies(MaxObjectCount is not None, len(result[0]) <= MaxObjectCount)'),
        ('partition-nothing-lost-nothing-twice',
         f"result[0] + ([] if result[1] == 'TRUE' else {E_DATA}) == old({E_DATA})"),
        ('progress',
         "implies(MaxObjectCount is not None and MaxObjectCount > 0, len(result[0]) >= 1 or result[1] == 'TRUE')"),
        ('eos-iff-context-closed',
         "(result[1] == 'TRUE') == (EnumerationContext not in self.enumeration_contexts)"),
        ('eos-is-TRUE-or-FALSE', "result[1] == 'TRUE' or result[1] == 'FALSE'"),
        ('context-id-returned', "implies(result[1] == 'FALSE', result[2] == EnumerationContext)"),
        ('table-invariant-preserved', f"implies(result[1] == 'FALSE', len({E_DATA}) >= 1)"),
        ('other-contexts-untouched',
         'same_except(self.enumeration_contexts, old(self.enumeration_contexts), EnumerationContext)'),
    ],
    raises={'CIMError': Raises(post=[
        ('status-code', 'exc.status_code in (CIM_ERR_INVALID_ENUMERATION_CONTEXT, CIM_ERR_INVALID_NAMESPACE)'),
        ('unknown-context-refused',
         'implies(old(EnumerationContext not in self.enumeration_contexts), exc.status_code == CIM_ERR_INVALID_ENUMERATION_CONTEXT)'),
        ('refused-without-consuming',
         f"implies(old(EnumerationContext in self.enumeration_contexts), EnumerationContext in self.enumeration_contexts and {E_DATA} == old({E_DATA}))"),
        ('table-untouched', 'same_except(self.enumeration_contexts, old(self.enumeration_contexts))'),
    ])},
)
CONTRACTS.append(pull_response)

R_DATA = "self.enumeration_contexts[result[2]]['data']"
open_response = Contract(
    'pywbem_mock/_mainprovider.py::MainProvider._open_response',
    params={'self': SELF, 'namespace': Str, 'objects': ListOf('ref'), 'pull_type': Str,
            'OperationTimeout': Opt(Int), 'MaxObjectCount': Opt(Int), 'ContinueOnError': Opt(Bool)},
    consts={'DEFAULT_MAX_OBJECT_COUNT': Int}, facts=['DEFAULT_MAX_OBJECT_COUNT >= 1'],
    requires=['MaxObjectCount is None or MaxObjectCount >= 0'],
    callees={'_create_contextid': create_contextid},
    ensures=[
        ('at-most-MaxObjectCount',
         'implies(MaxObjectCount is not None, len(result[0]) <= MaxObjectCount)'),
        ('partition-nothing-lost-nothing-twice',
         f"result[0] + ([] if result[1] == 'TRUE' else {R_DATA}) == old(objects)"),
        ('eos-is-TRUE-or-FALSE', "result[1] == 'TRUE' or result[1] == 'FALSE'"),
        ('no-context-when-eos', "implies(result[1] == 'TRUE', result[2] == '')"),
        ('context-registered-when-not-eos',
         "implies(result[1] == 'FALSE', result[2] in self.enumeration_contexts "
         "and self.enumeration_contexts[result[2]]['pull_type'] == pull_type "
         "and self.enumeration_contexts[result[2]]['namespace'] == namespace)"),
        ('table-invariant-established', f"implies(result[1] == 'FALSE', len({R_DATA}) >= 1)"),
        ('other-contexts-untouched',
         "implies(result[1] == 'TRUE', same_except(self.enumeration_contexts, old(self.enumeration_contexts))) and "
         "implies(result[1] == 'FALSE', same_except(self.enumeration_contexts, old(self.enumeration_contexts), result[2]))"),
    ],
    raises={},
)
CONTRACTS.append(open_response)

close_enumeration = Contract(
    'pywbem_mock/_mainprovider.py::MainProvider.CloseEnumeration',
    params={'self': SELF, 'EnumerationContext': Str},
    ensures=[
        ('context-removed', 'EnumerationContext not in self.enumeration_contexts'),
        ('was-open', 'old(EnumerationContext in self.enumeration_contexts)'),
        ('other-contexts-untouched',
         'same_except(self.enumeration_contexts, old(self.enumeration_contexts), EnumerationContext)'),
    ],
    raises={'CIMError': Raises(post=[
        ('status-code', 'exc.status_code in (CIM_ERR_INVALID_ENUMERATION_CONTEXT, CIM_ERR_NOT_SUPPORTED)'),
        ('closed-context-refused',
         'implies(not self.disable_pull_operations, old(EnumerationContext not in self.enumeration_contexts) '
         'and exc.status_code == CIM_ERR_INVALID_ENUMERATION_CONTEXT)'),
        ('table-untouched', 'same_except(self.enumeration_contexts, old(self.enumeration_contexts))'),
    ])},
)
CONTRACTS.append(close_enumeration)

validate_moc = Contract(
    'pywbem/_cim_operations.py::_validate_MaxObjectCount_OpenPull',
    params={'MaxObjectCount': Union(NoneT, Int, Str, Bool)},
    ensures=[('accepted-values', 'MaxObjectCount is None or (isinstance(MaxObjectCount, int) and MaxObjectCount >= 0)')],
    raises={'TypeError': Raises(post=[('not-int', 'not isinstance(MaxObjectCount, int)')]),
            'ValueError': Raises(post=[('negative', 'MaxObjectCount < 0')])},
)
CONTRACTS.append(validate_moc)

validate_moc_iter = Contract(
    'pywbem/_cim_operations.py::_validate_MaxObjectCount_Iter',
    params={'MaxObjectCount': Union(NoneT, Int, Str, Bool)},
    ensures=[('accepted-values', 'isinstance(MaxObjectCount, int) and MaxObjectCount > 0')],
    raises={'TypeError': Raises(post=[('not-int', 'not isinstance(MaxObjectCount, (int, type(None)))')]),
            'ValueError': Raises(post=[('not-positive', 'MaxObjectCount is None or MaxObjectCount <= 0')])},
)
CONTRACTS.append(validate_moc_iter)

validate_pull_enabled = Contract(
    'pywbem_mock/_mainprovider.py::MainProvider._validate_pull_operations_enabled',
    params={'self': SELF},
    ensures=[('enabled', 'not self.disable_pull_operations')],
    raises={'CIMError': Raises(post=[('code', 'exc.status_code == CIM_ERR_NOT_SUPPORTED'),
                                     ('only-when-disabled', 'self.disable_pull_operations')])},
)
CONTRACTS.append(validate_pull_enabled)


# ---- further contracts of this property live in the sibling file C14_ops.py (same conventions)
import importlib.util as _ilu_C14_ops
import os as _os_C14_ops
import sys as _sys_C14_ops
_p_C14_ops = _os_C14_ops.path.join(_os_C14_ops.path.dirname(_os_C14_ops.path.abspath(__file__)), 'C14_ops.py')
if _os_C14_ops.path.exists(_p_C14_ops):
    _s_C14_ops = _ilu_C14_ops.spec_from_file_location('contracts_C14_ops', _p_C14_ops)
    _m_C14_ops = _ilu_C14_ops.module_from_spec(_s_C14_ops)
    _sys_C14_ops.modules['contracts_C14_ops'] = _m_C14_ops
    _sys_C14_ops.modules.setdefault('contracts_C14', _sys_C14_ops.modules.get('contracts_C14') or _sys_C14_ops.modules[__name__])
    _s_C14_ops.loader.exec_module(_m_C14_ops)
    CONTRACTS.extend(_m_C14_ops.CONTRACTS)
    CLASS_SPECS = dict(globals().get('CLASS_SPECS', {}))
    for _k, _v in getattr(_m_C14_ops, 'CLASS_SPECS', {}).items():
        CLASS_SPECS.setdefault(_k, {}).update(_v)
    LEMMAS = list(globals().get('LEMMAS', [])) + list(getattr(_m_C14_ops, 'LEMMAS', []))
