"""C10 - The mock server's instance store is a faithful keyed map with CIM status codes."""
from pyvc.contract import Contract, Raises, LoopSpec
from pyvc.values import *   # noqa

EXPLANATION = (
    "InMemoryObjectStore against the abstract view 'map from names (compared by ==) to objects': "
    "create/get/update/delete/object_exists/len with frame (all other names untouched), the exceptions "
    "of the documented situations, and isolation (what is stored is a fresh deep copy of the argument; "
    "what get() hands out is a fresh deep copy of what is stored)."
)

STORE = Obj('InMemoryObjectStore', _data=MapOf('absval', ('ref', 'CIMInstance')),
            _cim_object_type=Cls('CIMInstance'), _copy_names=Bool)
NAME = Ref('CIMInstanceName')
INST = Ref('CIMInstance')
K = 'pywbem_mock/_inmemoryrepository.py::InMemoryObjectStore.'
CONTRACTS = []

CONTRACTS.append(Contract(
    K + 'create', params={'self': STORE, 'name': NAME, 'cim_object': INST},
    ensures=[('was-absent', 'old(name not in self._data)'),
             ('now-present', 'name in self._data'),
             ('stored-equals-argument', 'self._data[name] == cim_object'),
             ('stored-is-isolated-copy', 'fresh(self._data[name]) and self._data[name] is not cim_object'),
             ('other-names-untouched', 'same_except(self._data, old(self._data), name)')],
    raises={'ValueError': Raises(post=[('only-when-present', 'old(name in self._data)'),
                                       ('store-unchanged', 'same_except(self._data, old(self._data))')])}))

CONTRACTS.append(Contract(
    K + 'get', params={'self': STORE, 'name': NAME, 'copy': Bool},
    ensures=[('present', 'name in self._data'),
             ('equals-stored', 'result == self._data[name]'),
             ('handed-out-copy-is-isolated', 'implies(copy, fresh(result) and result is not self._data[name])'),
             ('store-unchanged', 'same_except(self._data, old(self._data))')],
    raises={'KeyError': Raises(post=[('only-when-absent', 'name not in self._data'),
                                     ('store-unchanged', 'same_except(self._data, old(self._data))')])}))

CONTRACTS.append(Contract(
    K + 'update', params={'self': STORE, 'name': NAME, 'cim_object': INST},
    ensures=[('was-present', 'old(name in self._data)'),
             ('still-present', 'name in self._data'),
             ('stored-equals-argument', 'self._data[name] == cim_object'),
             ('stored-is-isolated-copy', 'fresh(self._data[name]) and self._data[name] is not cim_object'),
             ('other-names-untouched', 'same_except(self._data, old(self._data), name)')],
    raises={'KeyError': Raises(post=[('only-when-absent', 'old(name not in self._data)'),
                                     ('store-unchanged', 'same_except(self._data, old(self._data))')])}))

CONTRACTS.append(Contract(
    K + 'delete', params={'self': STORE, 'name': NAME},
    ensures=[('was-present', 'old(name in self._data)'),
             ('now-absent', 'name not in self._data'),
             ('other-names-untouched', 'same_except(self._data, old(self._data), name)')],
    raises={'KeyError': Raises(post=[('only-when-absent', 'old(name not in self._data)'),
                                     ('store-unchanged', 'same_except(self._data, old(self._data))')])}))

CONTRACTS.append(Contract(
    K + 'object_exists', params={'self': STORE, 'name': NAME},
    ensures=[('membership', 'result == (name in self._data)'),
             ('store-unchanged', 'same_except(self._data, old(self._data))')],
    raises={}))

# ---- ProviderDispatcher: the status codes of the documented situations, decided BEFORE the provider is called
PD = 'pywbem_mock/_providerdispatcher.py::ProviderDispatcher.'
S = 'pywbem_mock/_inmemoryrepository.py::'
CLASS_SPECS = {'CIMInstanceName': {'namespace': Opt(Str), 'classname': Str, 'host': Opt(Str)},
               'CIMInstance': {'classname': Str, 'path': Opt(Ref('CIMInstanceName'))}}
CSTORE = Obj('InMemoryObjectStore', _data=MapOf('str', ('ref', 'CIMClass')))
ISTORE = Obj('InMemoryObjectStore', _data=MapOf('absval', ('ref', 'CIMInstance')))
validate_ns_c = Contract('pywbem_mock/_baseprovider.py::BaseProvider.validate_namespace', trusted=True,
                         raises={'CIMError': Raises(post=[('code', 'exc.status_code == CIM_ERR_INVALID_NAMESPACE')])},
                         notes='the namespace exists or CIM_ERR_INVALID_NAMESPACE (a dictionary lookup in the repository)')
get_cstore_c = Contract(S + 'InMemoryRepository.get_class_store', returns_ghost='g_cstore', trusted=True)
get_istore_c = Contract(S + 'InMemoryRepository.get_instance_store', returns_ghost='g_istore', trusted=True)
exists_c = Contract(S + 'InMemoryObjectStore.object_exists', returns=Bool,
                    ensures=[('membership', 'result == (name in self._data)')], notes='proved above')
registered_c = Contract('pywbem_mock/_providerregistry.py::ProviderRegistry.get_registered_provider',
                        returns=Opt(Ref('InstanceWriteProvider')), trusted=True)
prov_delete_c = Contract('pywbem_mock/_instancewriteprovider.py::InstanceWriteProvider.DeleteInstance',
                         raises={'CIMError': Raises()}, trusted=True,
                         notes='the (default or registered) provider; its own contract is C11/bounded')
DISPATCHER = Obj('ProviderDispatcher', cimrepository=Obj('InMemoryRepository'), provider_registry=Ref('ProviderRegistry'),
                 default_instance_write_provider=Ref('InstanceWriteProvider'))
CLS_OK = 'InstanceName.classname in g_cstore._data'
INST_OK = 'InstanceName in g_istore._data'
CONTRACTS.append(Contract(
    PD + 'DeleteInstance',
    params={'self': DISPATCHER, 'InstanceName': Ref('CIMInstanceName')},
    ghosts={'g_cstore': CSTORE, 'g_istore': ISTORE},
    callees={'validate_namespace': validate_ns_c, 'get_class_store': get_cstore_c, 'get_instance_store': get_istore_c,
             'InMemoryObjectStore.object_exists': exists_c, 'get_registered_provider': registered_c,
             'DeleteInstance': prov_delete_c},
    ensures=[('the-provider-is-reached-only-for-an-existing-instance-of-an-existing-class',
              f'old({CLS_OK}) and old({INST_OK})')],
    raises={'CIMError': Raises(post=[
        ('status-code-of-the-documented-situation',
         f'exc.status_code == CIM_ERR_INVALID_NAMESPACE or '
         f'(exc.status_code == CIM_ERR_INVALID_CLASS and not old({CLS_OK})) or '
         f'(exc.status_code == CIM_ERR_NOT_FOUND and old({CLS_OK}) and not old({INST_OK})) or '
         f'(old({CLS_OK}) and old({INST_OK}))'),
        ('missing-class-is-INVALID_CLASS-not-NOT_FOUND',
         f'implies(exc.status_code == CIM_ERR_NOT_FOUND and not old({INST_OK}), old({CLS_OK}))')])},
))

store_get_c = Contract(S + 'InMemoryObjectStore.get', returns=Ref('CIMClass'),
                       ensures=[('present', 'name in self._data')],
                       raises={'KeyError': Raises(post=[('only-when-absent', 'name not in self._data')])},
                       notes='proved above (get)')
validate_prop_c = Contract(PD + '_validate_property', trusted=True,
                           raises={'CIMError': Raises(post=[('code', 'exc.status_code == CIM_ERR_INVALID_PARAMETER')])},
                           notes='property declared in the class and of the declared type, else CIM_ERR_INVALID_PARAMETER (bounded)')
prov_create_c = Contract('pywbem_mock/_instancewriteprovider.py::InstanceWriteProvider.CreateInstance',
                         returns=Ref('CIMInstanceName'), raises={'CIMError': Raises()}, trusted=True,
                         requires=[('the-provider-gets-a-private-copy-not-the-callers-object',
                                    'fresh(new_instance) and new_instance is not caller_NewInstance'),
                                   ('same-namespace', 'namespace == caller_namespace')],
                         notes='the (default or registered) provider; its own behaviour is C11/bounded')
CLASS_SPECS['CIMClass'] = {'qualifiers': Ref('NocaseDict'), 'properties': Ref('NocaseDict'), 'classname': Str}
CLASS_SPECS['CIMInstance']['properties'] = Ref('NocaseDict')
CLASS_SPECS['CIMProperty'] = {'name': Str}
CLASS_SPECS['NocaseDict'] = {'__iter__': 'str', '__value__': ('ref', 'CIMProperty')}
qual_get_c = Contract('external::NocaseDict.get', sig=['self', 'key', 'default=None'], returns=Union(Bool, Ref('CIMQualifier')),
                      trusted=True)
NEWCLS_OK = 'NewInstance.classname in g_cstore._data'
CONTRACTS.append(Contract(
    PD + 'CreateInstance',
    params={'self': DISPATCHER, 'namespace': Str, 'NewInstance': Ref('CIMInstance')},
    requires=['NewInstance.path is None'],
    ghosts={'g_cstore': CSTORE},
    callees={'validate_namespace': validate_ns_c, 'get_class_store': get_cstore_c, 'InMemoryObjectStore.get': store_get_c,
             '_validate_property': validate_prop_c, 'get_registered_provider': registered_c,
             'CreateInstance': prov_create_c, 'get': qual_get_c},
    loops={1: LoopSpec(target='pn', types={'pn': Str}), 2: LoopSpec(target='inst_pn', modifies=['$fields:CIMProperty.name'],
                                                                  types={'inst_pn': Str, 'inst_prop': Ref('CIMProperty'), 'cls_pn': Str})},
    ensures=[('the-provider-is-reached-only-for-an-existing-class', f'old({NEWCLS_OK})'),
             ('the-callers-instance-is-not-renamed', 'NewInstance.classname == old(NewInstance.classname)')],
    raises={'CIMError': Raises(post=[
        ('status-code-of-the-documented-situation',
         f'exc.status_code == CIM_ERR_INVALID_NAMESPACE or '
         f'(exc.status_code == CIM_ERR_INVALID_CLASS and not old({NEWCLS_OK})) or old({NEWCLS_OK})'),
        ('a-missing-class-is-reported-as-INVALID_CLASS',
         f'implies(not old({NEWCLS_OK}), exc.status_code in (CIM_ERR_INVALID_NAMESPACE, CIM_ERR_INVALID_CLASS))')])},
))

# ---- _validate_property: a property of a new / modified instance passes only if it is declared in the creation class
# with the same type AND the same array-ness - whatever its value, NULL included; every rejection is INVALID_PARAMETER
CLASS_SPECS['CIMProperty'].update({'type': Str, 'is_array': Bool, 'value': Union(NoneT, Str, Ref('CIMInstance'), Ref('CIMClass')),
                                   'qualifiers': Ref('NocaseDict')})
CLASS_SPECS['CIMQualifier'] = {'value': Opt(Str)}
is_subclass_c = Contract('pywbem_mock/_baseprovider.py::BaseProvider.is_subclass', returns=Bool, trusted=True)
VP_I = 'instance.properties[prop_name]'
VP_C = 'creation_class.properties[prop_name]'
CONTRACTS.append(Contract(
    PD + '_validate_property',
    params={'self': DISPATCHER, 'prop_name': Str, 'instance': Ref('CIMInstance'), 'creation_class': Ref('CIMClass'),
            'namespace': Str, 'class_store': Ref('InMemoryObjectStore')},
    callees={'is_subclass': is_subclass_c},
    ensures=[('declared-in-the-creation-class', 'prop_name in creation_class.properties'),
             ('declared-type', f'{VP_I}.type == {VP_C}.type'),
             ('declared-array-ness-whatever-the-value', f'{VP_I}.is_array == {VP_C}.is_array')],
    raises={'CIMError': Raises(post=[('always-INVALID_PARAMETER', 'exc.status_code == CIM_ERR_INVALID_PARAMETER')])},
))

# ---- the CIM_Namespace provider's CreateInstance (an instance operation of this property: ALREADY_EXISTS / INVALID_PARAMETER
# "raised in exactly the documented situations", nothing else escapes) is under contract in contracts/C11_prov.py: shared here.
import importlib.util as _ilu
import os as _os
import sys as _sys
if 'contracts_C11' not in _sys.modules:
    _sp11 = _ilu.spec_from_file_location('contracts_C11', _os.path.join(_os.path.dirname(_os.path.abspath(__file__)), 'C11.py'))
    _c11 = _ilu.module_from_spec(_sp11)
    _sys.modules['contracts_C11'] = _c11
    _sp11.loader.exec_module(_c11)
else:
    _c11 = _sys.modules['contracts_C11']
for _c in _c11.CONTRACTS:
    if _c.key.startswith('pywbem_mock/_namespaceprovider.py::CIMNamespaceProvider.'):
        _c.home_class_specs = _c11.CLASS_SPECS      # verified with the class view of its home module (C11)
        CONTRACTS.append(_c)

# ---- further contracts of this property live in the sibling file C10_mod.py (same conventions)
import importlib.util as _ilu_C10_mod
import os as _os_C10_mod
import sys as _sys_C10_mod
_p_C10_mod = _os_C10_mod.path.join(_os_C10_mod.path.dirname(_os_C10_mod.path.abspath(__file__)), 'C10_mod.py')
if _os_C10_mod.path.exists(_p_C10_mod):
    _s_C10_mod = _ilu_C10_mod.spec_from_file_location('contracts_C10_mod', _p_C10_mod)
    _m_C10_mod = _ilu_C10_mod.module_from_spec(_s_C10_mod)
    _sys_C10_mod.modules['contracts_C10_mod'] = _m_C10_mod
    _sys_C10_mod.modules.setdefault('contracts_C10', _sys_C10_mod.modules.get('contracts_C10') or _sys_C10_mod.modules[__name__])
    _s_C10_mod.loader.exec_module(_m_C10_mod)
    CONTRACTS.extend(_m_C10_mod.CONTRACTS)
    for _k, _v in getattr(_m_C10_mod, 'CLASS_SPECS', {}).items():
        _d = CLASS_SPECS.setdefault(_k, {})
        for _a, _s in _v.items():
            _d.setdefault(_a, _s)
    LEMMAS = list(globals().get('LEMMAS', [])) + list(getattr(_m_C10_mod, 'LEMMAS', []))
