"""C10 - The mock server's instance store is a faithful keyed map with CIM status codes."""
from pyvc.contract import Contract, Raises, LoopSpec
from pyvc.values import *   # noqa

EXPLANATION = (
    "InMemoryObjectStore against the abstract view 'map from names (compared by ==) to objects': "
    "create/get/update/delete/object_exists/len with frame (all other names untouched), the exceptions "
    "of the documented situations, and isolation (what is stored is a fresh deep copy of the argument; "
    "what get() hands out is a fresh deep copy of what is stored)."
)

STORE = Obj('InMemoryObjectStore', _data=MapOf('absval', ('ref', 'CIMInstance')),
            _cim_object_type=Cls('CIMInstance'), _copy_names=Bool)
NAME = Ref('CIMInstanceName')
INST = Ref('CIMInstance')
K = 'pywbem_mock/_inmemoryrepository.py::InMemoryObjectStore.'
CONTRACTS = []

CONTRACTS.append(Contract(
    K + 'create', params={'self': STORE, 'name': NAME, 'cim_object': INST},
    ensures=[('was-absent', 'old(name not in self._data)'),
             ('now-present', 'name in self._data'),
             ('stored-equals-argument', 'self._data[name] == cim_object'),
             ('stored-is-isolated-copy', 'fresh(self._data[name]) and self._data[name] is not cim_object'),
             ('other-names-untouched', 'same_except(self._data, old(self._data), name)')],
    raises={'ValueError': Raises(post=[('only-when-present', 'old(name in self._data)'),
                                       ('store-unchanged', 'same_except(self._data, old(self._data))')])}))

CONTRACTS.append(Contract(
    K + 'get', params={'self': STORE, 'name': NAME, 'copy': Bool},
    ensures=[('present', 'name in self._data'),
             ('equals-stored', 'result == self._data[name]'),
             ('handed-out-copy-is-isolated', 'implies(copy, fresh(result) and result is not self._data[name])'),
             ('store-unchanged', 'same_except(self._data, old(self._data))')],
    raises={'KeyError': Raises(post=[('only-when-absent', 'name not in self._data'),
                                     ('store-unchanged', 'same_except(self._data, old(self._data))')])}))

CONTRACTS.append(Contract(
    K + 'update', params={'self': STORE, 'name': NAME, 'cim_object': INST},
    ensures=[('was-present', 'old(name in self._data)'),
             ('still-present', 'name in self._data'),
             ('stored-equals-argument', 'self._data[name] == cim_object'),
             ('stored-is-isolated-copy', 'fresh(self._data[name]) and self._data[name] is not cim_object'),
             ('other-names-untouched', 'same_except(self._data, old(self._data), name)')],
    raises={'KeyError': Raises(post=[('only-when-absent', 'old(name not in self._data)'),
                                     ('store-unchanged', 'same_except(self._data, old(self._data))')])}))

CONTRACTS.append(Contract(
    K + 'delete', params={'self': STORE, 'name': NAME},
    ensures=[('was-present', 'old(name in self._data)'),
             ('now-absent', 'name not in self._data'),
             ('other-names-untouched', 'same_except(self._data, old(self._data), name)')],
    raises={'KeyError': Raises(post=[('only-when-absent', 'old(name not in self._data)'),
                                     ('store-unchanged', 'same_except(self._data, old(self._data))')])}))

CONTRACTS.append(Contract(
    K + 'object_exists', params={'self': STORE, 'name': NAME},
    ensures=[('membership', 'result == (name in self._data)'),
             ('store-unchanged', 'same_except(self._data, old(self._data))')],
    raises={}))
