"""Bounded stand-in for C16: accepted indications reach each callback exactly once in order; stop() is clean.

A real WBEMListener on a 127.0.0.1 loopback port is driven by 1..3 sender threads (hand-written CIM-XML export
requests over http.client, 1..3 indications each), 1..2 callbacks (fast / sleeping / raising), bounded and
unbounded queues, and a driver thread calling stop() (and optionally start() again).  The OS schedules; the
harness steers into distinct interleavings only through things any user of the listener could do:
  * callback duration (a callback that is held until all senders are answered / until stop() is under way /
    that lingers, when it is the last one in flight, until the queue reference is gone),
  * a logging handler on the listener's documented logger that is slow at one record (a delay between two
    statements of stop()) or yields at every record (seeded perturbation at real code points of all threads),
  * extra loopback connections that wake serve_forever() so that shutdown() does not take its 0.5 s poll,
  * seeded think times of the senders and the interpreter switch interval.

Oracle (independent of the listener code): every event (request sent, response received, callback entry/exit,
stop() call/return) gets a ticket from one global counter; the log is then checked against a reference model of
"one FIFO of capacity B, one serial consumer":
  exactly-once per acknowledged indication and callback, none for refused ones, registration order, serial
  execution on one thread, per-sender order = acknowledgement order, a refusal needs >= B indications that can
  have been in the queue during the request (ticket intervals), an acceptance needs < B that must have been,
  everything acknowledged is delivered before stop() returns, afterwards no new thread is alive, the port
  refuses connections and can be bound again, and a second start()/send/stop() round works.
Each case runs in one of several forked worker processes (own port range, own thread census, watchdog).

In-flight schedules ('inflight' cases): stop() is called from another thread while 1..3 raw-socket senders are
each held at one stage of a request's life:
  a  TCP connection open, nothing sent (https: no ClientHello yet, the server thread sits in the handshake),
  b  request line and headers sent, body not yet,
  c  body partly sent (Content-Length announces more),
  d  request complete and answered into the socket buffer (not read yet), the indication queued behind an
     earlier indication whose callback is held (a handler never waits for a callback: it only puts on the queue),
  e  request complete, the handler held inside send_response() (log record 'Sending POST response ...' of the
     listener's logger, lock-free handler), i.e. the indication is queued, the response not yet written.
Every stage is confirmed by observation before stop() is called (a new request handler thread per connection,
the server thread inside do_handshake, the handler inside the log gate, the log record of the response for d).
The stopper thread is then watched (stack frames only) until stop() has returned or PROVABLY waits for what the
harness holds: inside Thread.join() of a held handler thread, inside shutdown() while the server thread sits in
the handshake of the held connection, inside _stop_indication_delivery() with nothing but the held callback
left (variant: already when it is inside shutdown(), for the first sender to end).  Only then the senders end,
one by one (send the rest and read the response / half-close and read / close), with the same watch after each
while others are still held; the held callback is released before or after them; in a quarter of the cases the
last delivery lingers until stop() lets go of the queue (0.4 s at most).  Oracle for the in-flight indication:
refused or unanswered => never delivered if its body was never complete, at most once otherwise; success =>
every callback exactly once before stop() returned; the thread census is taken in the stopper thread directly
after stop() returns; stop() does not raise; a second start()/send/stop() round works.  http and https (self-
signed certificate generated at run time: the only certificate of the source tree, attic/irecv/server.pem, has
a 512 bit key that OpenSSL 3 refuses), queue bound 0/1/2, no / held / slow callbacks.
Not a violation, but seen in every such case: stop() does not return as long as a peer keeps a connection open
without sending (over https a single idle TCP connection holds the server thread in the TLS handshake, so that
nobody else is served either) - the property asks for no lost or late delivery, not for a bounded stop().
"""
import http.client
import itertools
import logging
import multiprocessing
import os
import queue
import random
import shutil
import socket
import ssl
import subprocess
import sys
import tempfile
import threading
import time
import warnings
import xml.etree.ElementTree as ET
import zlib

from bounded.common import Run

R = Run('loopback WBEMListener: senders 1..3 x indications 1..3 x 8 callback sets (1..2 callbacks: fast/sleep/'
        'raise) x queue bound {0,1,2,default} x 8 steered schedules (quiesce, stop right after acks, stop during '
        'send, first callback held until all answered, held through stop(), held through stop()+last lingers, '
        'last in flight lingers, slow log handler inside stop()) x restart yes/no (quick: seeded covering subset, '
        'thorough: full product + perturbed repeat) + lifecycle specials (stop before start, double stop, 3 '
        'start/stop cycles, context manager, busy port, https part of start() failing after the http server is '
        'up, default 2 s get timeout, 0.6 s sleeping callback); OS '
        'schedules only, seeded sender think times / log-record yields / switch interval; + in-flight schedules: '
        'stop() from another thread while 1..3 raw-socket senders are held in different stages (a connection '
        'open / b headers sent / c body partly sent / d answered but unread and queued behind a held callback / '
        'e handler held while writing the response), all 25 stage sets of size 1..3 x http/https x callbacks '
        'none/held/slow x release order x queue bound {0,1,2} x sender end (complete / half-close / close) x '
        'stop() caught in shutdown() or server_close(), restart round after each (quick: 3 rotated variants per '
        'stage set and protocol, thorough: all end combinations x callback modes x bounds)')

QUICK = R.tier == 'quick'


def _loopback_of_this_run():
    """An address of 127.0.0.0/8 of this run's own (from the pid of the main process; the forked workers share
    it): two runs of this script at the same time (quick and thorough, say) then never see each other's
    listeners even if they pick the same port number - a sender of one run that connects just after its
    listener has stopped could otherwise be acknowledged by the other run's listener.  Where only 127.0.0.1
    exists, that is used."""
    pid = os.getpid()
    cand = '127.%d.%d.%d' % (16 + pid % 200, 1 + (pid // 200) % 250, 1 + (pid // 50000) % 250)
    s = socket.socket(socket.AF_INET, socket.SOCK_STREAM)
    try:
        s.bind((cand, 0))
        return cand
    except OSError:
        return '127.0.0.1'
    finally:
        s.close()


HOST = _loopback_of_this_run()      # where the listeners listen
CLIENT_HOST = '127.0.0.1'           # where connections to any address of 127.0.0.0/8 come from
NWORKERS = 8
QGT = 0.02                       # queue_get_timeout used in most cases (public attribute; default is 2 s)
PHASE_TIMEOUT = 25.0 * float(os.environ.get('PYVC_BOUNDED_SLOW', '1'))   # watchdog: one phase of a case (confirmation run: x4)
BUDGET = 50.0 if QUICK else 560.0   # no new case is handed out after this many seconds
TLS = {'cert': None, 'key': None, 'dir': None}   # filled in main() before the workers are forked

REQ = ('<?xml version="1.0" encoding="utf-8" ?>\n'
       '<CIM CIMVERSION="2.0" DTDVERSION="2.4"><MESSAGE ID="m-%(id)s" PROTOCOLVERSION="1.4"><SIMPLEEXPREQ>'
       '<EXPMETHODCALL NAME="ExportIndication"><EXPPARAMVALUE NAME="NewIndication">'
       '<INSTANCE CLASSNAME="C16_Indication"><PROPERTY NAME="Id" TYPE="string"><VALUE>%(id)s</VALUE></PROPERTY>'
       '<PROPERTY NAME="Seq" TYPE="uint32"><VALUE>%(n)d</VALUE></PROPERTY></INSTANCE>'
       '</EXPPARAMVALUE></EXPMETHODCALL></SIMPLEEXPREQ></MESSAGE></CIM>')

K_TASKDONE = 'known:stop-raises-AttributeError-task_done-on-cleared-queue'
K_GET = 'known:stop-raises-AttributeError-get-on-cleared-queue'
K_RESTART = 'known:start-after-failed-stop-raises-AssertionError'
K_STOP2 = 'known:stop-after-failed-stop-raises-same-error-again'
K_FAILED_START = 'known:failed-start-leaves-http-server-acknowledging-indications-it-drops'

SCENARIOS = ('quiesce', 'after-acks', 'during-send', 'hold-release', 'hold-thru-stop', 'hold-thru-stop-linger',
             'linger-last', 'slow-log-in-stop')
CBSETS = (('fast',), ('raise',), ('slow',), ('fast', 'fast'), ('raise', 'fast'), ('fast', 'raise'),
          ('raise', 'slow'), ('slow', 'raise'))
BOUNDS = (0, 1, 2, None)         # None: constructor default (5000)
SI = tuple((s, i) for s in (1, 2, 3) for i in (1, 2, 3))


class CbError(Exception):
    """An exception class of the callback's own."""


CB_MARK = 'raised-by-c16-callback'


def cb_exception(n):
    return (ValueError(CB_MARK), queue.Empty(CB_MARK), CbError(CB_MARK), queue.Full(CB_MARK),
            AttributeError(CB_MARK + ": object has no attribute 'task_done'"), KeyError(CB_MARK))[n % 6]


# ----------------------------------------------------------------------------------------------------------------
# per-case control block: tickets, log, events

class Ctl:
    def __init__(self, case, case_no, seed):
        self.case = case
        self.case_no = case_no
        self.seed = seed
        self.counter = itertools.count(1)
        self.log = []                 # ('enter'|'exit', ticket, iid, cbidx, tid, host, classname)
        self.send = {}                # iid -> ticket
        self.resp = {}                # iid -> ticket
        self.status = {}              # iid -> ('ok',) | ('cimerr', code) | ('http', status) | ('noresp', exc) | ...
        self.session_of = {}          # iid -> session number
        self.order = {}               # (session, sender) -> [iid, ...] in send order
        self.stop_call = {}           # session -> ticket
        self.stop_ret = {}            # session -> ticket
        self.listener = None
        self.first_entered = threading.Event()
        self.release = threading.Event()
        self.hold_release = threading.Event()     # in-flight cases: ends the hold only (release also ends lingering)
        self.go = threading.Event()
        self.senders_done = threading.Event()
        self.stop_called = threading.Event()
        self.any_resp = threading.Event()
        self.hold = None              # None | 'acked' | 'stop' | 'inflight'
        self.linger = False
        self.linger_idx = 0
        self.slow_log = False
        self.perturb = False
        self.qgt = QGT
        self.proto = 'http'
        self.resp_armed = False       # in-flight stage e: handlers are held at the log record of send_response()
        self.resp_held = threading.Semaphore(0)
        self.resp_release = threading.Event()
        self.resp_records = []        # one entry per response a handler has begun to send (GateHandler)
        self.truncated = set()        # iids whose request was never sent completely
        self.phase = 'init'
        self.deadline = time.monotonic() + PHASE_TIMEOUT
        self.viol = []

    def tick(self):
        return next(self.counter)

    def set_phase(self, name):
        self.phase = name
        self.deadline = time.monotonic() + PHASE_TIMEOUT

    def violation(self, vid, **detail):
        if not any(v[0] == vid for v in self.viol):
            d = dict(case=repr(self.case), case_no=self.case_no, seed=self.seed)
            d.update(detail)
            self.viol.append((vid, d))

    # ---- callback side ----
    def gate(self, idx):
        lis = self.listener
        if self.hold and not self.first_entered.is_set():
            self.first_entered.set()
            if self.hold == 'acked':
                self.release.wait(20)
            elif self.hold == 'inflight':
                self.hold_release.wait(20)
            else:
                self.stop_called.wait(20)
                t_end = time.monotonic() + 0.3
                while lis.http_started and time.monotonic() < t_end and not self.release.is_set():
                    time.sleep(0.001)
            return
        if self.linger and idx == self.linger_idx:
            t_end = time.monotonic() + 1.0
            while True:
                done = self.senders_done.is_set()
                if lis.ind_queue_empty() is not True:
                    return            # more indications queued (not the last one), or queue already gone
                if done:
                    break             # nothing can be queued any more: this is the last one in flight
                if time.monotonic() > t_end or self.release.is_set():
                    return
                time.sleep(0.001)
            if not self.stop_called.wait(2.0):
                return
            t_end = time.monotonic() + 0.4
            while lis.ind_queue_exists() and time.monotonic() < t_end and not self.release.is_set():
                time.sleep(0.001)


def make_cb(ctl, idx, beh):
    def cb(indication, host):
        try:
            iid = indication['Id']
            cls = indication.classname
        except Exception as exc:    # pylint: disable=broad-except
            iid, cls = 'bad:' + type(exc).__name__, None
        tid = threading.get_ident()
        ctl.log.append(('enter', ctl.tick(), iid, idx, tid, host, cls))
        try:
            ctl.gate(idx)
            if beh == 'slow':
                time.sleep(0.004)
            elif beh == 'slower':
                time.sleep(0.03)
            elif beh == 'raise':
                raise cb_exception(len(ctl.log) + idx)
        finally:
            ctl.log.append(('exit', ctl.tick(), iid, idx, tid, host, cls))
    cb.__name__ = 'cb%d' % idx
    return cb


class HookHandler(logging.Handler):
    """Handler on the listener's own logger: a slow record inside stop(), or seeded yields at every record."""

    def __init__(self, ctl):
        super().__init__(logging.DEBUG)
        self.ctl = ctl
        self.n = itertools.count()

    def emit(self, record):
        ctl = self.ctl
        try:
            if ctl.slow_log and record.msg == 'Stopping callback thread':
                time.sleep(3 * ctl.qgt + 0.04)
            elif ctl.perturb:
                h = zlib.crc32(('%d:%d:%s:%d' % (ctl.seed, ctl.case_no, record.msg, next(self.n))).encode())
                d = (0, 0, 0, 0.0003, 0.001, 0.003)[h % 6]
                if d:
                    time.sleep(d)
        except Exception:           # pylint: disable=broad-except
            pass


RESP_RECORD = 'Sending %s response with HTTP status %s'     # log_request(), called by send_response()


class GateHandler(HookHandler):
    """Lock-free variant (a held record must not hold up the records of other threads, stop() logs too): while
    armed, every request handler thread is held at the record send_response() emits, i.e. after the indication
    has been put on the queue (or found the queue full) and before the first byte of the response is written."""

    def createLock(self):
        self.lock = None

    def emit(self, record):
        ctl = self.ctl
        if record.msg == RESP_RECORD:
            ctl.resp_records.append(threading.get_ident())
            if ctl.resp_armed:
                ctl.resp_held.release()
                ctl.resp_release.wait(20)
        super().emit(record)


# ----------------------------------------------------------------------------------------------------------------
# sender side

def classify(iid, status, body):
    if status != 200:
        return ('http', status)
    try:
        root = ET.fromstring(body)
        msg = root.find('MESSAGE')
        rsp = msg.find('SIMPLEEXPRSP').find('EXPMETHODRESPONSE')
        if root.tag != 'CIM' or rsp.get('NAME') != 'ExportIndication':
            return ('badxml', body[:120])
        if msg.get('ID') != 'm-' + iid:
            return ('wrongid', msg.get('ID'))
        err = rsp.find('ERROR')
        if err is None:
            if len(rsp):
                return ('badxml', body[:120])
            return ('ok',)
        return ('cimerr', err.get('CODE'), (err.get('DESCRIPTION') or '')[:80])
    except Exception as exc:        # pylint: disable=broad-except
        return ('badxml', type(exc).__name__ + ':' + repr(body[:100]))


_CLIENT_CTX = []


def client_ctx():
    if not _CLIENT_CTX:
        ctx = ssl.SSLContext(ssl.PROTOCOL_TLS_CLIENT)
        ctx.check_hostname = False
        ctx.verify_mode = ssl.CERT_NONE
        _CLIENT_CTX.append(ctx)
    return _CLIENT_CTX[0]


def post(port, iid, n, proto='http'):
    body = (REQ % dict(id=iid, n=n)).encode('utf-8')
    if proto == 'https':
        conn = http.client.HTTPSConnection(HOST, port, timeout=12, context=client_ctx())
    else:
        conn = http.client.HTTPConnection(HOST, port, timeout=12)
    try:
        conn.request('POST', '/', body, {'Content-Type': 'application/xml; charset=utf-8',
                                         'CIMExport': 'MethodRequest', 'CIMExportMethod': 'ExportIndication',
                                         'Accept-Charset': 'utf-8'})
        rsp = conn.getresponse()
        data = rsp.read()
        return classify(iid, rsp.status, data)
    except Exception as exc:        # pylint: disable=broad-except
        return ('noresp', type(exc).__name__)
    finally:
        conn.close()


def sender(ctl, port, ids, delays, primer):
    for k, iid in enumerate(ids):
        if not (primer and k == 0):
            ctl.go.wait(20)
        if delays[k]:
            time.sleep(delays[k])
        ctl.send[iid] = ctl.tick()
        try:
            st = post(port, iid, k, ctl.proto)
        except Exception as exc:    # pylint: disable=broad-except
            st = ('harness', repr(exc)[:200])
            ctl.violation('harness-error-in-sender', observed=st[1])
        ctl.status[iid] = st
        ctl.resp[iid] = ctl.tick()
        ctl.any_resp.set()


def poker(ctl, port, done):
    """Connect (and close at once) until the HTTP side is down, so that serve_forever() notices shutdown()."""
    lis = ctl.listener
    t_end = time.monotonic() + 5
    while not done.is_set() and (lis.http_started or lis.https_started) and time.monotonic() < t_end:
        try:
            s = socket.create_connection((HOST, port), timeout=1)
            s.close()
        except OSError:
            pass
        time.sleep(0.004)


STAGE_PARTS = {'a': 0, 'b': 1, 'c': 2, 'd': 3, 'e': 3}     # pieces of the request on the wire when held
RAW_HEAD = ('POST / HTTP/1.1\r\nHost: %s:%d\r\nAccept-Encoding: identity\r\n'
            'Content-Type: application/xml; charset=utf-8\r\nCIMExport: MethodRequest\r\n'
            'CIMExportMethod: ExportIndication\r\nAccept-Charset: utf-8\r\nContent-Length: %d\r\n'
            'Connection: close\r\n\r\n')


class Raw:
    """One export request over a raw socket that can be held after every piece: (connection), request line and
    headers, first half of the body, second half of the body, (response)."""

    def __init__(self, ctl, port, iid, n, stage, fin):
        self.ctl = ctl
        self.port = port
        self.iid = iid
        self.stage = stage
        self.fin = fin                # 'complete' | 'halfclose' | 'close'
        body = (REQ % dict(id=iid, n=n)).encode('utf-8')
        half = len(body) // 2
        self.parts = [(RAW_HEAD % (HOST, port, len(body))).encode('ascii'), body[:half], body[half:]]
        self.sent = 0
        self.sock = None
        self.tls = False
        self.finished = False
        self.thread = None            # its request handler thread in the listener, where known
        if fin != 'complete' and STAGE_PARTS[stage] < 3:
            ctl.truncated.add(iid)

    def open(self):
        self.ctl.send[self.iid] = self.ctl.tick()
        self.sock = socket.create_connection((HOST, self.port), timeout=8)
        self.sock.setsockopt(socket.IPPROTO_TCP, socket.TCP_NODELAY, 1)
        if self.ctl.proto == 'https' and self.stage != 'a':
            self.handshake()

    def handshake(self):
        self.sock = client_ctx().wrap_socket(self.sock)
        self.tls = True

    def send_parts(self, upto):
        while self.sent < upto:
            self.sock.sendall(self.parts[self.sent])
            self.sent += 1

    def advance(self):
        self.send_parts(STAGE_PARTS[self.stage])

    def read_response(self):
        rsp = http.client.HTTPResponse(self.sock, method='POST')
        try:
            rsp.begin()
            return classify(self.iid, rsp.status, rsp.read())
        finally:
            rsp.close()

    def finish(self):
        """Let the request end: the rest and the response / end of stream and the response / just close."""
        ctl = self.ctl
        try:
            if self.fin == 'complete':
                if ctl.proto == 'https' and not self.tls:
                    self.handshake()
                self.send_parts(3)
                st = self.read_response()
            elif self.fin == 'halfclose':
                self.sock.shutdown(socket.SHUT_WR)
                st = self.read_response()
            else:
                st = ('noresp', 'closed-by-sender')
        except Exception as exc:    # pylint: disable=broad-except
            st = ('noresp', type(exc).__name__)
        self.close()
        ctl.status[self.iid] = st
        ctl.resp[self.iid] = ctl.tick()
        self.finished = True

    def close(self):
        if self.sock is not None:
            try:
                self.sock.close()
            except OSError:
                pass
            self.sock = None


def stack_names(th):
    """Function names on the stack of a thread, innermost first (observation only)."""
    fr = sys._current_frames().get(th.ident)      # pylint: disable=protected-access
    names = []
    while fr is not None:
        names.append(fr.f_code.co_name)
        fr = fr.f_back
    return names


# ----------------------------------------------------------------------------------------------------------------
# ports

class Ports:
    """Probe for free ports below the ephemeral range, every worker in its own sub-range."""

    def __init__(self, wid):
        self.lo = 20000 + wid * 1400
        self.n = 1400
        self.k = (os.getpid() * 7919) % self.n

    def next(self):
        for _ in range(self.n):
            self.k = (self.k + 1) % self.n
            port = self.lo + self.k
            if bindable(port, reuse=False):
                return port
        raise RuntimeError('no free port')


def bindable(port, reuse=True):
    s = socket.socket(socket.AF_INET, socket.SOCK_STREAM)
    try:
        if reuse:
            s.setsockopt(socket.SOL_SOCKET, socket.SO_REUSEADDR, 1)
        s.bind((HOST, port))
        s.listen(1)
        return True
    except OSError:
        return False
    finally:
        s.close()


def own_socket_on(port):
    """Does THIS process hold a TCP socket bound to the port (any state but TIME_WAIT)?  None if unknown.
    Tells a port left behind by the listener from one taken meanwhile by some other process."""
    try:
        inodes = set()
        with open('/proc/net/tcp') as f:
            for line in list(f)[1:]:
                fld = line.split()
                if int(fld[1].rsplit(':', 1)[1], 16) == port and fld[3] != '06':
                    inodes.add(fld[9])
        mine = set()
        for fd in os.listdir('/proc/self/fd'):
            try:
                mine.add(os.readlink('/proc/self/fd/' + fd))
            except OSError:
                pass
        return any('socket:[%s]' % i in mine for i in inodes if i != '0')
    except Exception:               # pylint: disable=broad-except
        return None


def accepting(port):
    try:
        s = socket.create_connection((HOST, port), timeout=2)
        s.close()
        return True
    except OSError:
        return False


# ----------------------------------------------------------------------------------------------------------------
# one listener under test

class Session:
    def __init__(self, ctl, ports, bound, ncb_behaviours, dup=False, late=False, hooks=False, qgt=QGT,
                 proto='http', gate=False):
        import pywbem
        self.pywbem = pywbem
        self.ctl = ctl
        self.proto = ctl.proto = proto
        self.gate = gate
        self.ports = ports
        self.bound = bound
        self.behs = ncb_behaviours
        self.dup = dup
        self.late = late
        self.hooks = hooks
        self.qgt = qgt
        self.cbs = [make_cb(ctl, i, b) for i, b in enumerate(ncb_behaviours)]
        self.baseline = set(threading.enumerate())
        self.port = None
        self.lis = None
        self.failed_stop = None       # known id of a failed stop(), if any
        self.nsess = 0

    def new_listener(self, port):
        kw = {} if self.bound is None else {'max_ind_queue_size': self.bound}
        if self.proto == 'https':
            lis = self.pywbem.WBEMListener(HOST, https_port=port, certfile=TLS['cert'], keyfile=TLS['key'], **kw)
        else:
            lis = self.pywbem.WBEMListener(HOST, http_port=port, **kw)
        if self.qgt is not None:
            lis.queue_get_timeout = self.qgt
        if self.hooks or self.gate:
            lis.logger.setLevel(logging.DEBUG)
            lis.logger.propagate = False
            lis.logger.addHandler((GateHandler if self.gate else HookHandler)(self.ctl))
        regs = list(self.cbs[:1] if self.late else self.cbs)
        for cb in regs:
            lis.add_callback(cb)
            if self.dup:
                lis.add_callback(cb)
        if self.dup and regs:
            lis.add_callback(regs[0])
        return lis

    def start_first(self):
        ctl = self.ctl
        ctl.set_phase('start')
        for attempt in range(6):
            self.port = self.ports.next()
            self.lis = self.new_listener(self.port)
            ctl.listener = self.lis
            try:
                self.lis.start()
                break
            except self.pywbem.ListenerPortError:
                if attempt == 5:
                    ctl.violation('start-raises-ListenerPortError-on-free-port', port=self.port)
                    return False
            except BaseException as exc:      # pylint: disable=broad-except
                ctl.violation('start-raises-' + type(exc).__name__, observed=repr(exc)[:200])
                return False
        if self.late:
            for cb in self.cbs[1:]:
                self.lis.add_callback(cb)
        self.nsess = 1
        return True

    def stop(self, poke=True):
        """Call stop(); returns the exception or None.  Tickets are taken right before and after."""
        ctl = self.ctl
        ctl.set_phase('stop%d' % self.nsess)
        done = threading.Event()
        pk = None
        if poke:
            pk = threading.Thread(target=poker, args=(ctl, self.port, done), name='c16-poker')
            pk.start()
        ctl.stop_call[self.nsess] = ctl.tick()
        ctl.stop_called.set()
        exc = None
        try:
            self.lis.stop()
        except BaseException as e:            # pylint: disable=broad-except
            exc = e
        ctl.stop_ret[self.nsess] = ctl.tick()
        done.set()
        if pk:
            pk.join()
        return exc

    def listener_threads(self):
        """Threads alive now that did not exist before the listener and are not the harness's."""
        return [t for t in threading.enumerate()
                if t not in self.baseline and not t.name.startswith('c16-') and t.is_alive()]

    def handler_threads(self):
        return [t for t in self.listener_threads() if t.name not in ('CallbackThread', 'http', 'https')]

    def wait_handlers(self, pred, timeout=4.0):
        t_end = time.monotonic() + timeout
        while time.monotonic() < t_end:
            if pred(len(self.handler_threads())):
                return True
            time.sleep(0.001)
        return False

    def server_thread_in_handshake(self, timeout=4.0):
        t_end = time.monotonic() + timeout
        while time.monotonic() < t_end:
            for t in self.listener_threads():
                if t.name == 'https' and 'do_handshake' in stack_names(t):
                    return True
            time.sleep(0.001)
        return False

    def stop_async(self, poke=True):
        """Call stop() on a thread of its own.  Tickets right before and after; the thread census is taken in
        that thread directly after stop() has returned."""
        ctl = self.ctl
        ctl.set_phase('stop%d' % self.nsess)
        h = {'done': threading.Event(), 'exc': None, 'left': None, 'pk': None, 'pkdone': threading.Event()}
        nsess = self.nsess
        lis = self.lis

        def run():
            ctl.stop_call[nsess] = ctl.tick()
            ctl.stop_called.set()
            try:
                lis.stop()
            except BaseException as e:        # pylint: disable=broad-except
                h['exc'] = e
            ctl.stop_ret[nsess] = ctl.tick()
            h['left'] = [t.name for t in self.listener_threads()]
            h['done'].set()
        if poke:
            h['pk'] = threading.Thread(target=poker, args=(ctl, self.port, h['pkdone']), name='c16-poker')
            h['pk'].start()
        h['thread'] = threading.Thread(target=run, name='c16-stopper')
        h['thread'].start()
        return h

    def stop_waits_for(self, h, held_threads, https_a):
        """What the stopper thread waits for right now (frames only, nothing is touched): 'handler' = inside
        Thread.join() of one of the request handler threads the harness holds (stop() cannot go on before the
        sender does), 'handshake' = inside shutdown() while the server thread sits in the TLS handshake of a
        held connection (ditto), 'delivery' = inside _stop_indication_delivery(), 'shutdown' = inside
        shutdown() (at most one poll interval), None = elsewhere."""
        fr = sys._current_frames().get(h['thread'].ident)     # pylint: disable=protected-access
        names = []
        while fr is not None:
            name = fr.f_code.co_name
            if name == 'join':
                t = fr.f_locals.get('self')
                if isinstance(t, threading.Thread) and t in held_threads and t.is_alive():
                    return 'handler'
            names.append(name)
            fr = fr.f_back
        if '_stop_indication_delivery' in names:
            return 'delivery'
        if 'shutdown' in names:
            return 'handshake' if https_a else 'shutdown'
        return None

    def stop_join(self, h):
        h['done'].wait(PHASE_TIMEOUT + 10)    # the watchdog reports a hang earlier
        h['thread'].join(5)
        h['pkdone'].set()
        if h['pk']:
            h['pk'].join()
        return h['exc']

    def check_stopped(self, exc, where, harness_threads=(), left_at_return=None):
        """stop() has returned: no exception, nothing left behind."""
        ctl = self.ctl
        lis = self.lis
        if left_at_return:
            ctl.violation('stop-leaves-thread', where=where, threads=left_at_return,
                          when='census in the stopper thread directly after stop() returned')
        if exc is not None:
            msg = str(exc)
            if CB_MARK in msg:
                vid = 'stop-raises-exception-of-a-callback'
            elif isinstance(exc, AttributeError) and "'NoneType' object has no attribute 'task_done'" in msg:
                vid = K_TASKDONE
            elif isinstance(exc, AttributeError) and "'NoneType' object has no attribute 'get'" in msg:
                vid = K_GET
            else:
                vid = 'stop-raises-' + type(exc).__name__
            if vid.startswith('known:'):
                self.failed_stop = vid
            ctl.violation(vid, where=where, observed=repr(exc)[:200])
        if lis.http_started:
            ctl.violation('stop-leaves-http-started', where=where)
        if lis.https_started:
            ctl.violation('stop-leaves-https-started', where=where)
        if lis.ind_queue_exists():
            ctl.violation('stop-leaves-indication-queue', where=where)
        left = [t for t in threading.enumerate()
                if t not in self.baseline and t not in harness_threads and t.is_alive()]
        if left:
            ctl.violation('stop-leaves-thread', where=where, threads=[t.name for t in left])
        if accepting(self.port):
            if own_socket_on(self.port) is not False:
                ctl.violation('stop-leaves-port-accepting', where=where, port=self.port)
        elif not bindable(self.port):
            if own_socket_on(self.port) is not False:
                ctl.violation('stop-leaves-port-bound', where=where, port=self.port)

    def after_failed_stop(self):
        """A stop() failed in a known way: the listener is then neither restartable nor stoppable."""
        ctl = self.ctl
        lis = self.lis
        ctl.set_phase('restart-after-failed-stop')
        try:
            lis.start()
        except AssertionError as exc:
            ctl.violation(K_RESTART, after=self.failed_stop, observed=repr(exc))
            try:
                lis.stop()
            except AttributeError as exc2:
                if "'NoneType' object has no attribute" in str(exc2):
                    ctl.violation(K_STOP2, after=self.failed_stop, observed=repr(exc2))
                else:
                    ctl.violation('second-stop-raises-AttributeError', observed=repr(exc2)[:200])
            except BaseException as exc2:     # pylint: disable=broad-except
                ctl.violation('second-stop-raises-' + type(exc2).__name__, observed=repr(exc2)[:200])
            return False
        except BaseException as exc:          # pylint: disable=broad-except
            ctl.violation('restart-raises-' + type(exc).__name__, after=self.failed_stop, observed=repr(exc)[:200])
            return False
        return True

    def restart(self):
        ctl = self.ctl
        if self.failed_stop:
            ok = self.after_failed_stop()
        else:
            ctl.set_phase('restart')
            try:
                self.lis.start()
                ok = True
            except BaseException as exc:      # pylint: disable=broad-except
                ok = False
                if isinstance(exc, self.pywbem.ListenerPortError) and own_socket_on(self.port) is False:
                    pass              # some other process took the port meanwhile: nothing to conclude
                else:
                    ctl.violation('restart-raises-' + type(exc).__name__, observed=repr(exc)[:200])
        if ok:
            self.failed_stop = None
            self.nsess += 1
        return ok

    def run_senders(self, sess, nsend, nind, rnd, primer=False, wait=True):
        ctl = self.ctl
        ths = []
        for s in range(nsend):
            ids = ['%d.s%d.i%d' % (sess, s, k) for k in range(nind)]
            for iid in ids:
                ctl.session_of[iid] = sess
            ctl.order[(sess, s)] = ids
            delays = [rnd.choice((0, 0, 0, 0.001, 0.003)) for _ in ids]
            th = threading.Thread(target=sender, args=(ctl, self.port, ids, delays, primer and s == 0),
                                  name='c16-sender')
            ths.append(th)
        for th in ths:
            th.start()
        if wait:
            for th in ths:
                th.join()
        return ths

    def wait_delivered(self, sess, timeout=12.0):
        """Wait until every indication of the session answered with success has left all callbacks."""
        ctl = self.ctl
        want = {iid for iid, st in ctl.status.items() if ctl.session_of[iid] == sess and st == ('ok',)}
        ncb = len(self.cbs)
        t_end = time.monotonic() + timeout
        while time.monotonic() < t_end:
            cnt = {}
            for e in list(ctl.log):
                if e[0] == 'exit':
                    cnt[e[2]] = cnt.get(e[2], 0) + 1
            if all(cnt.get(i, 0) >= ncb for i in want):
                return True
            time.sleep(0.002)
        return False


# ----------------------------------------------------------------------------------------------------------------
# reference model check of the whole log

def check_log(ctl, ses, nsessions):
    ncb = len(ses.behs)
    log = sorted(ctl.log, key=lambda e: e[1])
    status = dict(ctl.status)
    bound = 5000 if ses.bound is None else ses.bound

    # serial execution: every entry is directly followed by its own exit
    for k in range(0, len(log), 2):
        a = log[k]
        b = log[k + 1] if k + 1 < len(log) else None
        if a[0] != 'enter' or b is None or b[0] != 'exit' or a[2:5] != b[2:5]:
            ctl.violation('callbacks-overlap-or-unfinished', at=repr(a), next=repr(b))
            break
    enters = [e for e in log if e[0] == 'enter']
    exits = {}
    for e in log:
        if e[0] == 'exit':
            exits.setdefault(e[2], []).append(e[1])

    # arguments
    for e in enters:
        if e[5] not in (HOST, CLIENT_HOST) or e[6] != 'C16_Indication' or e[2] not in ctl.send:
            ctl.violation('callback-arguments-wrong', indication=e[2], host=e[5], classname=e[6])
            break

    # exactly once / never, registration order, one block per indication
    per = {}
    for pos, e in enumerate(enters):
        per.setdefault(e[2], []).append((pos, e[3]))
    for iid, st in sorted(status.items()):
        got = [c for _, c in per.get(iid, [])]
        if st == ('ok',):
            if not got:
                ctl.violation('acknowledged-indication-not-delivered', indication=iid, session=ctl.session_of[iid])
            elif sorted(got) != list(range(ncb)):
                if len(got) > len(set(got)):
                    ctl.violation('acknowledged-indication-delivered-more-than-once', indication=iid, callbacks=got)
                else:
                    ctl.violation('acknowledged-indication-misses-a-callback', indication=iid, callbacks=got)
            elif got != list(range(ncb)):
                ctl.violation('callbacks-not-in-registration-order', indication=iid, callbacks=got)
            else:
                ps = [p for p, _ in per[iid]]
                if ps != list(range(ps[0], ps[0] + ncb)):
                    ctl.violation('deliveries-of-two-indications-interleaved', indication=iid)
            sess = ctl.session_of[iid]
            if got and sess in ctl.stop_ret and max(exits.get(iid, [0])) > ctl.stop_ret[sess]:
                ctl.violation('delivery-after-stop-returned', indication=iid, session=sess)
        elif st[0] == 'cimerr':
            if got:
                ctl.violation('refused-indication-delivered', indication=iid, response=st)
        elif st[0] == 'noresp':
            if len(got) > len(set(got)):
                ctl.violation('unanswered-indication-delivered-more-than-once', indication=iid, callbacks=got)

    # nothing at all runs in a callback after the stop() of its round has returned (whatever the sender was told)
    for e in log:
        sess = ctl.session_of.get(e[2])
        if sess in ctl.stop_ret and e[1] > ctl.stop_ret[sess]:
            ctl.violation('delivery-after-stop-returned', indication=e[2], session=sess, event=e[0],
                          response=repr(status.get(e[2])))
            break

    # a request whose body was never sent completely: neither acknowledged nor delivered
    for iid in sorted(ctl.truncated):
        st = status.get(iid)
        if iid in per:
            ctl.violation('truncated-request-delivered', indication=iid, response=repr(st))
        if st is not None and st[0] != 'noresp' and st != ('http', 400):
            ctl.violation('truncated-request-answered-unexpectedly', indication=iid, response=repr(st)[:200])

    # one consumer thread per start()..stop() round, not a thread of the harness
    for sess in range(1, nsessions + 1):
        tids = {e[4] for e in enters if ctl.session_of.get(e[2]) == sess}
        if len(tids) > 1:
            ctl.violation('callbacks-on-several-threads', session=sess, nthreads=len(tids))

    # per sender: delivery order = acknowledgement order
    first_enter = {}
    for e in enters:
        first_enter.setdefault(e[2], e[1])
    for (sess, snd), ids in sorted(ctl.order.items()):
        acked = [i for i in ids if status.get(i) == ('ok',) and i in first_enter]
        deliv = sorted(acked, key=lambda i: first_enter[i])
        if acked != deliv:
            ctl.violation('sender-order-not-preserved', session=sess, sender=snd, acknowledged=acked, delivered=deliv)

    # responses
    for iid, st in sorted(status.items()):
        sess = ctl.session_of[iid]
        if iid in ctl.truncated:
            pass                      # checked above
        elif st[0] in ('http', 'badxml', 'wrongid'):
            ctl.violation('unexpected-response-' + st[0], indication=iid, response=repr(st)[:200])
        elif st[0] == 'noresp':
            if sess not in ctl.stop_call or ctl.resp[iid] < ctl.stop_call[sess]:
                ctl.violation('request-not-answered-while-listening', indication=iid, response=st)
        elif st[0] == 'cimerr':
            if st[1] != '1':
                ctl.violation('refusal-with-unexpected-cim-status', indication=iid, response=st)
            elif bound == 0:
                ctl.violation('refusal-with-unbounded-queue', indication=iid, response=st)

    # capacity: ticket-interval bounds on what was in the queue while a request was handled
    if bound > 0:
        deliv_order = sorted(first_enter, key=lambda i: first_enter[i])
        prev_exit = {}
        for k, iid in enumerate(deliv_order):
            prev_exit[iid] = max(exits.get(deliv_order[k - 1], [0])) if k else 0
        for x, st in sorted(status.items()):
            sess = ctl.session_of[x]
            if st[0] == 'cimerr' and st[1] == '1':
                maybe = [y for y, sy in status.items() if y != x and ctl.session_of[y] == sess
                         and sy[0] in ('ok', 'noresp') and ctl.send[y] < ctl.resp[x]
                         and (y not in first_enter or first_enter[y] > ctl.send[x])]
                if len(maybe) < bound:
                    ctl.violation('refused-although-queue-cannot-have-been-full', indication=x, bound=bound,
                                  possibly_queued=maybe)
            elif st == ('ok',):
                surely = [y for y, sy in status.items() if y != x and ctl.session_of[y] == sess
                          and sy == ('ok',) and ctl.resp[y] < ctl.send[x]
                          and y in first_enter and prev_exit[y] > ctl.resp[x]]
                if len(surely) >= bound:
                    ctl.violation('accepted-although-queue-must-have-been-full', indication=x, bound=bound,
                                  surely_queued=surely)


# ----------------------------------------------------------------------------------------------------------------
# cases

def run_grid_case(ctl, ports, case, rnd):
    _, scen, nsend, nind, cbset, bound, restart, variant = case
    perturb = bool(variant & 1)
    hooks = perturb or scen == 'slow-log-in-stop'
    ctl.perturb = perturb
    ctl.slow_log = scen == 'slow-log-in-stop'
    ctl.hold = {'hold-release': 'acked', 'hold-thru-stop': 'stop', 'hold-thru-stop-linger': 'stop'}.get(scen)
    ctl.linger = scen in ('hold-thru-stop-linger', 'linger-last')
    ctl.linger_idx = (len(cbset) - 1) if (variant & 2) else 0
    sys.setswitchinterval(1e-4 if (variant & 4) else 0.005)
    ses = Session(ctl, ports, bound, cbset, dup=bool(variant & 8), late=bool(variant & 16) and len(cbset) > 1,
                  hooks=hooks)
    if not ses.start_first():
        return
    ctl.set_phase('send')
    if ctl.hold:
        ths = ses.run_senders(1, nsend, nind, rnd, primer=True, wait=False)
        if not ctl.first_entered.wait(12):
            ctl.violation('first-indication-never-reaches-callback')
        ctl.go.set()
        for th in ths:
            th.join()
    elif scen == 'during-send':
        ctl.go.set()
        ths = ses.run_senders(1, nsend, nind, rnd, wait=False)
        ctl.any_resp.wait(12)
    else:
        ctl.go.set()
        ths = ses.run_senders(1, nsend, nind, rnd)
    if scen != 'during-send':
        ctl.senders_done.set()
    if scen in ('quiesce', 'slow-log-in-stop'):
        if not ses.wait_delivered(1):
            ctl.violation('delivery-does-not-finish-while-listening')
    if scen == 'hold-release':
        ctl.release.set()
    exc = ses.stop()
    for th in ths:
        th.join()
    ctl.senders_done.set()
    ses.check_stopped(exc, 'first stop()')
    nsess = 1
    if restart:
        ctl.hold = None
        ctl.linger = False
        ctl.slow_log = False
        if ses.restart():
            nsess = 2
            ctl.set_phase('send2')
            ses.run_senders(2, 1 + (variant & 1), 2, rnd)
            if variant & 2:
                ses.wait_delivered(2)
            exc = ses.stop()
            ses.check_stopped(exc, 'stop() after restart')
            if ses.failed_stop:
                ses.after_failed_stop()
    ctl.release.set()
    check_log(ctl, ses, nsess)


def run_inflight_case(ctl, ports, case, rnd):
    """stop() from another thread while raw senders are held in the stages of case[2]; see the module docstring."""
    _, proto, stages, fins, cbmode, order, bound, cbset, variant = case
    deep = bool(variant & 1)          # let nothing go on before stop() provably waits (else: already in shutdown())
    rev = bool(variant & 2)
    ctl.perturb = bool(variant & 4)
    sys.setswitchinterval(1e-4 if (variant & 8) else 0.005)
    if cbmode == 'slow':
        cbset = tuple('slower' if b == 'fast' else b for b in cbset)
    ctl.hold = 'inflight' if cbmode == 'held' else None
    ctl.linger = bool(variant & 16)   # the last delivery lingers until stop() has let go of the queue (0.4 s at most)
    ctl.linger_idx = 0
    ses = Session(ctl, ports, bound, cbset, gate=True, proto=proto)
    if not ses.start_first():
        return
    ctl.set_phase('send')
    ctl.go.set()
    raws = []
    h = None
    held_threads = set()              # request handler threads of the held senders
    https_a = [False]                 # a held connection keeps the https server thread in the TLS handshake

    def not_reached(stage, observed):
        ctl.violation('in-flight-stage-not-reached', stage=stage, observed=observed)

    def stage_one(r):
        try:
            r.open()
            r.advance()
            return True
        except Exception as exc:      # pylint: disable=broad-except
            r.close()
            ctl.status[r.iid] = ('noresp', type(exc).__name__)
            ctl.resp[r.iid] = ctl.tick()
            r.finished = True
            not_reached(r.stage, repr(exc)[:200])
            return False

    def new_handler(r):
        """The connection just opened has got its handler thread (which stays: it waits for input or the gate)."""
        t_end = time.monotonic() + 4
        while time.monotonic() < t_end:
            new = set(ses.handler_threads()) - held_threads
            if new:
                held_threads.update(new)
                r.thread = new.pop()
                return
            time.sleep(0.001)
        not_reached(r.stage, 'no handler thread')

    def primer_done():
        return sum(1 for e in list(ctl.log) if e[0] == 'exit' and e[2] == '1.s0.i0') >= len(cbset)

    def release_callback():
        ctl.hold_release.set()
        if cbmode == 'held':
            t_end = time.monotonic() + 3
            while not primer_done() and time.monotonic() < t_end:
                time.sleep(0.001)

    def something_held():
        return https_a[0] or any(t.is_alive() for t in held_threads)

    def await_stop(first):
        """Watch stop() until it has returned or provably waits for something the harness holds."""
        t_end = time.monotonic() + 4
        while time.monotonic() < t_end:
            if h['done'].is_set():
                return 'returned'     # if anything is still held, the census in the stopper thread has seen it
            w = ses.stop_waits_for(h, held_threads, https_a[0])
            if w in ('handler', 'handshake') or (w == 'shutdown' and first and not deep):
                return w
            if w == 'delivery' and cbmode == 'held' and not ctl.hold_release.is_set():
                if not something_held():
                    return w          # nothing but the held callback (and what is queued behind it) is left
                release_callback()    # stop() went past the held handlers and waits for the callback: let it
            time.sleep(0.001)
        ctl.violation('in-flight-stop-neither-returns-nor-waits', stack=stack_names(h['thread'])[:8],
                      held=[(t.name, t.is_alive()) for t in held_threads],
                      threads=[(t.name, stack_names(t)[:6]) for t in ses.listener_threads()])
        return 'unknown'

    try:
        nprim = {'none': 0, 'held': 1, 'slow': 2}[cbmode]
        if nprim:
            ses.run_senders(1, 1, nprim, rnd)
            if cbmode == 'held' and not ctl.first_entered.wait(12):
                ctl.violation('first-indication-never-reaches-callback')
        for k, (stg, fin) in enumerate(zip(stages, fins)):
            iid = '1.s%d.i0' % (k + 1)
            ctl.session_of[iid] = 1
            ctl.order[(1, k + 1)] = [iid]
            raws.append(Raw(ctl, ses.port, iid, k, stg, fin))
        ses.wait_handlers(lambda n: n == 0)       # the handlers of the answered earlier requests have ended
        for stg in 'dbcea':           # a last: over https it blocks the server thread for everybody else
            for r in raws:
                if r.stage != stg:
                    continue
                if stg == 'd':
                    # complete request, answered into the socket buffer (the handler got to send_response() and
                    # ended), the indication queued behind the held callback
                    seen = len(ctl.resp_records)
                    if stage_one(r):
                        t_end = time.monotonic() + 4
                        while len(ctl.resp_records) <= seen and time.monotonic() < t_end:
                            time.sleep(0.001)
                        if len(ctl.resp_records) <= seen or not ses.wait_handlers(lambda n: n == len(held_threads)):
                            not_reached('d', 'handler does not answer and end')
                elif stg in 'bc':     # the handler waits for the (rest of the) body
                    if stage_one(r):
                        new_handler(r)
                elif stg == 'e':      # the handler is held inside send_response()
                    ctl.resp_armed = True
                    if stage_one(r):
                        if not ctl.resp_held.acquire(timeout=5):
                            not_reached('e', 'handler not at the log gate')
                        new_handler(r)
                    ctl.resp_armed = False
                elif stage_one(r):    # a: connection only
                    if proto == 'http':
                        new_handler(r)
                    elif ses.server_thread_in_handshake():
                        https_a[0] = True
                    else:
                        not_reached('a', 'server thread not in handshake')

        h = ses.stop_async(poke=deep and not https_a[0])
        await_stop(True)
        ctl.set_phase('finish')
        if order == 'cb-first':
            release_callback()
        for r in (reversed(raws) if rev else raws):
            if r.finished:
                continue
            if r.stage == 'e':
                ctl.resp_release.set()        # the handler writes its response and ends
            r.finish()
            if r.thread is not None:
                r.thread.join(4)
                if r.thread.is_alive():
                    ctl.violation('in-flight-handler-outlives-its-request', stage=r.stage, end=r.fin,
                                  stack=stack_names(r.thread)[:6])
            elif r.stage == 'a' and proto == 'https':
                https_a[0] = False
            if something_held() and not h['done'].is_set():
                await_stop(False)     # the other senders are still held: stop() must go on waiting for them
        ctl.senders_done.set()
        if order != 'cb-first' and not ctl.hold_release.is_set():
            if cbmode == 'held':
                # everything is answered; stop() has to wait for the held callback (queue not empty, or join of
                # the callback thread): see it arrive there and give it some time to return wrongly
                t_end = time.monotonic() + 3
                while (time.monotonic() < t_end and not h['done'].is_set()
                       and ses.stop_waits_for(h, (), False) != 'delivery'):
                    time.sleep(0.001)
                h['done'].wait(0.12)
            release_callback()
        ctl.set_phase('stop1')
        exc = ses.stop_join(h)
        ses.check_stopped(exc, 'stop() with requests in flight: ' + stages, left_at_return=h['left'])
        nsess = 1
        ctl.hold = None
        ctl.linger = False
        if ses.restart():
            nsess = 2
            ctl.set_phase('send2')
            ses.run_senders(2, 1, 2, rnd)
            ses.wait_delivered(2)
            exc = ses.stop()
            ses.check_stopped(exc, 'stop() after restart')
            if ses.failed_stop:
                ses.after_failed_stop()
        check_log(ctl, ses, nsess)
    finally:
        ctl.resp_armed = False
        ctl.release.set()
        ctl.hold_release.set()
        ctl.resp_release.set()
        for r in raws:
            r.close()
        if h is not None:
            h['pkdone'].set()


def run_special(ctl, ports, case, rnd):
    import pywbem
    kind = case[1]
    ctl.go.set()
    if kind == 'sleep-0.6':
        # the reproducer of the design notes: one indication, a callback that takes 0.6 s, stop(); no steering
        ses = Session(ctl, ports, None, ('fast',), qgt=None)
        orig = ses.cbs[0]

        def slow(indication, host):
            time.sleep(0.6)
            orig(indication, host)
        slow.__name__ = 'slow'
        ses.cbs[0] = slow
        if not ses.start_first():
            return
        ctl.set_phase('send')
        ses.run_senders(1, 1, 1, rnd)
        ctl.senders_done.set()
        exc = ses.stop(poke=False)
        ses.check_stopped(exc, 'stop() with a 0.6 s callback in flight')
        if ses.failed_stop:
            ses.after_failed_stop()
        check_log(ctl, ses, 1)
    elif kind == 'default-get-timeout':
        # queue_get_timeout left at its default of 2 s
        nsend, nind = case[2], case[3]
        ses = Session(ctl, ports, 0, ('fast', 'raise'), qgt=None)
        if not ses.start_first():
            return
        ctl.set_phase('send')
        ses.run_senders(1, nsend, nind, rnd)
        ctl.senders_done.set()
        ses.wait_delivered(1)
        exc = ses.stop()
        ses.check_stopped(exc, 'first stop()')
        if ses.restart():
            ses.run_senders(2, 1, 1, rnd)
            ses.wait_delivered(2)
            exc = ses.stop()
            ses.check_stopped(exc, 'stop() after restart')
        check_log(ctl, ses, ses.nsess)
    elif kind == 'lifecycle':
        what = case[2]
        ses = Session(ctl, ports, case[3], ('fast',))
        if what == 'stop-before-start':
            ses.port = ports.next()
            ses.lis = ctl.listener = ses.new_listener(ses.port)
            ses.nsess = 1
            exc = ses.stop(poke=False)
            ses.check_stopped(exc, 'stop() before start()')
            ses.nsess = 0
            if ses.restart():
                ses.run_senders(1, 1, 2, rnd)
                ses.wait_delivered(1)
                exc = ses.stop()
                ses.check_stopped(exc, 'stop() after first start()')
            check_log(ctl, ses, 1)
        elif what == 'double-stop':
            if not ses.start_first():
                return
            ses.run_senders(1, 2, 1, rnd)
            ses.wait_delivered(1)
            exc = ses.stop()
            ses.check_stopped(exc, 'first stop()')
            if not ses.failed_stop:
                try:
                    ses.lis.stop()
                except BaseException as e:    # pylint: disable=broad-except
                    ctl.violation('stop-on-stopped-listener-raises-' + type(e).__name__, observed=repr(e)[:200])
                ses.check_stopped(None, 'second stop()')
            check_log(ctl, ses, 1)
        elif what == 'no-indications':
            if not ses.start_first():
                return
            exc = ses.stop()
            ses.check_stopped(exc, 'stop() without traffic')
            if ses.restart():
                exc = ses.stop()
                ses.check_stopped(exc, 'stop() without traffic after restart')
            check_log(ctl, ses, ses.nsess)
        elif what == 'cycles':
            if not ses.start_first():
                return
            for rnd_no in (1, 2, 3):
                ctl.set_phase('send%d' % rnd_no)
                ses.run_senders(rnd_no, 2, 2, rnd)
                if rnd_no != 2:
                    ses.wait_delivered(rnd_no)
                exc = ses.stop()
                ses.check_stopped(exc, 'stop() of round %d' % rnd_no)
                if rnd_no == 3 or not ses.restart():
                    break
            check_log(ctl, ses, ses.nsess)
        elif what == 'context-manager':
            ses.port = ports.next()
            ses.lis = ctl.listener = ses.new_listener(ses.port)
            exc = None
            try:
                with ses.lis as lis:
                    lis.start()
                    ses.nsess = 1
                    ses.run_senders(1, 2, 2, rnd)
                    ses.wait_delivered(1)
                    ctl.stop_call[1] = ctl.tick()
                    ctl.stop_called.set()
                    done = threading.Event()
                    pk = threading.Thread(target=poker, args=(ctl, ses.port, done), name='c16-poker')
                    pk.start()
            except pywbem.ListenerPortError:
                return
            except BaseException as e:        # pylint: disable=broad-except
                exc = e
            ctl.stop_ret[1] = ctl.tick()
            done.set()
            pk.join()
            ses.check_stopped(exc, 'leaving the context manager')
            check_log(ctl, ses, 1)
    elif kind == 'busy-port':
        # start() on a port somebody else listens on: ListenerPortError, nothing left behind, usable afterwards
        ses = Session(ctl, ports, case[2], ('fast',))
        ses.port = ports.next()
        blocker = socket.socket(socket.AF_INET, socket.SOCK_STREAM)
        blocker.bind((HOST, ses.port))
        blocker.listen(1)
        try:
            ses.lis = ctl.listener = ses.new_listener(ses.port)
            ctl.set_phase('start-busy')
            try:
                ses.lis.start()
                ctl.violation('start-on-busy-port-does-not-raise')
            except pywbem.ListenerPortError:
                pass
            except BaseException as e:        # pylint: disable=broad-except
                ctl.violation('start-on-busy-port-raises-' + type(e).__name__, observed=repr(e)[:200])
            left = [t for t in threading.enumerate() if t not in ses.baseline and t.is_alive()]
            if left:
                ctl.violation('failed-start-leaves-thread', threads=[t.name for t in left])
            if ses.lis.http_started or ses.lis.ind_queue_exists():
                ctl.violation('failed-start-leaves-listener-state')
        finally:
            blocker.close()
        if ses.restart():
            ses.run_senders(1, 1, 2, rnd)
            ses.wait_delivered(1)
            exc = ses.stop()
            ses.check_stopped(exc, 'stop() after start() that followed a failed start()')
        check_log(ctl, ses, 1)
    elif kind == 'failed-start-two-ports':
        # http and https port given, the https part of start() fails (port taken by somebody else / certificate
        # file missing) after the http server has been started: start() raises; then nothing of the listener may
        # be running, and above all nothing may be acknowledged on the http port
        mode, bound = case[2], case[3]
        ses = Session(ctl, ports, bound, ('fast',))
        ses.port = ports.next()
        sport = ports.next()
        good = mode == 'port-busy' and TLS['cert']
        kw = {} if bound is None else {'max_ind_queue_size': bound}
        lis = pywbem.WBEMListener(HOST, http_port=ses.port, https_port=sport,
                                  certfile=TLS['cert'] if good else '/nonexistent/c16-cert.pem',
                                  keyfile=TLS['key'] if good else '/nonexistent/c16-key.pem', **kw)
        lis.queue_get_timeout = QGT
        lis.add_callback(ses.cbs[0])
        ses.lis = ctl.listener = lis
        blocker = None
        if mode == 'port-busy':
            blocker = socket.socket(socket.AF_INET, socket.SOCK_STREAM)
            blocker.bind((HOST, sport))
            blocker.listen(1)
        try:
            ctl.set_phase('start-failing')
            raised = None
            try:
                lis.start()
                ctl.violation('start-with-unusable-https-port-does-not-raise', mode=mode)
            except (pywbem.ListenerStartError, pywbem.ListenerCertificateError) as e:
                raised = e
            except BaseException as e:        # pylint: disable=broad-except
                ctl.violation('start-with-unusable-https-port-raises-' + type(e).__name__, observed=repr(e)[:200])
            if raised is not None:
                ctl.stop_call[1] = ctl.stop_ret[1] = ctl.tick()     # start() has failed: not listening from here on
                left = [t.name for t in ses.listener_threads()]
                ctl.set_phase('send')
                ses.run_senders(1, 1, 1, rnd)
                iid = '1.s0.i0'
                st = ctl.status.pop(iid)
                ctl.order.pop((1, 0))
                delivered = False
                if st == ('ok',):
                    t_end = time.monotonic() + 0.3
                    while not delivered and time.monotonic() < t_end:
                        delivered = any(e[2] == iid for e in list(ctl.log))
                        time.sleep(0.002)
                if left or st[0] != 'noresp':
                    ctl.violation(K_FAILED_START, mode=mode, raised=repr(raised)[:120], threads_left=left,
                                  http_started=lis.http_started, queue_exists=lis.ind_queue_exists(),
                                  response_on_http_port=repr(st), delivered=delivered,
                                  what='WBEMListener(host, http_port=P, https_port=Q).start() with Q unusable (taken '
                                       'by another socket, or certfile missing) raises, but only the callback '
                                       'thread and the queue are cleaned up: the http server thread started before '
                                       'keeps serving P, and an ExportIndication sent to P is answered with a '
                                       'success response and dropped ("Indication queue not set up - ignoring '
                                       'indication")')
        finally:
            if blocker is not None:
                blocker.close()
        # stop() brings everything down whatever start() left behind, and the listener is usable afterwards
        ses.nsess = 1
        ctl.stop_call.pop(1, None)
        ctl.stop_ret.pop(1, None)
        exc = ses.stop()
        ses.check_stopped(exc, 'stop() after a failed start()')
        ctl.log[:] = []
        if good and ses.restart():
            ctl.set_phase('send2')
            ses.run_senders(2, 2, 2, rnd)
            ses.wait_delivered(2)
            exc = ses.stop()
            ses.check_stopped(exc, 'stop() after start() that followed a failed start()')
            if not bindable(sport) and own_socket_on(sport) is not False:
                ctl.violation('stop-leaves-port-bound', where='https port', port=sport)
        check_log(ctl, ses, ses.nsess)


def run_case(case_no, case, seed, ports):
    rnd = random.Random(zlib.crc32(('%d:%r' % (seed, case)).encode()))
    ctl = Ctl(case, case_no, seed)
    WATCH['ctl'] = ctl
    try:
        if case[0] == 'grid':
            run_grid_case(ctl, ports, case, rnd)
        elif case[0] == 'inflight':
            run_inflight_case(ctl, ports, case, rnd)
        else:
            run_special(ctl, ports, case, rnd)
    except Exception as exc:        # pylint: disable=broad-except
        import traceback
        ctl.violation('harness-error-' + type(exc).__name__, observed=traceback.format_exc()[-600:])
    finally:
        ctl.release.set()
        ctl.go.set()
        ctl.stop_called.set()
        ctl.senders_done.set()
        sys.setswitchinterval(0.005)
        lis = ctl.listener
        if lis is not None and (lis.http_started or lis.https_started or lis.ind_queue_exists()):
            ctl.set_phase('cleanup-stop')
            try:
                lis.stop()
            except BaseException:   # pylint: disable=broad-except
                pass
        WATCH['ctl'] = None
    return ctl.viol


STAGE_SETS = tuple(''.join(c) for n in (1, 2, 3) for c in itertools.combinations('abcde', n))
STAGE_ENDS = {'a': ('complete', 'close', 'halfclose'), 'b': ('complete', 'halfclose', 'close'),
              'c': ('complete', 'close', 'halfclose'), 'd': ('complete',), 'e': ('complete', 'close')}
IF_CBSETS = (('fast',), ('fast', 'raise'), ('raise', 'fast'), ('fast', 'fast'))
IF_CBMODES = (('none', 'cb-first'), ('held', 'cb-first'), ('held', 'senders-first'), ('slow', 'cb-first'))


def build_inflight(tier, seed, protos):
    """('inflight', proto, stages, ends, callback mode, release order, bound, callback set, variant bits)"""
    rnd = random.Random(seed * 7919 + 16)
    out = []
    if tier == 'quick':
        # every stage set x protocol three times; callback mode, order, bound, ends and bits rotate so that every
        # stage meets every end, every callback mode and every bound under both protocols
        idx = seed
        for proto in protos:
            for stages in STAGE_SETS:
                for k in range(3):
                    idx += 1
                    modes = [m for m in IF_CBMODES if m[0] == 'held'] if 'd' in stages else IF_CBMODES
                    cbmode, order = modes[idx % len(modes)]
                    ends = tuple(STAGE_ENDS[s][(idx // 3 + k + j) % len(STAGE_ENDS[s])]
                                 for j, s in enumerate(stages))
                    out.append(('inflight', proto, stages, ends, cbmode, order, (idx + idx // 3) % 3,
                                IF_CBSETS[(idx + idx // 4) % 4],
                                (idx * 5 + idx // 16) % 16 + (16 if (idx + idx // 5) % 4 == 3 else 0)))
    else:
        for proto in protos:
            for stages in STAGE_SETS:
                modes = [m for m in IF_CBMODES if m[0] == 'held'] if 'd' in stages else IF_CBMODES
                for ends in itertools.product(*(STAGE_ENDS[s] for s in stages)):
                    for cbmode, order in modes:
                        for bound in (0, 1, 2):
                            out.append(('inflight', proto, stages, ends, cbmode, order, bound,
                                        rnd.choice(IF_CBSETS),
                                        rnd.randrange(16) + (16 if rnd.randrange(4) == 0 else 0)))
    return out


def build_cases(tier, seed):
    rnd = random.Random(seed)
    specials = [('special', 'sleep-0.6')]
    for what in ('stop-before-start', 'double-stop', 'no-indications', 'cycles', 'context-manager'):
        for b in ((0, 1) if tier == 'quick' else (0, 1, 2, None)):
            specials.append(('special', 'lifecycle', what, b))
    for b in ((0, 2) if tier == 'quick' else (0, 1, 2, None)):
        specials.append(('special', 'busy-port', b))
    for mode in ('port-busy', 'bad-cert'):
        for b in ((0, 1) if tier == 'quick' else (0, 1, 2, None)):
            specials.append(('special', 'failed-start-two-ports', mode, b))
    specials.append(('special', 'default-get-timeout', 1, 1))
    if tier != 'quick':
        specials += [('special', 'default-get-timeout', 2, 2), ('special', 'default-get-timeout', 3, 3)]
    grid = []
    if tier == 'quick':
        # covering subset: every (schedule, senders x indications, bound in 0/1/2) once, callback set / restart /
        # variant bits rotating so that every pair of values occurs; then a seeded sample of the rest
        k = seed
        for scen in SCENARIOS:
            for (s, i) in SI:
                for b in (0, 1, 2):
                    k += 1
                    grid.append(('grid', scen, s, i, CBSETS[(k + k // 8) % 8], b, bool((k // 3) % 2),
                                 (k * 7 + k // 32) % 32))
        seen = {c[:7] for c in grid}
        rest = [('grid', scen, s, i, cb, b, r, rnd.randrange(32))
                for scen in SCENARIOS for (s, i) in SI for cb in CBSETS for b in BOUNDS for r in (False, True)]
        rest = [c for c in rest if c[:7] not in seen]
        rnd.shuffle(rest)
        grid += rest[:420]
    else:
        for rep in (0, 1):
            for scen in SCENARIOS:
                for (s, i) in SI:
                    for cb in CBSETS:
                        for b in BOUNDS:
                            for r in (False, True):
                                var = (rnd.randrange(32) & ~1) | rep
                                grid.append(('grid', scen, s, i, cb, b, r, var))
    return specials + build_inflight(tier, seed, ('http', 'https') if TLS['cert'] else ('http',)) + grid


# ----------------------------------------------------------------------------------------------------------------
# worker processes

WATCH = {'ctl': None}


def worker(wid, cases, nxt, cut, outq, seed):
    logging.raiseExceptions = False
    warnings.simplefilter('ignore')
    if not os.environ.get('C16_DEBUG'):
        # socketserver prints a traceback for every request whose peer went away (the in-flight cases do that)
        sys.stderr = open(os.devnull, 'w')    # pylint: disable=consider-using-with
    top = logging.getLogger('pywbem.listener')
    top.addHandler(logging.NullHandler())
    top.propagate = False
    ports = Ports(wid)

    def bye(code):
        outq.close()
        outq.join_thread()
        os._exit(code)              # pylint: disable=protected-access

    def watchdog():
        while True:
            time.sleep(0.5)
            ctl = WATCH['ctl']
            if ctl is not None and time.monotonic() > ctl.deadline:
                outq.put(('hang', ctl.case_no, ctl.phase, ctl.viol))
                bye(7)
    threading.Thread(target=watchdog, name='c16-watchdog', daemon=True).start()
    while True:
        with nxt.get_lock():
            i = nxt.value
            if i >= len(cases) or cut.value:
                break
            nxt.value = i + 1
        outq.put(('begin', wid, i))
        viol = run_case(i, cases[i], seed, ports)
        outq.put(('case', i, viol))
    outq.put(('done', wid))
    bye(0)


def make_tls_material():
    """Self-signed certificate and key for 127.0.0.1 in a scratch directory (removed at the end of the run);
    without the cryptography package or an openssl binary the https schedules are left out."""
    base = '/dev/shm' if os.path.isdir('/dev/shm') and os.access('/dev/shm', os.W_OK) else None
    d = tempfile.mkdtemp(prefix='c16tls-', dir=base)
    cert, key = os.path.join(d, 'cert.pem'), os.path.join(d, 'key.pem')
    try:
        try:
            import datetime
            import ipaddress
            from cryptography import x509
            from cryptography.hazmat.primitives import hashes, serialization
            from cryptography.hazmat.primitives.asymmetric import ec
            from cryptography.x509.oid import NameOID
            k = ec.generate_private_key(ec.SECP256R1())
            name = x509.Name([x509.NameAttribute(NameOID.COMMON_NAME, 'localhost')])
            now = datetime.datetime.now(datetime.timezone.utc)
            c = (x509.CertificateBuilder().subject_name(name).issuer_name(name).public_key(k.public_key())
                 .serial_number(x509.random_serial_number()).not_valid_before(now - datetime.timedelta(days=1))
                 .not_valid_after(now + datetime.timedelta(days=3))
                 .add_extension(x509.SubjectAlternativeName([x509.DNSName('localhost'),
                                                             x509.IPAddress(ipaddress.ip_address(HOST))]), False)
                 .sign(k, hashes.SHA256()))
            with open(cert, 'wb') as f:
                f.write(c.public_bytes(serialization.Encoding.PEM))
            with open(key, 'wb') as f:
                f.write(k.private_bytes(serialization.Encoding.PEM, serialization.PrivateFormat.TraditionalOpenSSL,
                                        serialization.NoEncryption()))
        except ImportError:
            subprocess.run(['openssl', 'req', '-x509', '-newkey', 'rsa:2048', '-nodes', '-keyout', key, '-out',
                            cert, '-days', '3', '-subj', '/CN=localhost'], check=True, timeout=30,
                           stdout=subprocess.DEVNULL, stderr=subprocess.DEVNULL)
        ctx = ssl.SSLContext(ssl.PROTOCOL_TLS_SERVER)
        ctx.load_cert_chain(cert, key)
        TLS.update(cert=cert, key=key, dir=d)
    except Exception:               # pylint: disable=broad-except
        shutil.rmtree(d, ignore_errors=True)


def main():
    try:
        run_all()
    finally:
        if TLS['dir']:
            shutil.rmtree(TLS['dir'], ignore_errors=True)


def run_all():
    make_tls_material()
    cases = build_cases(R.tier, R.seed)
    ctx = multiprocessing.get_context('fork')
    outq = ctx.Queue()
    nxt = ctx.Value('i', 0)
    cut = ctx.Value('i', 0)
    procs = {}
    state = {}                       # wid -> 'run' | 'done'
    respawns = [0]

    def spawn(wid):
        p = ctx.Process(target=worker, args=(wid, cases, nxt, cut, outq, R.seed))
        p.start()
        procs[wid] = p
        state[wid] = 'run'

    for w in range(NWORKERS):
        spawn(w)
    results = {}
    t0 = time.monotonic()
    hard = BUDGET + 2 * PHASE_TIMEOUT + 20
    while any(s == 'run' for s in state.values()):
        if time.monotonic() - t0 > BUDGET:
            cut.value = 1
        try:
            msg = outq.get(timeout=0.5)
        except queue.Empty:
            msg = None
        if msg is not None:
            if msg[0] == 'case':
                results[msg[1]] = msg[2]
            elif msg[0] == 'hang':
                viol = list(msg[3])
                viol.append(('hang-in-' + msg[2].rstrip('0123456789'),
                             dict(case=repr(cases[msg[1]]), case_no=msg[1], seed=R.seed, phase=msg[2])))
                results[msg[1]] = viol
            elif msg[0] == 'done':
                state[msg[1]] = 'done'
            continue
        for wid, p in list(procs.items()):
            if state[wid] == 'run' and not p.is_alive():
                p.join()
                state[wid] = 'dead'
                if respawns[0] < 12 and nxt.value < len(cases) and not cut.value:
                    respawns[0] += 1
                    spawn(wid)
        if time.monotonic() - t0 > hard:
            results[-1] = [('harness-global-timeout', dict(elapsed=round(time.monotonic() - t0)))]
            break
    for p in procs.values():
        p.join(timeout=5)
        if p.is_alive():
            p.kill()
            p.join()
    try:
        while True:
            msg = outq.get_nowait()
            if msg[0] == 'case':
                results[msg[1]] = msg[2]
    except queue.Empty:
        pass
    outq.close()
    outq.join_thread()
    for i in sorted(results):
        if i >= 0:
            R.case(cases[i])
    allv = []
    for i in sorted(results):
        for vid, det in results[i]:
            allv.append((vid, det))
    for vid, det in sorted(allv, key=lambda v: (v[0].startswith('known:'), )):
        R.violation(vid, **det)
    R.finish()


main()
