"""Bounded stand-in for C03: everything pywbem puts on the wire is well-formed, DTD-valid CIM-XML.

Oracle (independent of pywbem): libxml2 via lxml parses every emitted document (well-formedness, XML 1.0
Char production checked separately on the code points) and validates it against tests/dtd/DSP0203_2.3.1.dtd;
embedded-object strings are parsed and validated recursively; the CIMMethod/CIMExportMethod/CIMObject headers
are decoded with a small DSP0200 reference decoder + WBEM-URI parser and compared with the structure read
back from the body with lxml.
"""
import http.client
import inspect
import itertools
import logging
import os
import random
import re
import socket
import sys
import threading
import warnings
from datetime import datetime, timedelta

import requests
from requests.adapters import BaseAdapter
from lxml import etree

from bounded.common import Run

warnings.simplefilter('ignore')
logging.getLogger('pywbem').addHandler(logging.NullHandler())
logging.getLogger('pywbem').propagate = False

import pywbem  # noqa: E402
from pywbem import (CIMInstanceName, CIMClassName, CIMInstance, CIMClass, CIMProperty, CIMMethod,  # noqa: E402
                    CIMParameter, CIMQualifier, CIMQualifierDeclaration, CIMDateTime, Char16, Uint8, Sint8,
                    Uint16, Sint16, Uint32, Sint32, Uint64, Sint64, Real32, Real64, WBEMConnection,
                    WBEMListener)
from pywbem import _cim_xml, _cim_obj  # noqa: E402

R = Run('tocimxmlstr of all 9 CIM object kinds + module tocimxml over 14 types x scalar/array/NULL shapes x '
        'qualifier/flavor/scope/path grids, 40 strings (XML specials, CDATA markers, C0 controls, lone surrogates, '
        'U+FFFE/FFFF, non-BMP) x ~45 value/name sinks (both escaping modes); request body+headers of all 41 '
        'operations: baseline, one-at-a-time over per-parameter pools (incl. wrong types), special strings in every '
        'string-capable parameter, InvokeMethod values of every CIM type in 3 passing styles, Iter* in 3 pull modes, '
        'Open/Pull/Close sequences (thorough: + seeded k-way samples); listener responses over loopback')

DTD_FILE = os.path.join('tests', 'dtd', 'DSP0203_2.3.1.dtd')
DTD = etree.DTD(DTD_FILE if os.path.exists(DTD_FILE) else os.path.join('/repo', DTD_FILE))
PARSER = etree.XMLParser(resolve_entities=False, no_network=True, remove_blank_text=False)
RND = random.Random(R.seed)
THOROUGH = R.tier == 'thorough'

VIOL = {}


def V(vid, **detail):
    if vid not in VIOL:
        VIOL[vid] = {k: (v if isinstance(v, (int, bool, type(None))) else _short(v)) for k, v in detail.items()}


def _short(v, n=700):
    s = v if isinstance(v, str) else repr(v)
    s = s.encode('ascii', 'backslashreplace').decode('ascii')
    return s if len(s) <= n else s[:n] + '...'


# ---------------------------------------------------------------------------------------------------------
# XML 1.0 character classes (production [2] Char), independent of any parser
# ---------------------------------------------------------------------------------------------------------

def char_class(ch):
    cp = ord(ch)
    if cp in (9, 10, 13) or 0x20 <= cp <= 0xD7FF or 0xE000 <= cp <= 0xFFFD or 0x10000 <= cp <= 0x10FFFF:
        return None
    if 0xD800 <= cp <= 0xDFFF:
        return 'surrogate'
    if cp < 0x20:
        return 'control'
    return 'nonchar'     # U+FFFE, U+FFFF


def illegal_classes(s):
    return {c for c in map(char_class, s) if c}


def strings_in(obj, depth=0):
    """All str values reachable from a test input (used only to decide whether an illegal character in the
    output was put there by the input)."""
    out = []
    if depth > 8:
        return out
    if isinstance(obj, str):
        out.append(obj)
    elif isinstance(obj, bytes):
        out.append(obj.decode('latin-1'))
    elif isinstance(obj, (list, tuple, set)):
        for v in obj:
            out += strings_in(v, depth + 1)
    elif type(obj).__module__ != 'pywbem._cim_obj' and hasattr(obj, 'items') and hasattr(obj, 'keys'):
        for k, v in obj.items():
            out += strings_in(k, depth + 1) + strings_in(v, depth + 1)
    elif type(obj).__module__.startswith('pywbem'):
        for name in ('classname', 'name', 'namespace', 'host', 'keybindings', 'path', 'properties', 'qualifiers',
                     'methods', 'parameters', 'superclass', 'value', 'class_origin', 'reference_class', 'scopes'):
            try:
                v = getattr(obj, name)
            except Exception:
                continue
            out += strings_in(v, depth + 1)
    return out


CHAR_KNOWN = {
    ('obj', 'control'): 'known:tocimxmlstr-emits-xml10-illegal-control-char',
    ('obj', 'nonchar'): 'known:tocimxmlstr-emits-noncharacter-FFFE-FFFF',
    ('obj', 'surrogate'): 'known:tocimxmlstr-emits-lone-surrogate',
    ('req', 'control'): 'known:request-body-has-xml10-illegal-control-char',
    ('req', 'nonchar'): 'known:request-body-has-noncharacter-FFFE-FFFF',
}


def dtd_signature(msg):
    m = re.match(r'Element (\S+) content does not follow the DTD, expecting .*, got \((.*)\)$', msg)
    if m:
        return 'dtd-content:%s:got(%s)' % (m.group(1), ' '.join(m.group(2).split()))
    m = re.match(r'No declaration for attribute (\S+) of element (\S+)', msg)
    if m:
        return 'dtd-undeclared-attr:%s@%s' % (m.group(2), m.group(1))
    m = re.match(r'Value "(.*)" for attribute (\S+) of (\S+) is not among the enumerated set', msg)
    if m:
        return 'dtd-enum-attr:%s@%s' % (m.group(3), m.group(2))
    m = re.match(r'Element (\S+) does not carry attribute (\S+)', msg)
    if m:
        return 'dtd-missing-attr:%s@%s' % (m.group(1), m.group(2))
    m = re.match(r'No declaration for element (\S+)', msg)
    if m:
        return 'dtd-undeclared-element:%s' % m.group(1)
    m = re.match(r'Element (\S+) was declared EMPTY', msg)
    if m:
        return 'dtd-not-empty:%s' % m.group(1)
    return 'dtd-invalid:' + re.sub(r'[^A-Za-z.]+', '-', msg)[:70]


def check_document(doc, channel, inputs, detail, expect=None, roots=None, depth=0):
    """doc: str (tocimxmlstr result) or bytes (wire).  channel: 'obj' | 'req' | 'lis'.
    inputs: the test inputs (only searched for illegal characters).  expect: {signature: known-id} for this case.
    Returns the lxml root, or None if the document could not be parsed."""
    expect = expect or {}
    if isinstance(doc, bytes):
        try:
            text = doc.decode('utf-8')
        except UnicodeDecodeError:
            V(channel + '-body-not-utf8', **detail)
            return None
    elif isinstance(doc, str):
        text = doc
    else:
        V(channel + '-document-not-str-or-bytes', got=type(doc).__name__, **detail)
        return None
    bad = illegal_classes(text)
    if bad:
        from_input = set()
        for s in strings_in(inputs):
            from_input |= illegal_classes(s)
        for cls in sorted(bad):
            kid = CHAR_KNOWN.get((channel, cls))
            if cls in from_input and kid and depth == 0:
                V(kid, output=text[:300], **detail)
            elif cls in from_input and depth > 0:
                pass    # embedded text of a document already reported at depth 0
            else:
                V('%s-illegal-xml-char-%s-not-from-input' % (channel, cls), output=text[:300], **detail)
        text = ''.join(c if char_class(c) is None else '?' for c in text)
    try:
        root = etree.fromstring(text.encode('utf-8'), PARSER)
    except etree.XMLSyntaxError as e:
        sig = channel + '-not-well-formed'
        V(expect.get(sig, sig), error=str(e)[:150], output=text[:400], **detail)
        return None
    if roots is not None and root.tag not in roots:
        sig = '%s-unexpected-root:%s' % (channel, root.tag)
        V(expect.get(sig, sig), output=text[:400], **detail)
    if not DTD.validate(root):
        for err in DTD.error_log:
            sig = dtd_signature(err.message)
            V(expect.get(sig, sig.split(':got(')[0]), dtd_error=err.message[:300], output=text[:600], **detail)
    check_embedded(root, channel, inputs, detail, expect, depth)
    return root


def check_embedded(root, channel, inputs, detail, expect, depth):
    if depth > 4:
        return
    for el in root.iter():
        eo = el.get('EmbeddedObject')
        if eo is None or not isinstance(el.tag, str):
            continue
        vals = [c for c in el if c.tag == 'VALUE']
        for arr in el:
            if arr.tag == 'VALUE.ARRAY':
                vals += [c for c in arr if c.tag == 'VALUE']
        for v in vals:
            txt = v.text or ''
            if len(v) or txt.strip() == '':
                continue
            allowed = ('INSTANCE', 'CLASS')
            try:
                sub = etree.fromstring(txt.encode('utf-8'), PARSER)
            except etree.XMLSyntaxError as e:
                sig = 'embedded-object-text-not-well-formed'
                V(expect.get(sig, sig), error=str(e)[:150], embedded=txt[:300], **detail)
                continue
            if sub.tag not in allowed:
                sig = 'embedded-%s-is-%s' % (eo, sub.tag)
                V(expect.get(sig, sig), embedded=txt[:300], **detail)
                continue
            if not DTD.validate(sub):
                for err in DTD.error_log:
                    sig = 'embedded:' + dtd_signature(err.message)
                    V(expect.get(sig, sig.split(':got(')[0]), dtd_error=err.message[:300], embedded=txt[:400],
                      **detail)
            check_embedded(sub, channel, inputs, detail, expect, depth + 1)


# ---------------------------------------------------------------------------------------------------------
# Header oracle: DSP0200 header decoding + WBEM-URI (CIMObject) parser, compared with the parsed body
# ---------------------------------------------------------------------------------------------------------

def dsp0200_decode(h):
    """Inverse of the DSP0200 two-step header encoding (UTF-8, then %XX); None if h is not a legal encoding."""
    if any(ord(c) > 0x7e or ord(c) < 0x20 for c in h):
        return None
    out = bytearray()
    i = 0
    while i < len(h):
        if h[i] == '%':
            if not re.match(r'[0-9A-Fa-f]{2}', h[i + 1:i + 3]):
                return None
            out.append(int(h[i + 1:i + 3], 16))
            i += 3
        else:
            out.append(ord(h[i]))
            i += 1
    try:
        return out.decode('utf-8')
    except UnicodeDecodeError:
        return None


class UriError(Exception):
    pass


def _unescape_quoted(s, i):
    """s[i] == '"'; returns (unescaped content, index after the closing quote)."""
    out = []
    i += 1
    while i < len(s):
        c = s[i]
        if c == '\\' and i + 1 < len(s):
            out.append(s[i + 1])
            i += 2
        elif c == '"':
            return ''.join(out), i + 1
        else:
            out.append(c)
            i += 1
    raise UriError('unterminated string')


def parse_keys(rest):
    """'.k=v,k2="x"' -> {k: ('q'|'b', text)}"""
    keys = {}
    if rest == '':
        return keys
    if rest[0] != '.':
        raise UriError('expected "." before keys: %r' % rest[:30])
    i = 1
    while True:
        j = rest.find('=', i)
        if j < 0:
            raise UriError('key without "="')
        name = rest[i:j]
        i = j + 1
        if i < len(rest) and rest[i] == '"':
            val, i = _unescape_quoted(rest, i)
            keys[name] = ('q', val)
        else:
            m = re.match(r'Real(32|64)\([^)]*\)', rest[i:])
            j = i + m.end() if m else rest.find(',', i)
            j = len(rest) if j < 0 else j
            keys[name] = ('b', rest[i:j])
            i = j
        if i >= len(rest):
            return keys
        if rest[i] != ',':
            raise UriError('expected "," after key value')
        i += 1


def body_path(el):
    """lxml element (LOCALNAMESPACEPATH | LOCAL*PATH | *PATH | INSTANCENAME | CLASSNAME) -> dict model."""
    if el.tag == 'LOCALNAMESPACEPATH':
        return {'ns': '/'.join(n.get('NAME') for n in el)}
    if el.tag == 'NAMESPACEPATH':
        d = body_path(el.find('LOCALNAMESPACEPATH'))
        d['host'] = el.find('HOST').text or ''
        return d
    if el.tag in ('LOCALCLASSPATH', 'LOCALINSTANCEPATH', 'CLASSPATH', 'INSTANCEPATH'):
        d = body_path(el[0])
        d.update(body_path(el[1]))
        return d
    if el.tag == 'CLASSNAME':
        return {'cls': el.get('NAME'), 'keys': None}
    if el.tag == 'INSTANCENAME':
        keys = {}
        for kb in el:
            if kb.tag != 'KEYBINDING':
                raise UriError('unsupported INSTANCENAME child ' + kb.tag)
            v = kb[0]
            if v.tag == 'KEYVALUE':
                keys[kb.get('NAME')] = (v.get('VALUETYPE', 'string'), v.text or '')
            else:
                keys[kb.get('NAME')] = ('ref', body_path(v[0]))
        return {'cls': el.get('CLASSNAME'), 'keys': keys}
    raise UriError('unsupported path element ' + el.tag)


def _num(s):
    try:
        return int(s, 10)
    except ValueError:
        return float(s)


def compare_uri(uri, model, nested, issues):
    """Compare a CIMObject-style URI with the body model; append issue tags to `issues`."""
    host = None
    if nested:
        m = re.match(r'//([^/]*)/', uri)
        if m:
            host, uri = m.group(1), uri[m.end():]
        elif uri.startswith('/'):
            uri = uri[1:]
    if model.get('host') is not None and host is None:
        issues.append('refkey-host-dropped' if nested else 'unexpected-host-model')
    elif host is not None and host != model.get('host'):
        issues.append('host-differs')
    ns = model.get('ns')
    if ns is None:
        if uri.startswith(':'):
            uri = uri[1:]
        prefix = model['cls']
    else:
        prefix = ns + ':' + model['cls']
    if not uri.startswith(prefix):
        issues.append('namespace-or-class-differs')
        return
    rest = uri[len(prefix):]
    if model['keys'] is None:
        if rest != '':
            issues.append('classpath-has-trailing-text')
        return
    try:
        keys = parse_keys(rest)
    except UriError:
        issues.append('keys-unparsable')
        return
    if set(keys) != set(model['keys']):
        issues.append('key-names-differ')
        return
    for k, (vt, val) in model['keys'].items():
        kind, txt = keys[k]
        if vt == 'string':
            if kind != 'q' or txt != val:
                issues.append('string-key-differs')
        elif vt == 'boolean':
            if kind != 'b' or txt.upper() != val.upper():
                issues.append('boolean-key-differs')
        elif vt == 'numeric':
            if kind != 'b':
                issues.append('numeric-key-quoted')
                continue
            try:
                a, b = _num(txt), _num(val)
                if not (a == b or (a != a and b != b)):
                    issues.append('numeric-key-differs')
            except ValueError:
                if re.match(r'Real(32|64)\(', txt):
                    issues.append('real-key-uses-repr')
                elif txt != val:
                    issues.append('numeric-key-differs')
        elif vt == 'ref':
            if kind != 'q':
                issues.append('reference-key-not-quoted')
            else:
                compare_uri(txt, val, True, issues)
        else:
            issues.append('body-keyvalue-valuetype-unknown')


HDR_KNOWN = {
    'real-key-uses-repr': 'known:cimobject-header-real-key-uses-python-repr',
    'refkey-host-dropped': 'known:cimobject-header-reference-key-host-dropped',
}


def header_names(raw, matcher, what, detail, expect):
    """raw header value; matcher(decoded) -> list of issue tags."""
    if isinstance(raw, bytes):
        raw = raw.decode('latin-1')
    dec = dsp0200_decode(raw)
    if dec == raw:
        issues = matcher(raw)
    else:
        dec_issues = matcher(dec) if dec is not None else None
        if dec_issues == []:
            return
        raw_issues = matcher(raw)
        ws = False
        if raw_issues and not matcher(re.sub('[\t\n\r]', ' ', raw)):
            ws, raw_issues = True, []
        if all(t in HDR_KNOWN for t in raw_issues):
            # the undecoded value is what names the target: the DSP0200 encoding step is missing
            if any(ord(c) > 0x7e for c in raw):
                V('known:cim-header-non-ascii-not-dsp0200-encoded', header=what, value=raw, **detail)
            if any(ord(c) < 0x20 for c in raw):
                V('known:cim-header-tab-not-dsp0200-encoded', header=what, value=raw, **detail)
            if re.search('%', raw):
                V('known:cim-header-percent-sign-not-escaped', header=what, value=raw, **detail)
            if ws:
                # minidom writes TAB/LF/CR in attribute values literally, a parser reads them back as spaces
                V('known:attribute-whitespace-not-escaped-body-name-differs-from-header', header=what, value=raw,
                  **detail)
            issues = raw_issues
        else:
            issues = dec_issues if dec_issues is not None else raw_issues
    for t in issues:
        vid = 'header-body-mismatch-%s-%s' % (what, t)
        V(HDR_KNOWN.get(t, expect.get(vid, vid)), header=what, value=raw, **detail)


def check_headers(headers, root, detail, expect=None):
    expect = expect or {}
    hd = {k.lower(): (''.join(c if char_class(c) is None else '?' for c in v) if isinstance(v, str) else v)
          for k, v in headers.items()}

    def V(vid, **d):
        globals()['V'](expect.get(vid, vid), **d)
    call = None
    for tag in ('IMETHODCALL', 'METHODCALL', 'EXPMETHODCALL'):
        found = root.findall('.//' + tag)
        if found:
            call = found[0]
    if call is None:
        V('request-without-call-element', **detail)
        return
    name = call.get('NAME')

    def name_matcher(v):
        return [] if v == name else ['name-differs']

    if call.tag == 'EXPMETHODCALL':
        if hd.get('cimexport') != 'MethodRequest':
            V('header-CIMExport-wrong', value=hd.get('cimexport'), **detail)
        if 'cimexportmethod' not in hd:
            V('header-CIMExportMethod-missing', **detail)
        else:
            header_names(hd['cimexportmethod'], name_matcher, 'CIMExportMethod', detail, expect)
        return
    if hd.get('cimoperation') != 'MethodCall':
        V('header-CIMOperation-wrong', value=hd.get('cimoperation'), **detail)
    if 'cimmethod' not in hd:
        V('header-CIMMethod-missing', **detail)
    else:
        header_names(hd['cimmethod'], name_matcher, 'CIMMethod', detail, expect)
    if 'cimobject' not in hd:
        V('header-CIMObject-missing', **detail)
        return
    try:
        model = body_path(call[0])
    except (UriError, IndexError, AttributeError, TypeError):
        return      # body not in shape; reported by the DTD check
    if call.tag == 'IMETHODCALL':
        def obj_matcher(v):
            return [] if v == model['ns'] else ['namespace-differs']
    else:
        def obj_matcher(v):
            issues = []
            compare_uri(v, model, False, issues)
            return issues
    header_names(hd['cimobject'], obj_matcher, 'CIMObject', detail, expect)


# ---------------------------------------------------------------------------------------------------------
# Part 1: tocimxml()/tocimxmlstr() of CIM objects
# ---------------------------------------------------------------------------------------------------------

TYPES = ['boolean', 'string', 'char16', 'uint8', 'sint8', 'uint16', 'sint16', 'uint32', 'sint32', 'uint64',
         'sint64', 'datetime', 'real32', 'real64']
INT_CLS = {'uint8': Uint8, 'sint8': Sint8, 'uint16': Uint16, 'sint16': Sint16, 'uint32': Uint32,
           'sint32': Sint32, 'uint64': Uint64, 'sint64': Sint64}


def type_values(t):
    if t == 'boolean':
        return [True, False]
    if t == 'string':
        return ['abc', '', 'x & <y> "z"']
    if t == 'char16':
        return [Char16('x'), Char16('<')]
    if t in INT_CLS:
        c = INT_CLS[t]
        return [c(c.minvalue), c(c.maxvalue)]
    if t == 'datetime':
        return [CIMDateTime('20140924193040.654321+120'), CIMDateTime(timedelta(days=1, microseconds=5)),
                CIMDateTime('2014092419****.******-000')]
    if t == 'real32':
        return [Real32(1.5), Real32(float('nan')), Real32(float('-inf')), Real32(-0.0)]
    return [Real64(1.7976931348623157e308), Real64(5e-324), Real64(float('inf'))]


def shapes(t):
    """[(label, value, is_array)]"""
    vs = type_values(t)
    return [('null', None, False), ('scalar0', vs[0], False), ('scalar1', vs[-1], False),
            ('anull', None, True), ('aempty', [], True), ('a1', [vs[0]], True),
            ('amix', [vs[0], None, vs[-1]], True), ('annull', [None], True)]


SIMPLE_PATHS = [None, CIMInstanceName('C', {'k': 1}), CIMInstanceName('C', {'k': 1}, namespace='n/m'),
                CIMInstanceName('C', {'k': 1}, namespace='n', host='h:5988')]
EMB_KNOWN = 'known:embedded-instance-with-path-serialised-with-its-path'
EMB_EXPECT = {'embedded-%s-is-%s' % (eo, tag): EMB_KNOWN for eo in ('instance', 'object')
              for tag in ('VALUE.NAMEDINSTANCE', 'VALUE.OBJECTWITHLOCALPATH', 'VALUE.INSTANCEWITHPATH')}

BENIGN_FAIL = [0]


def obj_case(key, build, expect=None, render=None, benign=False, inputs=None):
    R.case(key)
    detail = {'case': key}
    try:
        obj = build()
        detail['input'] = _short(obj)
        xml = render(obj) if render else pywbem.tocimxmlstr(obj)
    except Exception as e:       # local failure is allowed by the property
        if benign:
            V('tocimxmlstr-raises-on-benign-object', error=type(e).__name__ + ': ' + str(e)[:200], **detail)
        return None
    return check_document(xml, 'obj', obj if inputs is None else inputs, detail, expect)


def quals(n):
    pool = [CIMQualifier('Key', True), CIMQualifier('Values', ['a', 'b'], type='string'),
            CIMQualifier('MaxLen', Uint32(5), overridable=False, tosubclass=True, toinstance=False,
                         translatable=None, propagated=True),
            CIMQualifier('Nul', None, type='sint8'), CIMQualifier('NulArr', [None, 'x'], type='string')]
    return pool[:n]


def part1_grids():
    # CIMProperty: type x shape x qualifiers, plus attribute diagonal
    for t in TYPES:
        for label, val, arr in shapes(t):
            for nq in (0, 1, 5):
                obj_case(('prop', t, label, nq),
                         lambda: CIMProperty('P', val, type=t, is_array=arr, qualifiers=quals(nq)), benign=True)
            for co, pg, asz in ((None, None, None), ('Org', True, 5), ('', False, 0)):
                obj_case(('prop-attrs', t, label, co, pg, asz),
                         lambda: CIMProperty('P', val, type=t, is_array=arr, class_origin=co, propagated=pg,
                                             array_size=asz if arr else None), benign=True)
    refs = [CIMInstanceName('C', {'k': 1}), CIMInstanceName('C', {'k': 'v'}, namespace='n'),
            CIMInstanceName('C', {'k': True}, namespace='n/m', host='h'), CIMInstanceName('C')]
    for i, ref in enumerate([None] + refs):
        for rc in (None, 'C'):
            for nq in (0, 2):
                obj_case(('prop-ref', i, rc, nq), lambda: CIMProperty('P', ref, type='reference', reference_class=rc,
                                                                      qualifiers=quals(nq), propagated=False),
                         benign=True)
    # a CIMClassName is accepted as a reference value as well
    for cn in (CIMClassName('C'), CIMClassName('C', namespace='n'), CIMClassName('C', namespace='n', host='h')):
        obj_case(('prop-ref-class', repr(cn)), lambda: CIMProperty('P', cn, type='reference'))
    # embedded objects
    emb_inst = CIMInstance('E', {'s': 'a<b', 'n': Uint8(1), 'a': ['x', None]})
    emb_inst2 = CIMInstance('E2', {'inner': emb_inst, 'arr': [emb_inst, emb_inst]})
    emb_cls = CIMClass('EC', properties=[CIMProperty('p', None, type='string')],
                       methods=[CIMMethod('m', return_type='uint8')], qualifiers=quals(2))
    for label, val in (('inst', emb_inst), ('inst2', emb_inst2), ('cls', emb_cls)):
        for eo in (None, 'instance', 'object'):
            for arr in (False, True):
                v = [val, val] if arr else val
                obj_case(('prop-emb', label, eo, arr),
                         lambda: CIMProperty('P', v, embedded_object=eo, qualifiers=quals(1)))
                obj_case(('param-emb', label, eo, arr),
                         lambda: CIMParameter('P', 'string', value=v, embedded_object=eo, is_array=arr),
                         render=lambda o: o.tocimxmlstr(as_value=True))
    for i, path in enumerate(SIMPLE_PATHS[1:]):
        with_path = CIMInstance('E', {'s': 'a'}, path=path)
        obj_case(('prop-emb-with-path', i), lambda: CIMProperty('P', with_path), expect=EMB_EXPECT)
        obj_case(('prop-embarr-with-path', i), lambda: CIMProperty('P', [with_path]), expect=EMB_EXPECT)
        obj_case(('param-emb-with-path', i), lambda: CIMParameter('P', 'string', value=with_path,
                                                                  embedded_object='instance'),
                 render=lambda o: o.tocimxmlstr(as_value=True), expect=EMB_EXPECT)
        obj_case(('inst-emb-with-path', i), lambda: CIMInstance('O', {'e': with_path}), expect=EMB_EXPECT)
    # CIMQualifier: type x shape; flavors exhaustive
    for t in TYPES:
        for label, val, arr in shapes(t):
            obj_case(('qual', t, label), lambda: CIMQualifier('Q', val, type=t), benign=(label != 'annull'))
    tri = (None, True, False)
    for ov, ts, ti, tr in itertools.product(tri, repeat=4):
        for pg in tri:
            obj_case(('qual-flavor', ov, ts, ti, tr, pg),
                     lambda: CIMQualifier('Q', 'v', overridable=ov, tosubclass=ts, toinstance=ti, translatable=tr,
                                          propagated=pg), benign=True)
    # CIMQualifierDeclaration
    for t in TYPES:
        for label, val, arr in shapes(t):
            for asz in ((None, 0, 3) if arr else (None,)):
                obj_case(('qdecl', t, label, asz),
                         lambda: CIMQualifierDeclaration('Q', t, value=val, is_array=arr, array_size=asz),
                         benign=(label != 'annull'))
    scope_names = ['CLASS', 'ASSOCIATION', 'REFERENCE', 'PROPERTY', 'METHOD', 'PARAMETER', 'INDICATION']
    scope_sets = [None, {}, {'any': True}, {n: True for n in scope_names}, {n: False for n in scope_names},
                  {'class': True, 'Property': False}, {'ANY': True, 'CLASS': False}]
    scope_sets += [{n: True} for n in scope_names] + [{n.lower(): False} for n in scope_names]
    for i, sc in enumerate(scope_sets):
        for ov, ts in itertools.product(tri, repeat=2):
            obj_case(('qdecl-scope', i, ov, ts),
                     lambda: CIMQualifierDeclaration('Q', 'string', scopes=sc, overridable=ov, tosubclass=ts,
                                                     toinstance=ts, translatable=ov), benign=True)
    for ov, ts, ti, tr in itertools.product(tri, repeat=4):
        obj_case(('qdecl-flavor', ov, ts, ti, tr),
                 lambda: CIMQualifierDeclaration('Q', 'uint8', value=Uint8(1), overridable=ov, tosubclass=ts,
                                                 toinstance=ti, translatable=tr), benign=True)
    obj_case(('qdecl-scope-any-false',), lambda: CIMQualifierDeclaration('Q', 'string', scopes={'CLASS': True,
                                                                                               'ANY': False}),
             expect={'dtd-undeclared-attr:SCOPE@ANY': 'known:qualifierdecl-scope-ANY-false-emitted-as-attribute'})
    obj_case(('qdecl-scope-unknown',), lambda: CIMQualifierDeclaration('Q', 'string', scopes={'FOO': True}),
             expect={'dtd-undeclared-attr:SCOPE@FOO': 'known:qualifierdecl-unknown-scope-name-emitted-as-attribute'})
    obj_case(('qdecl-scope-nonbool',), lambda: CIMQualifierDeclaration('Q', 'string', scopes={'CLASS': 'x'}),
             expect={'dtd-enum-attr:SCOPE@CLASS': 'known:qualifierdecl-non-boolean-scope-value-emitted'})
    # CIMParameter: declaration and value
    for t in TYPES + ['reference']:
        for arr in (False, True):
            for asz in ((None, 0, 7) if arr else (None,)):
                for nq in (0, 2):
                    obj_case(('param-decl', t, arr, asz, nq),
                             lambda: CIMParameter('P', t, is_array=arr, array_size=asz, qualifiers=quals(nq),
                                                  reference_class='C' if t == 'reference' and nq else None),
                             benign=True)
    for t in TYPES:
        for label, val, arr in shapes(t):
            obj_case(('param-val', t, label), lambda: CIMParameter('P', t, value=val, is_array=arr),
                     render=lambda o: o.tocimxmlstr(as_value=True), benign=True)
    for label, val, arr in (('null', None, False), ('inst', refs[0], False), ('cls', CIMClassName('C', namespace='n'),
                                                                            False),
                            ('aempty', [], True), ('amix', [refs[1], None, refs[2]], True), ('anull', None, True)):
        obj_case(('param-refval', label), lambda: CIMParameter('P', 'reference', value=val, is_array=arr),
                 render=lambda o: o.tocimxmlstr(as_value=True), benign=True)
    # CIMMethod: parameter-kind subsets in both orders
    pk = [CIMParameter('a', 'string'), CIMParameter('b', 'reference', reference_class='C'),
          CIMParameter('c', 'uint8', is_array=True, array_size=2), CIMParameter('d', 'reference', is_array=True)]
    for r in range(5):
        for sub in itertools.combinations(range(4), r):
            for rev in (False, True):
                ps = [pk[i] for i in (reversed(sub) if rev else sub)]
                for rt in ('uint32', 'string', 'datetime'):
                    obj_case(('method', sub, rev, rt),
                             lambda: CIMMethod('M', return_type=rt, parameters=ps, qualifiers=quals(len(sub) % 3),
                                               class_origin='O' if rev else None, propagated=rev or None),
                             benign=True)
    # CIMClass: content ordering with all child kinds
    props = [CIMProperty('s', None, type='string'), CIMProperty('a', None, type='uint8', is_array=True),
             CIMProperty('r', None, type='reference', reference_class='C'),
             CIMProperty('e', None, type='string', embedded_object='instance')]
    meths = [CIMMethod('m1', return_type='uint8', parameters=pk), CIMMethod('m2', return_type='boolean')]
    for np_ in range(5):
        for perm in ([tuple(range(np_))] + ([tuple(reversed(range(np_)))] if np_ > 1 else [])):
            for nm in range(3):
                for nq in (0, 1, 5):
                    for sup in (None, 'Sup'):
                        obj_case(('class', perm, nm, nq, sup),
                                 lambda: CIMClass('C', properties=[props[i] for i in perm], methods=meths[:nm],
                                                  qualifiers=quals(nq), superclass=sup,
                                                  path=CIMClassName('C', namespace='n', host='h') if nq else None),
                                 benign=True)
    # CIMInstance: properties x qualifiers x path form x ignore_path
    ivals = {'s': 'v', 'n': Uint64(2 ** 64 - 1), 'arr': [Sint8(-1), None], 'dt': CIMDateTime(timedelta(0)),
             'ref': refs[2], 'emb': emb_inst, 'nul': CIMProperty('nul', None, type='real32')}
    names = list(ivals)
    for k in range(len(names) + 1):
        for i, path in enumerate(SIMPLE_PATHS):
            for ign in (False, True):
                for nq in (0, 2):
                    obj_case(('inst', k, i, ign, nq),
                             lambda: CIMInstance('C', {n: ivals[n] for n in names[:k]}, path=path,
                                                 qualifiers=quals(nq)),
                             render=lambda o: o.tocimxmlstr(ignore_path=ign), benign=True)
    # CIMInstanceName / CIMClassName
    keyvals = [('str', 'v'), ('empty', ''), ('char16', Char16('c')), ('true', True), ('false', False), ('int', 42),
               ('negint', -1), ('big', 2 ** 64), ('float', 1.5), ('uint8', Uint8(0)), ('sint64', Sint64(-2 ** 63)),
               ('real32', Real32(1.5)), ('real64', Real64(-1e300)), ('nan', Real64(float('nan'))),
               ('dt', CIMDateTime('20140924193040.654321+120')), ('bytes', b'by'),
               ('ref', CIMInstanceName('D', {'x': 'a"b\\c'})),
               ('refns', CIMInstanceName('D', {'x': 1}, namespace='n')),
               ('refhost', CIMInstanceName('D', {'x': 1}, namespace='n', host='h')),
               ('refref', CIMInstanceName('D', {'y': CIMInstanceName('E', {'z': 'q'}, namespace='m')}))]
    nss = [None, 'a', 'a/b/c', '/a/', 'a//b', '']
    hosts = [None, 'h', 'h.example.com:5989', '[fe80::1%eth0]:5988', '10.0.0.1']
    for (l1, v1), ns, host in itertools.product(keyvals, nss, hosts):
        for ih, ins in ((False, False), (True, False), (False, True)):
            obj_case(('iname1', l1, ns, host, ih, ins),
                     lambda: CIMInstanceName('C', {'k': v1}, namespace=ns, host=host),
                     render=lambda o: o.tocimxmlstr(ignore_host=ih, ignore_namespace=ins), benign=True)
    for nkeys in (0, 2, 3):
        combos = list(itertools.combinations(keyvals, nkeys))
        if not THOROUGH and len(combos) > 60:
            combos = RND.sample(combos, 60)
        for combo in combos:
            obj_case(('inameN', tuple(c[0] for c in combo)),
                     lambda: CIMInstanceName('C', [('k%d' % i, c[1]) for i, c in enumerate(combo)], namespace='n'),
                     benign=True)
    for ns, host in itertools.product(nss, hosts):
        for ih, ins in ((False, False), (True, False), (False, True)):
            obj_case(('cname', ns, host, ih, ins), lambda: CIMClassName('C', namespace=ns, host=host),
                     render=lambda o: o.tocimxmlstr(ignore_host=ih, ignore_namespace=ins), benign=True)
    # module-level tocimxml/tocimxmlstr on plain values, and pretty-printing
    plain = [True, 'x', 'a<b', Char16('c'), 5, -5, 1.5, float('nan'), Uint8(1), Real32(2.5), datetime(2020, 1, 2, 3, 4, 5),
             CIMDateTime(timedelta(1))]
    obj_case(('plain-timedelta',), lambda: timedelta(seconds=1))
    for i, v in enumerate(plain):
        obj_case(('plain', i), lambda: v, benign=True)
        obj_case(('plain-list', i), lambda: [v, None, v], benign=True)
        obj_case(('plain-tuple', i), lambda: (v,), benign=True)
    rich = CIMClass('C', properties=props + [CIMProperty('v', 'a\n b', qualifiers=quals(5))], methods=meths,
                    qualifiers=quals(5))
    richi = CIMInstance('C', ivals, path=SIMPLE_PATHS[3])
    for ind in (None, 0, 1, 4, '', '\t', '  '):
        for j, o in enumerate((rich, richi, refs[2], CIMQualifierDeclaration('Q', 'string', scopes={'any': True}),
                               CIMProperty('P', ' lead and trail '))):
            obj_case(('pretty', j, ind), lambda: o, render=lambda x: pywbem.tocimxmlstr(x, indent=ind), benign=True)


GOOD_STRS = ['', 'a', ' ', '  lead', 'trail  ', 'x&y', '<', '>', '"', "'", '&amp;', '&#1;', ']]>', '<![CDATA[x]]>',
             'a]]>b]]>c', ']]', '\t', '\n', '\r', 'a\r\nb', '\x7f', '\x85', '\u2028', '\xe9', '\ufffd', '\ufdd0',
             '\U00010000', '\U0010ffff', '%41', '<INSTANCE CLASSNAME="C"/>', '<?xml version="1.0"?>', '<!-- c -->',
             'a/b', 'a:b.c=d,e', 'x' * 5000]
BAD_STRS = ['\x00', '\x01', '\x08', '\x0b', '\x0c', '\x0e', '\x1f', 'a\x1bb', '\ud800', '\udfff', '\udc00\ud800',
            'a\ud83d', '\ufffe', '\uffff', 'a\uffffb']


def string_sinks():
    """[(name, builder(s), render|None)] -- every place a user string can end up in the XML."""
    emb = lambda s: CIMInstance('E', {'v': s})   # noqa: E731
    asval = lambda o: o.tocimxmlstr(as_value=True)   # noqa: E731
    return [
        ('prop-value', lambda s: CIMProperty('P', s, type='string'), None),
        ('prop-char16', lambda s: CIMProperty('P', Char16(s), type='char16'), None),
        ('prop-array-elem', lambda s: CIMProperty('P', ['a', s, None], type='string'), None),
        ('prop-name', lambda s: CIMProperty(s, 'v'), None),
        ('prop-class-origin', lambda s: CIMProperty('P', 'v', class_origin=s), None),
        ('prop-reference-class', lambda s: CIMProperty('P', None, type='reference', reference_class=s), None),
        ('qual-value', lambda s: CIMQualifier('Q', s), None),
        ('qual-array-elem', lambda s: CIMQualifier('Q', [s, 'b']), None),
        ('qual-name', lambda s: CIMQualifier(s, 'v'), None),
        ('qual-on-prop', lambda s: CIMProperty('P', 'v', qualifiers=[CIMQualifier('Q', s)]), None),
        ('qdecl-value', lambda s: CIMQualifierDeclaration('Q', 'string', value=s), None),
        ('qdecl-array-elem', lambda s: CIMQualifierDeclaration('Q', 'string', value=[s], is_array=True), None),
        ('qdecl-name', lambda s: CIMQualifierDeclaration(s, 'string'), None),
        ('param-name', lambda s: CIMParameter(s, 'string'), None),
        ('param-reference-class', lambda s: CIMParameter('P', 'reference', reference_class=s), None),
        ('param-refarray-class', lambda s: CIMParameter('P', 'reference', reference_class=s, is_array=True), None),
        ('param-value', lambda s: CIMParameter('P', 'string', value=s), asval),
        ('param-value-name', lambda s: CIMParameter(s, 'string', value='v'), asval),
        ('param-array-value', lambda s: CIMParameter('P', 'string', value=[s, s], is_array=True), asval),
        ('method-name', lambda s: CIMMethod(s, return_type='uint8'), None),
        ('method-class-origin', lambda s: CIMMethod('M', return_type='uint8', class_origin=s), None),
        ('class-name', lambda s: CIMClass(s), None),
        ('class-superclass', lambda s: CIMClass('C', superclass=s), None),
        ('class-prop-default', lambda s: CIMClass('C', properties=[CIMProperty('P', s)]), None),
        ('inst-classname', lambda s: CIMInstance(s), None),
        ('inst-prop-value', lambda s: CIMInstance('C', {'P': s}), None),
        ('inst-prop-name', lambda s: CIMInstance('C', {s: 'v'}), None),
        ('iname-classname', lambda s: CIMInstanceName(s, {'k': 1}), None),
        ('iname-key-name', lambda s: CIMInstanceName('C', {s: 1}), None),
        ('iname-key-string', lambda s: CIMInstanceName('C', {'k': s}), None),
        ('iname-key-char16', lambda s: CIMInstanceName('C', {'k': Char16(s)}), None),
        ('iname-key-ref', lambda s: CIMInstanceName('C', {'k': CIMInstanceName('D', {'x': s})}), None),
        ('iname-namespace', lambda s: CIMInstanceName('C', {'k': 1}, namespace=s), None),
        ('iname-host', lambda s: CIMInstanceName('C', {'k': 1}, namespace='n', host=s), None),
        ('cname-classname', lambda s: CIMClassName(s), None),
        ('cname-namespace', lambda s: CIMClassName('C', namespace=s), None),
        ('cname-host', lambda s: CIMClassName('C', namespace='n', host=s), None),
        ('inst-path-key', lambda s: CIMInstance('C', path=CIMInstanceName('C', {'k': s}, namespace='n', host='h')), None),
        ('ref-prop-key', lambda s: CIMProperty('P', CIMInstanceName('C', {'k': s}, namespace='n')), None),
        ('embedded-value', lambda s: CIMProperty('P', emb(s)), None),
        ('embedded-array-value', lambda s: CIMProperty('P', [emb(s), emb('ok')]), None),
        ('embedded-twice', lambda s: CIMProperty('P', CIMInstance('O', {'i': emb(s)})), None),
        ('embedded-class-name', lambda s: CIMProperty('P', CIMClass(s)), None),
        ('embedded-param-value', lambda s: CIMParameter('P', 'string', value=emb(s)), asval),
        ('plain', lambda s: s, None),
        ('plain-list', lambda s: [s, None], None),
        ('pretty-prop', lambda s: CIMProperty('P', s), lambda o: pywbem.tocimxmlstr(o, indent=2)),
    ]


def rnd_str():
    return RND.choice(GOOD_STRS[:-1])


def rnd_value(depth):
    k = RND.randrange(8 if depth < 3 else 6)
    if k == 0:
        return rnd_str()
    if k == 1:
        return [rnd_str() for _ in range(RND.randrange(4))] + ([None] if RND.random() < .3 else [])
    if k == 2:
        return RND.choice(type_values(RND.choice(TYPES)))
    if k == 3:
        t = RND.choice(TYPES)
        return CIMProperty('x', [RND.choice(type_values(t)) for _ in range(RND.randrange(3))], type=t, is_array=True)
    if k == 4:
        return CIMInstanceName(rnd_str(), {rnd_str() or 'k': rnd_str(), 'n': Uint8(1)},
                               namespace=RND.choice([None, 'a/b', rnd_str()]), host=RND.choice([None, 'h']))
    if k == 5:
        return CIMProperty('x', None, type=RND.choice(TYPES), is_array=RND.random() < .5)
    if k == 6:
        return rnd_instance(depth + 1)
    return [rnd_instance(depth + 1) for _ in range(1 + RND.randrange(2))]


def rnd_quals():
    return [CIMQualifier(rnd_str() + str(i), RND.choice([rnd_str(), [rnd_str(), None], Uint8(1), True, None]),
                         type=None if RND.random() < .8 else 'string', overridable=RND.choice((None, True, False)),
                         translatable=RND.choice((None, True, False)))
            for i in range(RND.randrange(3))]


def rnd_instance(depth=0):
    props = []
    for i in range(RND.randrange(5)):
        v = rnd_value(depth)
        name = rnd_str() + str(i)
        if isinstance(v, CIMProperty):
            v = CIMProperty(name, v.value, type=v.type, is_array=v.is_array, qualifiers=guarded(rnd_quals))
        props.append((name, v))
    return CIMInstance(rnd_str(), props, qualifiers=guarded(rnd_quals) if RND.random() < .3 else None)


def rnd_class():
    props = []
    for i in range(RND.randrange(4)):
        v = rnd_value(2)
        if isinstance(v, CIMProperty):
            v = v.value
        props.append(CIMProperty(rnd_str() + str(i), v, qualifiers=guarded(rnd_quals), class_origin=rnd_str(),
                                 propagated=RND.choice((None, True, False))))
    meths = [CIMMethod(rnd_str() + str(i), return_type=RND.choice(TYPES), qualifiers=guarded(rnd_quals),
                       parameters=[CIMParameter(rnd_str() + str(j), RND.choice(TYPES + ['reference']),
                                                is_array=RND.random() < .5, qualifiers=guarded(rnd_quals))
                                   for j in range(RND.randrange(4))]) for i in range(RND.randrange(3))]
    return CIMClass(rnd_str(), properties=props, methods=meths, qualifiers=guarded(rnd_quals), superclass=rnd_str())


RND_STATS = [0, 0]


def part1_random():
    """Seeded sampling beyond the grids: nested composites whose names and values are drawn from GOOD_STRS."""
    for cdata in (False, True):
        _cim_xml._CDATA_ESCAPING = cdata
        try:
            for n in range(8000 if THOROUGH else 250):
                kind = n % 2
                RND_STATS[0] += 1
                if obj_case(('rnd', cdata, kind, n, R.seed), rnd_class if kind else rnd_instance) is not None:
                    RND_STATS[1] += 1
        finally:
            _cim_xml._CDATA_ESCAPING = False
    if RND_STATS[1] * 2 < RND_STATS[0]:
        V('random-composites-mostly-not-serialisable', built=RND_STATS[0], serialised=RND_STATS[1])


def part1_strings():
    sinks = string_sinks()
    for cdata in (False, True):
        _cim_xml._CDATA_ESCAPING = cdata
        try:
            for name, build, render in sinks:
                for s in GOOD_STRS + BAD_STRS:
                    obj_case(('sink', cdata, name, s), lambda: build(s), render=render, inputs=[s])
        finally:
            _cim_xml._CDATA_ESCAPING = False
    # VALUE.NULL switched off: NULL array entries become empty VALUE elements
    saved = _cim_obj.SEND_VALUE_NULL
    _cim_obj.SEND_VALUE_NULL = False
    try:
        for t in TYPES:
            for label, val, arr in shapes(t):
                if arr:
                    obj_case(('nonull-prop', t, label), lambda: CIMProperty('P', val, type=t, is_array=True))
                    obj_case(('nonull-qual', t, label), lambda: CIMQualifier('Q', val, type=t))
                    obj_case(('nonull-qdecl', t, label),
                             lambda: CIMQualifierDeclaration('Q', t, value=val, is_array=True))
                    obj_case(('nonull-param', t, label), lambda: CIMParameter('P', t, value=val, is_array=True),
                             render=lambda o: o.tocimxmlstr(as_value=True))
        obj_case(('nonull-plain',), lambda: ['a', None])
    finally:
        _cim_obj.SEND_VALUE_NULL = saved


# ---------------------------------------------------------------------------------------------------------
# Part 2: request body and headers of the operations, seen by a scripted transport adapter
# ---------------------------------------------------------------------------------------------------------

def _rsp(inner):
    return ('<?xml version="1.0" encoding="utf-8" ?>\n<CIM CIMVERSION="2.0" DTDVERSION="2.0"><MESSAGE ID="1001" '
            'PROTOCOLVERSION="1.0">%s</MESSAGE></CIM>' % inner).encode('utf-8')


CTX_FROM_SERVER = 'ctx-"1"&amp;&lt;]]&gt;\xe9'       # already XML-escaped text of the context the server returns


class Script(BaseAdapter):
    """Transport adapter: records what pywbem hands to the transport, answers from a script."""

    def __init__(self):
        super().__init__()
        self.sent = []
        self.mode = 'err'        # 'err' | 'pull' | 'nopull'
        self.pulls = 0

    def close(self):
        pass

    def send(self, request, **kwargs):
        for v in request.headers.values():
            if isinstance(v, str):
                v.encode('latin-1')     # what http.client.putheader does; UnicodeEncodeError = local failure
        body = request.body
        self.sent.append((dict(request.headers), body))
        resp = requests.Response()
        resp.status_code = 200
        resp.reason = 'OK'
        resp.url = request.url
        resp.request = request
        resp.headers['Content-type'] = 'application/xml; charset="utf-8"'
        resp._content = self.reply(body if isinstance(body, bytes) else b'')
        resp._content_consumed = True
        return resp

    def reply(self, body):
        m = re.search(rb'<(IMETHODCALL|METHODCALL|EXPMETHODCALL) NAME="([^"]*)"', body)
        if not m:
            return _rsp('<SIMPLERSP><IMETHODRESPONSE NAME="x"><ERROR CODE="1"/></IMETHODRESPONSE></SIMPLERSP>')
        kind, name = m.group(1).decode(), m.group(2).decode('utf-8', 'replace')
        name = ''.join(c if char_class(c) is None else '?' for c in name)
        if kind == 'EXPMETHODCALL':
            return _rsp('<SIMPLEEXPRSP><EXPMETHODRESPONSE NAME="%s"/></SIMPLEEXPRSP>' % name)
        if kind == 'METHODCALL':
            return _rsp('<SIMPLERSP><METHODRESPONSE NAME="%s"><RETURNVALUE PARAMTYPE="uint32"><VALUE>0</VALUE>'
                        '</RETURNVALUE></METHODRESPONSE></SIMPLERSP>' % name)
        err = '<SIMPLERSP><IMETHODRESPONSE NAME="%s"><ERROR CODE="%d" DESCRIPTION="scripted"/></IMETHODRESPONSE></SIMPLERSP>'
        if self.mode == 'err':
            return _rsp(err % (name, 1))
        ctx = '<PARAMVALUE NAME="EnumerationContext"><VALUE>%s</VALUE></PARAMVALUE>' % CTX_FROM_SERVER
        eos = '<PARAMVALUE NAME="EndOfSequence"><VALUE>%s</VALUE></PARAMVALUE>'
        if name.startswith('Open'):
            if self.mode == 'nopull':
                return _rsp(err % (name, 7))
            self.pulls = 0
            return _rsp('<SIMPLERSP><IMETHODRESPONSE NAME="%s"><IRETURNVALUE/>%s%s</IMETHODRESPONSE></SIMPLERSP>'
                        % (name, ctx, eos % 'FALSE'))
        if name.startswith('Pull'):
            self.pulls += 1
            last = self.pulls >= 2
            return _rsp('<SIMPLERSP><IMETHODRESPONSE NAME="%s"><IRETURNVALUE/>%s%s</IMETHODRESPONSE></SIMPLERSP>'
                        % (name, '' if last else ctx, eos % ('TRUE' if last else 'FALSE')))
        if name in ('CloseEnumeration', 'DeleteInstance', 'ModifyInstance', 'DeleteClass', 'ModifyClass',
                    'CreateClass', 'SetQualifier', 'DeleteQualifier'):
            return _rsp('<SIMPLERSP><IMETHODRESPONSE NAME="%s"/></SIMPLERSP>' % name)
        return _rsp('<SIMPLERSP><IMETHODRESPONSE NAME="%s"><IRETURNVALUE/></IMETHODRESPONSE></SIMPLERSP>' % name)


def make_conn(default_namespace='root/cimv2', use_pull=None, mode='err'):
    conn = WBEMConnection('http://127.0.0.1:5988', ('user', 'pw'), default_namespace=default_namespace,
                          use_pull_operations=use_pull, stats_enabled=False)
    ad = Script()
    ad.mode = mode
    conn.session.mount('http://', ad)
    conn.session.mount('https://', ad)
    return conn, ad


OP_NAMES = sorted(n for n, f in inspect.getmembers(WBEMConnection, inspect.isfunction) if n[0].isupper())
OP_SIGS = {n: inspect.signature(getattr(WBEMConnection, n)) for n in OP_NAMES}
ALL_CONNS = []


def drain(result):
    gen = getattr(result, 'generator', None)
    if gen is not None:
        return list(gen)
    if inspect.isgenerator(result):
        return list(result)
    return result


def op_case(key, conn, ad, opname, args, kwargs, expect=None, benign=False):
    """Call one operation; validate everything that reached the transport."""
    R.case(key)
    del ad.sent[:]
    detail = {'case': key, 'call': '%s(*%s, **%s)' % (opname, _short(args, 500), _short(kwargs, 500)),
              'default_namespace': conn.default_namespace}
    exc = None
    try:
        drain(getattr(conn, opname)(*args, **kwargs))
    except Exception as e:      # before the transport: local failure; after it: scripted error reply
        exc = e
    if not ad.sent and benign:
        V('benign-call-sent-nothing', error=type(exc).__name__ + ': ' + str(exc)[:200], **detail)
    sent = list(ad.sent)
    for headers, body in sent:
        if not isinstance(body, bytes):
            V('request-body-not-bytes', got=type(body).__name__, **detail)
            continue
        root = check_document(body, 'req', (args, kwargs, conn.default_namespace), detail, expect, roots=('CIM',))
        if root is not None:
            check_headers(headers, root, detail, expect)
    return sent


def rich_instance(path=None):
    return CIMInstance('CIM_Foo', {
        'S': 'a<b>&"c', 'B': True, 'U8': Uint8(255), 'S64': Sint64(-2 ** 63), 'R32': Real32(1.5),
        'R64': Real64(float('nan')), 'DT': CIMDateTime('20140924193040.654321+120'), 'C16': Char16('x'),
        'SA': ['x', None, ''], 'UA': [Uint16(1), Uint16(65535)], 'Ref': CIMInstanceName('D', {'k': 'v'}, namespace='n'),
        'Emb': CIMInstance('E', {'inner': CIMInstance('F', {'p': ']]>'})}),
        'EmbA': [CIMInstance('E', {'a': 1 and Uint8(1)})], 'Nul': CIMProperty('Nul', None, type='datetime'),
        'NulA': CIMProperty('NulA', None, type='string', is_array=True)}, path=path, qualifiers=quals(2))


def rich_class(path=None):
    return CIMClass('CIM_Foo', superclass='CIM_Base', qualifiers=quals(5), path=path, properties=[
        CIMProperty('K', None, type='string', qualifiers=quals(1), class_origin='CIM_Base', propagated=True),
        CIMProperty('A', [Uint8(1)], array_size=4), CIMProperty('R', None, type='reference', reference_class='D'),
        CIMProperty('E', None, type='string', embedded_object='object')],
        methods=[CIMMethod('M', return_type='uint32', qualifiers=quals(2), parameters=[
            CIMParameter('a', 'string', qualifiers=quals(2)), CIMParameter('b', 'reference', reference_class='D'),
            CIMParameter('c', 'real64', is_array=True, array_size=3), CIMParameter('d', 'reference', is_array=True)])])


IN_SIMPLE = CIMInstanceName('CIM_Foo', {'k': 'v'})
IN_POOL = [IN_SIMPLE,
           CIMInstanceName('CIM_Foo', {'k': 'v'}, namespace='ns1'),
           CIMInstanceName('CIM_Foo', {'k': 'v'}, namespace='ns1/sub', host='h:5988'),
           CIMInstanceName('CIM_Foo', [('a', 'x"y\\z'), ('b', Uint8(7)), ('c', True)]),
           CIMInstanceName('CIM_Foo', {'n': 42, 'f': 1.25, 'dt': CIMDateTime(timedelta(1)), 'c': Char16('c')}),
           CIMInstanceName('CIM_Foo', {'r': CIMInstanceName('D', {'x': 'q'}, namespace='m')}, namespace='ns2'),
           CIMInstanceName('CIM_Foo')]
CN_POOL = ['CIM_Foo', CIMClassName('CIM_Foo'), CIMClassName('CIM_Foo', namespace='ns1'),
           CIMClassName('CIM_Foo', namespace='ns1/sub', host='h')]
JUNK = [0, 1.5, b'bytes', {}, ['l'], object]
POOLS = {
    'cn': CN_POOL,
    'cn_opt': [None] + CN_POOL,
    'in': IN_POOL,
    'on': CN_POOL + IN_POOL,
    'ns': [None, 'root/cimv2', 'a', '/a/b/', 'a b', '', 'interop//x', 'A/B/C/D/E'],
    'bool': [None, True, False],
    'pl': [None, [], ['a'], ('a', 'B'), 'single', ['a', 'a'], ['x' * 300], [''], ['a<b', 'c&d'], iter(())],
    'str': [None, 'role', '', 'a<b&c"d'],
    'ql': ['WQL', 'DMTF:CQL', '', None],
    'q': ['SELECT * FROM CIM_Foo WHERE a < 1 AND b > "x" OR c LIKE \'%&%\'', '', None],
    'uint': [None, 0, 1, 2 ** 32 - 1, 2 ** 32, True],
    'moc': [1, 0, 1000, 2 ** 32 - 1, None],
    'ctx': [('ctx-1', 'root/cimv2'), ['c<&>"\'', 'a/b'], ('', ''), ('c', None), (Uint8(1), 'n')],
    'inst': [rich_instance(IN_POOL[0]), rich_instance(), rich_instance(IN_POOL[1]), rich_instance(IN_POOL[2]),
             CIMInstance('CIM_Foo', path=IN_POOL[0]), CIMInstance('CIM_Foo', path=IN_POOL[6])],
    'cls': [rich_class(), rich_class(CIMClassName('CIM_Foo', namespace='n', host='h')), CIMClass('C')],
    'name': ['Key', 'MyMethod', ''],
    'qd': [CIMQualifierDeclaration('Key', 'boolean', value=False, scopes={'property': True, 'reference': True},
                                   overridable=False),
           CIMQualifierDeclaration('Values', 'string', is_array=True, array_size=3, value=['a', None],
                                   scopes={'any': True}, translatable=True),
           CIMQualifierDeclaration('Q', 'datetime')],
    'params': [None, [], [('a', 'x')], [CIMParameter('p', 'uint8', value=Uint8(1))]],
}
KIND_OF = {
    'ClassName': 'cn', 'InstanceName': 'in', 'ObjectName': 'on', 'namespace': 'ns', 'LocalOnly': 'bool',
    'DeepInheritance': 'bool', 'IncludeQualifiers': 'bool', 'IncludeClassOrigin': 'bool', 'ContinueOnError': 'bool',
    'ReturnQueryResultClass': 'bool', 'PropertyList': 'pl', 'AssocClass': 'cn_opt', 'ResultClass': 'cn_opt',
    'Role': 'str', 'ResultRole': 'str', 'FilterQueryLanguage': 'ql', 'QueryLanguage': 'ql', 'FilterQuery': 'q',
    'Query': 'q', 'OperationTimeout': 'uint', 'MaxObjectCount': 'moc', 'context': 'ctx', 'NewInstance': 'inst',
    'ModifiedInstance': 'inst', 'NewIndication': 'inst', 'NewClass': 'cls', 'ModifiedClass': 'cls',
    'QualifierName': 'name', 'MethodName': 'name', 'QualifierDeclaration': 'qd', 'Params': 'params',
}
EXPORT_EXPECT = {
    'dtd-content:EXPPARAMVALUE:got(VALUE.NAMEDINSTANCE)': 'known:ExportIndication-instance-with-path-sent-as-VALUE.NAMEDINSTANCE',
    'dtd-content:EXPPARAMVALUE:got(VALUE.OBJECTWITHLOCALPATH)': 'known:ExportIndication-instance-with-path-sent-as-VALUE.NAMEDINSTANCE',
    'dtd-content:EXPPARAMVALUE:got(VALUE.INSTANCEWITHPATH)': 'known:ExportIndication-instance-with-path-sent-as-VALUE.NAMEDINSTANCE',
}


def op_params(opname):
    """[(param name, kind, required)] in signature order (without self / **params)."""
    out = []
    for pname, p in OP_SIGS[opname].parameters.items():
        if pname == 'self' or p.kind == p.VAR_KEYWORD:
            continue
        out.append((pname, KIND_OF[pname], p.default is p.empty))
    return out


def baseline(opname):
    kw = {}
    for pname, kind, req in op_params(opname):
        if req:
            pool = POOLS[kind]
            kw[pname] = pool[0] if pool[0] is not None else pool[1]
    if opname == 'ExportIndication':
        kw['NewIndication'] = POOLS['inst'][1]      # an indication has no path
    return kw


EXPORT_JUNK_EXPECT = {'dtd-content:EXPPARAMVALUE:got(%s)' % t: 'known:ExportIndication-accepts-non-instance-NewIndication'
                      for t in ('VALUE.ARRAY', 'CLASS', 'CLASSNAME', 'INSTANCENAME', 'QUALIFIER.DECLARATION',
                                'LOCALCLASSPATH', 'LOCALINSTANCEPATH', 'CLASSPATH', 'INSTANCEPATH')}
NONAME_EXPECT = {'header-CIMMethod-missing': 'known:InvokeMethod-MethodName-None-sent-with-empty-NAME-and-no-CIMMethod'}


def expect_for(opname, kw):
    if opname == 'ExportIndication':
        ind = kw.get('NewIndication')
        if not isinstance(ind, CIMInstance):
            return EXPORT_JUNK_EXPECT
        if ind.path is not None:
            return EXPORT_EXPECT
    if opname == 'InvokeMethod' and kw.get('MethodName', '') is None:
        return NONAME_EXPECT
    return None


def inject(kind, s):
    """Values of the given parameter kind that carry the string s in each position it can occupy."""
    if kind in ('cn', 'cn_opt'):
        return [s, CIMClassName(s), CIMClassName('C', namespace=s)]
    if kind == 'in':
        return [CIMInstanceName(s, {'k': 1}), CIMInstanceName('C', {'k': s}), CIMInstanceName('C', {s: 'v'}),
                CIMInstanceName('C', {'k': 1}, namespace=s),
                CIMInstanceName('C', {'k': CIMInstanceName('D', {'x': s}, namespace='n', host=s)})]
    if kind == 'on':
        return inject('cn', s) + inject('in', s)
    if kind in ('ns', 'str', 'ql', 'q', 'name'):
        return [s]
    if kind == 'pl':
        return [s, [s], ['a', s]]
    if kind == 'ctx':
        return [(s, 'ns'), ('ctx', s)]
    if kind == 'inst':
        p = CIMInstanceName('C', {'k': s})
        return [CIMInstance('C', {'p': s}, path=IN_SIMPLE), CIMInstance('C', {s: 'v'}, path=IN_SIMPLE),
                CIMInstance(s, path=IN_SIMPLE), CIMInstance('C', {'p': [s]}, path=p),
                CIMInstance('C', {'e': CIMInstance('E', {'p': s})}, path=IN_SIMPLE),
                CIMInstance('C', {'p': CIMProperty('p', 'v', qualifiers=[CIMQualifier('Q', s)])}, path=IN_SIMPLE)]
    if kind == 'cls':
        return [CIMClass(s), CIMClass('C', superclass=s), CIMClass('C', properties=[CIMProperty(s, 'v')]),
                CIMClass('C', properties=[CIMProperty('p', s, class_origin=s)]),
                CIMClass('C', methods=[CIMMethod(s, return_type='uint8', parameters=[CIMParameter(s, 'string')])]),
                CIMClass('C', qualifiers=[CIMQualifier(s, s)])]
    if kind == 'qd':
        return [CIMQualifierDeclaration(s, 'string'), CIMQualifierDeclaration('Q', 'string', value=s),
                CIMQualifierDeclaration('Q', 'string', value=[s], is_array=True)]
    if kind == 'params':
        return [[(s, 'v')], [('p', s)], [('p', [s])], [('p', CIMInstance('E', {'x': s}))],
                [CIMParameter(s, 'string', value=s)], [('p', CIMInstanceName('C', {'k': s}))]]
    return []


def guarded(f):
    try:
        return f()
    except Exception:
        return None


OP_STRS = ['a<b&c>"d\'', ']]>', 'a\tb', '\xe9', '\U00010000', '%41%zz', 'a b', ''] + \
          ['\x00', '\x01', '\x1f', '\ud800', '\udfff', '\ufffe', '\uffff']


def part2_ops():
    conn, ad = make_conn()
    ALL_CONNS.append(conn)
    for opname in OP_NAMES:
        base = baseline(opname)
        op_case(('op-base', opname), conn, ad, opname, (), base, benign=True, expect=expect_for(opname, base))
        params = op_params(opname)
        # required arguments given positionally
        op_case(('op-positional', opname), conn, ad, opname, tuple(base[p] for p, k, r in params if r), {},
                benign=True, expect=expect_for(opname, base))
        # one-at-a-time over the pools, plus wrong-typed values
        for pname, kind, req in params:
            for i, val in enumerate(POOLS[kind]):
                kw = dict(base)
                kw[pname] = val
                op_case(('op-1', opname, pname, i), conn, ad, opname, (), kw, expect=expect_for(opname, kw))
            for i, val in enumerate(JUNK):
                kw = dict(base)
                kw[pname] = val
                op_case(('op-junk', opname, pname, i), conn, ad, opname, (), kw, expect=expect_for(opname, kw))
            if req:
                kw = dict(base)
                kw[pname] = None
                op_case(('op-none', opname, pname), conn, ad, opname, (), kw, expect=expect_for(opname, kw))
        # special strings in every position that can hold a string
        strs = OP_STRS if THOROUGH else [x for x in OP_STRS if x not in (']]>', '\U00010000', 'a b', '', '\x1f', '\udfff')]
        for pname, kind, req in params:
            for s in strs:
                vals = list(enumerate(guarded(lambda: inject(kind, s)) or []))
                if not THOROUGH and len(vals) > 3:
                    vals = vals[:2] + RND.sample(vals[2:], 1)
                for j, val in vals:
                    kw = dict(base)
                    kw[pname] = val
                    op_case(('op-str', opname, pname, s, j), conn, ad, opname, (), kw, expect=expect_for(opname, kw))
        # all optional boolean arguments together, all pool maxima together
        for pick in (1, -1):
            kw = dict(base)
            for pname, kind, req in params:
                kw[pname] = POOLS[kind][pick]
            op_case(('op-all', opname, pick), conn, ad, opname, (), kw, expect=expect_for(opname, kw))
        # seeded k-way samples
        for n in range(1000 if THOROUGH else 12):
            kw = dict(base)
            for pname, kind, req in params:
                if RND.random() < 0.6:
                    kw[pname] = RND.choice(POOLS[kind])
            op_case(('op-rand', opname, n, R.seed), conn, ad, opname, (), kw, expect=expect_for(opname, kw))
    # default namespace of the connection
    for dns in (None, 'root/cimv2', 'a', '/x/y/', 'interop', 'a b/c', 'root/\xe9', 'r%41', 'n\x01', 'n\uffff', 'n\ud800'):
        c2, a2 = guarded(lambda: make_conn(default_namespace=dns)) or (None, None)
        if c2 is None:
            R.case(('conn-rejected', dns))
            continue
        ALL_CONNS.append(c2)
        for opname in ('EnumerateInstances', 'GetInstance', 'InvokeMethod', 'EnumerateQualifiers', 'CreateInstance',
                       'OpenEnumerateInstances', 'Associators', 'ExecQuery', 'GetClass'):
            base = baseline(opname)
            op_case(('op-dns', opname, dns), c2, a2, opname, (), base, benign=(dns in (None, 'root/cimv2', 'a')))
            for pname, kind, req in op_params(opname):
                if kind in ('cn', 'in', 'on'):
                    for i, val in enumerate(POOLS[kind]):
                        kw = dict(base)
                        kw[pname] = val
                        op_case(('op-dns-1', opname, dns, i), c2, a2, opname, (), kw)


MIXED_EXPECT = {
    'dtd-content:VALUE.REFARRAY:got(VALUE.REFERENCE VALUE)': 'known:InvokeMethod-mixed-reference-and-value-list-emitted',
    'dtd-content:VALUE.ARRAY:got(VALUE VALUE.REFERENCE)': 'known:InvokeMethod-mixed-reference-and-value-list-emitted',
    'dtd-content:VALUE.ARRAY:got(VALUE VALUE.ARRAY)': 'known:InvokeMethod-nested-list-emitted-as-nested-VALUE.ARRAY',
    'dtd-content:VALUE.ARRAY:got(VALUE.ARRAY)': 'known:InvokeMethod-nested-list-emitted-as-nested-VALUE.ARRAY',
    'dtd-content:VALUE.ARRAY:got(VALUE.ARRAY VALUE.ARRAY)': 'known:InvokeMethod-nested-list-emitted-as-nested-VALUE.ARRAY',
    'embedded-object-text-not-well-formed': 'known:InvokeMethod-mixed-embedded-object-and-string-list-emitted',
}


def part2_invoke():
    conn, ad = make_conn()
    ALL_CONNS.append(conn)
    vals = []
    for t in TYPES:
        for label, val, arr in shapes(t):
            if label in ('null', 'anull'):
                continue
            vals.append((t + '-' + label, val))
    emb = CIMInstance('E', {'p': 'a<b', 'q': CIMInstance('F', {'r': ']]>'})}, path=IN_POOL[2])
    vals += [('none', None), ('pydatetime', datetime(2020, 1, 2, 3, 4, 5)), ('pytimedelta', timedelta(days=2)),
             ('iname', IN_POOL[3]), ('iname-ns-host', IN_POOL[2]), ('cname', CIMClassName('C')),
             ('cname-ns-host', CIMClassName('C', namespace='n', host='h')),
             ('refarr', [IN_POOL[0], CIMClassName('C', namespace='n')]), ('refarr-null', [IN_POOL[0], None]),
             ('emb-inst', emb), ('emb-cls', rich_class()), ('emb-arr', [emb, CIMInstance('G')]),
             ('emb-cls-arr', [rich_class(), CIMClass('C')]), ('emb-mixed-arr', [emb, rich_class()]),
             ('pyint', 5), ('pyfloat', 1.5), ('bytes', b'x'), ('dict', {'a': 1}), ('tuple', ('a', 'b')),
             ('prop', CIMProperty('p', 'v')), ('qual', CIMQualifier('q', 'v')), ('set', {'a'})]
    mixed = [('mixed-ref-str', [CIMClassName('X'), 'str']), ('mixed-str-ref', ['str', CIMClassName('X')]),
             ('mixed-types', [Uint8(1), 'a', True]), ('nested-list', ['a', ['b']]), ('nested-only', [['a']]),
             ('nested-two', [['a'], ['b']]), ('mixed-emb-str', [emb, 'x']), ('mixed-int-none', [Uint8(1), None])]
    targets = [('cls', 'CIM_Foo'), ('iname', IN_POOL[3]), ('iname-ns', IN_POOL[2]),
               ('cname-ns', CIMClassName('CIM_Foo', namespace='a/b', host='h'))]
    for tl, target in targets:
        for label, val in vals + mixed:
            exp = MIXED_EXPECT if label.startswith(('mixed', 'nested')) else None
            op_case(('invoke-tuple', tl, label), conn, ad, 'InvokeMethod', ('M', target, [('p1', val)]), {}, expect=exp)
            if tl == 'cls':
                op_case(('invoke-kw', label), conn, ad, 'InvokeMethod', ('M', target), {'p1': val}, expect=exp)
                op_case(('invoke-both', label), conn, ad, 'InvokeMethod', ('M', target, [('a', val), ('b', 'x')]),
                        {'c': val, 'D': Uint8(1)}, expect=exp)
                op_case(('invoke-tuple-as-params', label), conn, ad, 'InvokeMethod', ('M', target, (('p1', val),)), {},
                        expect=exp)
    # CIMParameter objects: every type and shape, with and without value
    for t in TYPES:
        for label, val, arr in shapes(t):
            op_case(('invoke-cimparam', t, label), conn, ad, 'InvokeMethod',
                    ('M', 'CIM_Foo', [CIMParameter('p', t, value=val, is_array=arr), ('q', Uint8(1))]), {},
                    benign=not (arr and val is not None and None in val))
    for label, val, arr, eo in (('ref', IN_POOL[1], False, None), ('refarr', [IN_POOL[1], None], True, None),
                                ('refarr-empty', [], True, None), ('refnull', None, False, None),
                                ('emb', emb, False, 'instance'), ('embobj', rich_class(), False, 'object'),
                                ('embarr', [emb, emb], True, 'instance')):
        op_case(('invoke-cimparam-x', label), conn, ad, 'InvokeMethod',
                ('M', IN_POOL[0], [CIMParameter('p', 'reference' if 'ref' in label else 'string', value=val,
                                                is_array=arr, embedded_object=eo)]), {},
                expect=EMB_EXPECT)
    # degenerate parameter lists
    for i, params in enumerate([[('a',)], [('a', 'x', 'y')], ['ab'], [None], [(None, 'x')], [(1, 'x')], 'ab',
                                [('a', 'x'), ('a', 'y')], [('A', 'x'), ('a', 'y')], {'a': 'x'}, [['a', 'x']]]):
        op_case(('invoke-degenerate', i), conn, ad, 'InvokeMethod', ('M', 'CIM_Foo', params), {})
    # method names / targets with characters that are unusual in CIM names: header must keep naming the body's
    names = ['M', 'm_1', 'M\xe9', 'a b', 'a.b', 'a:b', 'A"B', 'a,b=c', '%41', '100%', '\xe9', '\u0100', 'x\U00010000y',
             'a\tb', ' a', 'a ', '', 'a\rb', 'a\nb']
    for n in names:
        op_case(('invoke-name', n), conn, ad, 'InvokeMethod', (n, 'CIM_Foo'), {})
        op_case(('invoke-classname', n), conn, ad, 'InvokeMethod', ('M', n), {})
        op_case(('invoke-cname-ns', n), conn, ad, 'InvokeMethod', ('M', CIMClassName('C', namespace=n)), {})
        op_case(('invoke-key-string', n), conn, ad, 'InvokeMethod', ('M', CIMInstanceName('C', {'k': n, 'j': 1})), {})
        op_case(('invoke-key-ref', n), conn, ad, 'InvokeMethod',
                ('M', CIMInstanceName('C', {'k': CIMInstanceName('D', {'x': n}, namespace='n')})), {})
        op_case(('imethod-ns', n), conn, ad, 'EnumerateClassNames', (), {'namespace': n})
        op_case(('imethod-objns', n), conn, ad, 'GetInstance', (CIMInstanceName('C', {'k': 1}, namespace=n),), {})
        op_case(('param-name', n), conn, ad, 'InvokeMethod', ('M', 'CIM_Foo', [(n, 'v')]), {})
    # key values of every key type in the target path
    keyvals = [('str', 'v'), ('quote', 'a"b\\c,d=e'), ('char16', Char16('c')), ('true', True), ('false', False),
               ('int', 42), ('negint', -1), ('big', 2 ** 64), ('uint8', Uint8(0)), ('sint64', Sint64(-2 ** 63)),
               ('dt', CIMDateTime('20140924193040.654321+120')), ('interval', CIMDateTime(timedelta(1))),
               ('ref', CIMInstanceName('D', {'x': 'a"b'})), ('refns', CIMInstanceName('D', {'x': 1}, namespace='n')),
               ('refref', CIMInstanceName('D', {'y': CIMInstanceName('E', {'z': 'q"'}, namespace='m')}))]
    known_keyvals = [('float', 1.5), ('real32', Real32(1.5)), ('real64', Real64(-1e300)),
                     ('refhost', CIMInstanceName('D', {'x': 1}, namespace='n', host='h'))]
    for (l1, v1), (l2, v2) in itertools.product(keyvals + known_keyvals, keyvals[:4] + known_keyvals[1:2]):
        for ns in (None, 'x/y'):
            op_case(('invoke-keys', l1, l2, ns), conn, ad, 'InvokeMethod',
                    ('M', CIMInstanceName('C', [('K1', v1), ('b', v2)], namespace=ns, host='hh')), {},
                    benign=True)


def part2_iter():
    iters = [n for n in OP_NAMES if n.startswith('Iter')]
    for use_pull, mode in ((True, 'pull'), (None, 'pull'), (None, 'nopull'), (False, 'nopull'), (True, 'err'),
                           (None, 'err')):
        conn, ad = make_conn(use_pull=use_pull, mode=mode)
        ALL_CONNS.append(conn)
        for opname in iters:
            base = baseline(opname)
            sent = op_case(('iter', opname, use_pull, mode), conn, ad, opname, (), base, benign=True)
            if mode == 'pull' and len(sent) < 3:
                V('iter-pull-sequence-too-short', opname=opname, requests=len(sent))
            for pname, kind, req in op_params(opname):
                for i, val in enumerate(POOLS[kind]):
                    kw = dict(base)
                    kw[pname] = val
                    op_case(('iter-1', opname, use_pull, mode, pname, i), conn, ad, opname, (), kw)
            # calling it twice exercises the sticky pull decision
            op_case(('iter-again', opname, use_pull, mode), conn, ad, opname, (), base)
        # abandoned iterator: the generator's cleanup sends CloseEnumeration
        if mode == 'pull':
            for opname in iters:
                R.case(('iter-abandon', opname, use_pull))
                del ad.sent[:]
                detail = {'case': ('iter-abandon', opname, use_pull)}
                try:
                    res = getattr(conn, opname)(**baseline(opname))
                    gen = getattr(res, 'generator', res)
                    next(gen, None)
                    gen.close()
                except Exception:
                    pass
                for headers, body in list(ad.sent):
                    root = check_document(body, 'req', (), detail, roots=('CIM',))
                    if root is not None:
                        check_headers(headers, root, detail)
    # Open -> Pull -> Pull -> (exhausted) and Open -> Close, feeding the context returned by pywbem back in
    conn, ad = make_conn(mode='pull')
    ALL_CONNS.append(conn)
    pull_for = {'OpenEnumerateInstances': 'PullInstancesWithPath', 'OpenEnumerateInstancePaths': 'PullInstancePaths',
                'OpenAssociatorInstances': 'PullInstancesWithPath', 'OpenAssociatorInstancePaths': 'PullInstancePaths',
                'OpenReferenceInstances': 'PullInstancesWithPath', 'OpenReferenceInstancePaths': 'PullInstancePaths',
                'OpenQueryInstances': 'PullInstances'}
    for opname, pull in sorted(pull_for.items()):
        for variant, extra in (('plain', {}), ('ns-obj', None), ('moc0', {'MaxObjectCount': 0})):
            kw = baseline(opname)
            if extra is None:
                first = op_params(opname)[0]
                if first[1] not in ('cn', 'in'):
                    continue
                kw[first[0]] = POOLS[first[1]][2]
            else:
                kw.update(extra)
            R.case(('sequence', opname, variant))
            del ad.sent[:]
            detail = {'case': ('sequence', opname, variant), 'call': _short(kw)}
            try:
                res = getattr(conn, opname)(**kw)
                for moc in (1, 0):
                    if res.eos:
                        break
                    res = getattr(conn, pull)(res.context, moc)
                res2 = getattr(conn, opname)(**kw)
                conn.CloseEnumeration(res2.context)
            except Exception as e:
                V('open-pull-close-sequence-failed', error=type(e).__name__ + ': ' + str(e)[:200], **detail)
            if len(ad.sent) != 5:
                V('open-pull-close-sequence-wrong-request-count', requests=len(ad.sent), **detail)
            for headers, body in list(ad.sent):
                root = check_document(body, 'req', kw, detail, roots=('CIM',))
                if root is not None:
                    check_headers(headers, root, detail)


# ---------------------------------------------------------------------------------------------------------
# Part 3: responses of the indication listener, over a loopback socket
# ---------------------------------------------------------------------------------------------------------

def xml_attr(s):
    out = []
    for c in s:
        if c in '&<>"\'' or c in '\t\n\r' or ord(c) == 0x85:
            out.append('&#%d;' % ord(c))
        else:
            out.append(c)
    return ''.join(out)


def export_request(msgid, method, params, cimv='2.0', dtdv='2.0', protov='1.0'):
    return ('<?xml version="1.0" encoding="utf-8" ?>\n<CIM CIMVERSION="%s" DTDVERSION="%s"><MESSAGE ID="%s" '
            'PROTOCOLVERSION="%s"><SIMPLEEXPREQ><EXPMETHODCALL NAME="%s">%s</EXPMETHODCALL></SIMPLEEXPREQ></MESSAGE>'
            '</CIM>' % (cimv, dtdv, xml_attr(msgid), protov, xml_attr(method), params))


def free_port():
    s = socket.socket()
    s.bind(('127.0.0.1', 0))
    port = s.getsockname()[1]
    s.close()
    return port


def post(port, body, headers=None, method='POST'):
    hc = http.client.HTTPConnection('127.0.0.1', port, timeout=10)
    try:
        h = {'Content-Type': 'application/xml; charset="utf-8"'}
        h.update(headers or {})
        hc.request(method, '/', body if isinstance(body, bytes) else body.encode('utf-8', 'surrogatepass'), h)
        r = hc.getresponse()
        return r.status, dict(r.getheaders()), r.read()
    finally:
        hc.close()


ACKED = [0]
LEAK = 'known:listener-multi-line-CIMErrorDetails-header-leaks-into-response-body'


def check_error_body(status, rbody, detail):
    """Body of a response the listener sent with an HTTP error status."""
    if not rbody:
        return
    if not rbody.lstrip().startswith(b'<'):
        # send_http_error() puts str(exc) with its line breaks into a header; the tail becomes the body
        V(LEAK, body=_short(rbody, 300), **detail)
        return
    check_document(rbody, 'lis', [], detail, roots=('CIM',))


def norm_ws(s):
    return re.sub('[\t\n\r]', ' ', s)


def listener_case(key, port, msgid, method, params, must_be=None, **kw):
    R.case(key)
    req = export_request(msgid, method, params, **kw)
    detail = {'case': key, 'request': _short(req, 900)}
    try:
        status, headers, body = post(port, req)
    except Exception as e:
        V('listener-no-http-response', error=type(e).__name__ + ': ' + str(e)[:150], **detail)
        return None
    detail['http_status'] = status
    if must_be is not None and (status == 200) != must_be:
        V('listener-unexpected-http-status', **detail)
    if status == 200 and not body:
        V('listener-200-without-body', **detail)
    if not body:
        return None
    if status != 200:
        check_error_body(status, body, detail)
        return None
    root = check_document(body, 'lis', [msgid, method, params], detail, roots=('CIM',))
    if root is None:
        return None
    rsp = root.find('MESSAGE/SIMPLEEXPRSP/EXPMETHODRESPONSE')
    if rsp is None:
        V('listener-response-not-an-export-response', output=_short(body), **detail)
        return None
    if norm_ws(root.find('MESSAGE').get('ID', '')) != norm_ws(msgid):
        V('listener-response-message-id-differs', output=_short(body), **detail)
    if norm_ws(rsp.get('NAME', '')) != norm_ws(method):
        V('listener-response-method-name-differs', output=_short(body), **detail)
    if headers.get('CIMExport') != 'MethodResponse':
        V('listener-response-CIMExport-header-wrong', **detail)
    if method == 'ExportIndication' and len(rsp) == 0:
        ACKED[0] += 1
    return rsp


def part3_listener():
    inst = '<INSTANCE CLASSNAME="CIM_AlertIndication"><PROPERTY NAME="Description" TYPE="string"><VALUE>a&lt;b</VALUE>' \
           '</PROPERTY></INSTANCE>'
    p_ok = '<EXPPARAMVALUE NAME="NewIndication">%s</EXPPARAMVALUE>' % inst
    rich = rich_instance().tocimxmlstr()      # only used as request payload, not as oracle
    p_rich = '<EXPPARAMVALUE NAME="NewIndication">%s</EXPPARAMVALUE>' % rich
    ids = ['1', '', '42 ', 'a b', '<&>"\'', '\xe9', '\U00010000', 'x' * 3000, '\t', 'a\nb', ' lead', '\x85', ']]>',
           '&amp;', '%41', '\ufffd']
    methods = ['Foo', '', '\xe9', '<&"\'>', '\U00010000', 'a\tb', 'x' * 2000, 'exportindication', 'ExportIndication ']
    param_sets = [('ok', p_ok, 'ok'), ('rich', p_rich, 'ok'), ('none', '', 'err'), ('two', p_ok + p_ok.replace(
        'NewIndication', 'Other'), 'err'), ('wrongname', p_ok.replace('NewIndication', xml_attr('New"<Ind>\xe9')), 'err'),
        ('novalue', '<EXPPARAMVALUE NAME="NewIndication"/>', 'err'),
        ('lowercase', p_ok.replace('NewIndication', 'newindication'), None)]
    received = []
    gate = threading.Event()
    entered = threading.Event()

    def callback(indication, host):
        received.append(indication.classname)

    def slow_callback(indication, host):
        entered.set()
        gate.wait(20)
        received.append(indication.classname)

    lis = None
    for attempt in range(5):
        port = free_port()
        lis = WBEMListener('127.0.0.1', http_port=port)
        try:
            lis.start()
            break
        except Exception:
            lis = None
    if lis is None:
        V('listener-could-not-start')
        return
    lis.add_callback(callback)
    try:
        for i, msgid in enumerate(ids):
            rsp = listener_case(('lis-id', msgid), port, msgid, 'ExportIndication', p_ok, must_be=True)
            if rsp is not None and len(rsp):
                V('listener-success-response-not-empty', msgid=msgid)
            listener_case(('lis-id-err', msgid), port, msgid, 'Foo', p_ok, must_be=True)
        for m in methods:
            for label, params, _ in param_sets[:3]:
                rsp = listener_case(('lis-method', m, label), port, '7', m, params, must_be=True)
                if rsp is not None and rsp.find('ERROR') is None:
                    V('listener-unknown-method-not-an-error', method=m)
        for label, params, kind in param_sets:
            rsp = listener_case(('lis-params', label), port, '9', 'ExportIndication', params, must_be=True)
            if rsp is not None and kind is not None and (rsp.find('ERROR') is None) != (kind == 'ok'):
                V('listener-response-kind-unexpected', params=label, output=_short(etree.tostring(rsp)))
        # requests the listener rejects at the HTTP level carry no CIM-XML body; anything they do carry is checked
        for label, kw in (('dtd-1.0', {'dtdv': '1.0'}), ('cim-3.0', {'cimv': '3.0'}), ('proto-2.0', {'protov': '2.0'}),
                          ('dtd-2.4', {'dtdv': '2.4'}), ('proto-1.4', {'protov': '1.4'})):
            listener_case(('lis-version', label), port, '1', 'ExportIndication', p_ok, **kw)
        for label, body in (('not-xml', 'garbage'), ('truncated', export_request('1', 'ExportIndication', p_ok)[:150]),
                            ('ctrl-char', export_request('1\x01', 'ExportIndication', p_ok)),
                            ('ffff', export_request('1\uffff', 'ExportIndication', p_ok)),
                            ('surrogate', export_request('1\ud800', 'ExportIndication', p_ok)),
                            ('imethodcall', export_request('1', 'X', '').replace('EXPMETHODCALL', 'IMETHODCALL')),
                            ('empty', '')):
            R.case(('lis-bad', label))
            detail = {'case': ('lis-bad', label), 'request': _short(body, 400)}
            try:
                status, headers, rbody = post(port, body)
            except Exception as e:
                V('listener-no-http-response', error=type(e).__name__ + ': ' + str(e)[:150], **detail)
                continue
            if status == 200 and not rbody:
                V('listener-200-without-body', **detail)
            elif status == 200:
                check_document(rbody, 'lis', [], detail, roots=('CIM',))
            else:
                check_error_body(status, rbody, detail)
        for label, method, hdrs in (('get', 'GET', {}), ('put', 'PUT', {}), ('accept', 'POST', {'Accept': 'text/html'}),
                                    ('charset', 'POST', {'Accept-Charset': 'latin-1'}),
                                    ('ctype', 'POST', {'Content-Type': 'text/plain'}),
                                    ('encoding', 'POST', {'Content-Encoding': 'gzip'}),
                                    ('range', 'POST', {'Accept-Range': 'bytes'})):
            R.case(('lis-http', label))
            detail = {'case': ('lis-http', label)}
            try:
                status, headers, rbody = post(port, export_request('1', 'ExportIndication', p_ok), hdrs, method)
            except Exception as e:
                V('listener-no-http-response', error=type(e).__name__ + ': ' + str(e)[:150], **detail)
                continue
            check_error_body(status, rbody, detail)
            if status == 200:
                V('listener-accepted-request-it-must-reject', **detail)
        # let the callback thread drain before stopping (stop() races with a running callback)
        for _ in range(200):
            if len(received) >= ACKED[0]:
                break
            threading.Event().wait(0.05)
    finally:
        try:
            lis.stop()
        except Exception:
            pass
    # queue-full error response
    del received[:]
    lis2 = None
    for attempt in range(5):
        port = free_port()
        lis2 = WBEMListener('127.0.0.1', http_port=port, max_ind_queue_size=1)
        try:
            lis2.start()
            break
        except Exception:
            lis2 = None
    if lis2 is None:
        V('listener-could-not-start')
        return
    lis2.add_callback(slow_callback)
    accepted = 0
    full = 0
    try:
        for i in range(4):
            rsp = listener_case(('lis-queue', i), port, 'q%d<&>' % i, 'ExportIndication', p_ok, must_be=True)
            if i == 0:
                entered.wait(10)
            if rsp is not None and rsp.find('ERROR') is not None:
                full += 1
            elif rsp is not None:
                accepted += 1
        if full == 0:
            V('listener-queue-full-not-reported', accepted=accepted)
    finally:
        gate.set()
        for _ in range(200):
            if len(received) >= accepted:
                break
            threading.Event().wait(0.05)
        threading.Event().wait(0.1)
        try:
            lis2.stop()
        except Exception:
            pass


def main():
    before = set(threading.enumerate())
    parts = (part1_grids, part1_strings, part1_random, part2_ops, part2_invoke, part2_iter, part3_listener)
    for part in parts:
        try:
            part()
        except Exception as e:      # a crash of the harness itself must not look like a pass
            import traceback
            V('harness-error-in-' + part.__name__, error=type(e).__name__ + ': ' + str(e)[:300],
              where=traceback.format_exc()[-600:])
    for conn in ALL_CONNS:
        try:
            conn.close()
        except Exception:
            pass
    left = [t.name for t in threading.enumerate() if t not in before and t.is_alive()]
    if left:
        V('threads-left-behind', threads=left)
    # common.Run keeps only the first five ids: report unexpected ones first, then the known defects
    order = sorted(VIOL, key=lambda v: (v.startswith('known:'), v))
    sys.stderr.write('C03 violation ids (%d): %s\n' % (len(order), ', '.join(order)))
    for vid in order:
        R.violation(vid, **VIOL[vid])
    R.finish()


main()
