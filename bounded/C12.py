"""Bounded stand-in for C12: class inheritance resolution and hierarchy queries of the mock WBEM server.

Class forests are built through FakedWBEMConnection.CreateClass / ModifyClass / compile_mof_string and every
observable class query is compared with a small independent reference model:

* a parent map (lower-cased names) with children / subtree / subtree-instances relations for
  EnumerateClassNames, EnumerateClasses, EnumerateInstanceNames, EnumerateInstances and DeleteClass;
* a declarative resolver (DSP0004 rules written out here): per level every element is either not declared,
  introduced or overriding; a qualifier reaches a subclass iff its effective flavor is ToSubclass, a
  DisableOverride qualifier may not change its value, restricted qualifiers stay where they were written;
  class_origin is the introducing class, propagated is True for not redeclared / False for introduced
  elements (unspecified for overriding ones, which the statement leaves open);
* a projection for the GetClass / EnumerateClasses request flags (LocalOnly, IncludeQualifiers,
  IncludeClassOrigin, PropertyList) that is applied to the server's own unfiltered answer: a filtered answer
  must be exactly that projection, i.e. the flags only remove information.

Element cases are packed several to a class chain (each with its own element name); cases for which the model
demands a rejection run alone.  Every difference is mapped to a stable id that names the kind of failure;
defects that exist on the unchanged tree are narrowed by their triggering condition and prefixed 'known:'.
"""
import contextlib
import functools
import io
import itertools
import random
import warnings

from bounded.common import Run
from pywbem import (CIMClass, CIMProperty, CIMMethod, CIMParameter, CIMQualifier, CIMQualifierDeclaration,
                    CIMInstance, CIMInstanceName, CIMError, Error)
from pywbem_mock import FakedWBEMConnection

warnings.simplefilter('ignore')

R = Run('class forests of <= 6 nodes (thorough 7; depth <= 5, fan-out <= 4, all shapes) x accepted creation orders '
        '(all for <= 4 nodes, else DFS/BFS/reversed + seeded samples) x differently-cased names: EnumerateClassNames/'
        'EnumerateClasses (every class + None x DeepInheritance None/F/T), EnumerateInstanceNames/EnumerateInstances, '
        'DeleteClass of every class (+ re-creation); element resolution over chains of depth <= 5 (exhaustive to depth '
        '3, thorough 4; seeded sample above): every declare/override pattern of a property, method, parameter or '
        'class-level slot x 13 qualifier flavor kinds (ToSubclass/Restricted/unset x Enable/DisableOverride/unset on '
        'the declaration, 4 set on the qualifier use) x per declaring level qualifier absent/new value/same value, '
        'via CreateClass, MOF compilation and ModifyClass of the leaf; must-reject cases (DisableOverride change, '
        'type-changing override, redeclare without Override, child before parent); sibling trees in both orders; '
        'association hierarchies; GetClass with all 27 flag combinations x 9 property lists and EnumerateClasses '
        'with all 81 flag combinations on representative repositories')

# CIM status codes (DSP0200), written out on purpose
INVALID_NAMESPACE, INVALID_PARAMETER, INVALID_CLASS, NOT_FOUND = 3, 4, 5, 6
CLASS_HAS_CHILDREN, CLASS_HAS_INSTANCES, INVALID_SUPERCLASS, ALREADY_EXISTS = 8, 9, 10, 11

THOROUGH = R.tier == 'thorough'
RND = random.Random(R.seed)
SINK = io.StringIO()


def low(s):
    return None if s is None else s.lower()


# ------------------------------------------------------------------------------------- qualifier declarations
TS = {'T': True, 'R': False, 'N': None}
OV = {'E': True, 'D': False, 'N': None}
BASE_QDECLS = [('Key', 'boolean', True, False), ('Override', 'string', False, True),
               ('Association', 'boolean', True, False), ('Description', 'string', True, True)]
for _t in 'TRN':
    for _o in 'EDN':
        BASE_QDECLS.append(('Q' + _t + _o, 'string', TS[_t], OV[_o]))

# flavor kinds: (declaration name, tosubclass on the qualifier use, overridable on the qualifier use)
FKINDS = [('Q' + t + o, None, None) for t in 'TRN' for o in 'EDN'] + \
         [('QTE', False, None), ('QTE', None, False), ('QRD', True, True), ('QNN', False, False)]


def fk_name(fk):
    return fk[0] + ('' if fk[1] is None and fk[2] is None else
                    '/use:' + {True: 'T', False: 'R', None: '-'}[fk[1]] + {True: 'E', False: 'D', None: '-'}[fk[2]])


class QDecls:
    """The qualifier declarations of one repository (lower-cased name -> (name, type, tosubclass, overridable))."""

    def __init__(self):
        self.d = {}
        for name, typ, ts, ov in BASE_QDECLS:
            self.add(name, typ, ts, ov)

    def add(self, name, typ, ts, ov):
        self.d[name.lower()] = (name, typ, ts, ov)

    def clone_of(self, base, suffix):
        name, typ, ts, ov = self.d[base.lower()]
        self.add(name + suffix, typ, ts, ov)
        return name + suffix

    def pywbem(self, names):
        scopes = dict(CLASS=True, ASSOCIATION=True, INDICATION=True, PROPERTY=True, REFERENCE=True, METHOD=True,
                      PARAMETER=True)
        return [CIMQualifierDeclaration(n, t, scopes=scopes, tosubclass=ts, overridable=ov)
                for n, t, ts, ov in (self.d[x] for x in sorted(names))]

    def mof(self, names):
        out = []
        for n, t, ts, ov in (self.d[x] for x in sorted(names)):
            fl = [{True: 'ToSubclass', False: 'Restricted'}[ts]] if ts is not None else []
            fl += [{True: 'EnableOverride', False: 'DisableOverride'}[ov]] if ov is not None else []
            out.append('Qualifier %s : %s, Scope(any)%s;' % (n, t, ', Flavor(%s)' % ', '.join(fl) if fl else ''))
        return '\n'.join(out) + '\n'


# ------------------------------------------------------------------------------------- declarations (input)
def Q(name, value, ts=None, ov=None):
    return (name, value, ts, ov)


def PR(name, typ='uint8', quals=(), override=None, refclass=None):
    return dict(kind='p', name=name, type=typ, quals=list(quals), override=override, refclass=refclass, params=[])


def ME(name, typ='uint32', quals=(), params=(), override=None):
    return dict(kind='m', name=name, type=typ, quals=list(quals), override=override, refclass=None,
                params=list(params))


def PA(name, typ='string', quals=()):
    return dict(name=name, type=typ, quals=list(quals))


def CL(name, sup=None, quals=(), elems=()):
    return dict(name=name, sup=sup, quals=list(quals), elems=list(elems))


def elem_quals(e):
    """Qualifier uses of an element declaration including the Override qualifier."""
    qs = list(e['quals'])
    if e['override'] is not None:
        qs.append(Q('Override', e['override']))
    return qs


def to_pywbem(decl, qd):
    def mkq(q):
        name, value, ts, ov = q
        return CIMQualifier(name, value, type=qd.d[name.lower()][1], tosubclass=ts, overridable=ov)
    props, meths = [], []
    for e in decl['elems']:
        quals = [mkq(q) for q in elem_quals(e)]
        if e['kind'] == 'p':
            props.append(CIMProperty(e['name'], None, type=e['type'], reference_class=e['refclass'],
                                     qualifiers=quals))
        else:
            params = [CIMParameter(p['name'], p['type'], qualifiers=[mkq(q) for q in p['quals']])
                      for p in e['params']]
            meths.append(CIMMethod(e['name'], return_type=e['type'], parameters=params, qualifiers=quals))
    return CIMClass(decl['name'], superclass=decl['sup'], properties=props, methods=meths,
                    qualifiers=[mkq(q) for q in decl['quals']])


def to_mof(decl, qd):
    def mq(qs):
        if not qs:
            return ''
        items = []
        for name, value, ts, ov in qs:
            typ = qd.d[name.lower()][1]
            s = name + ('(%s)' % ('true' if value else 'false') if typ == 'boolean' else '("%s")' % value)
            fl = ([{True: 'ToSubclass', False: 'Restricted'}[ts]] if ts is not None else []) + \
                 ([{True: 'EnableOverride', False: 'DisableOverride'}[ov]] if ov is not None else [])
            items.append(s + (' : ' + ' '.join(fl) if fl else ''))
        return '[' + ', '.join(items) + '] '
    lines = ['%sclass %s%s {' % (mq(decl['quals']), decl['name'], ' : ' + decl['sup'] if decl['sup'] else '')]
    for e in decl['elems']:
        if e['kind'] == 'p':
            typ = e['refclass'] + ' REF' if e['type'] == 'reference' else e['type']
            lines.append('  %s%s %s;' % (mq(elem_quals(e)), typ, e['name']))
        else:
            ps = ', '.join('%s%s %s' % (mq(p['quals']), p['type'], p['name']) for p in e['params'])
            lines.append('  %s%s %s(%s);' % (mq(elem_quals(e)), e['type'], e['name'], ps))
    lines.append('};')
    return '\n'.join(lines) + '\n'


def focus(decls, qd, elem=None):
    """MOF text of a declaration list reduced to one element name (the replayable input of a violation)."""
    out = []
    for d in decls:
        dd = dict(d)
        if elem is not None:
            dd['elems'] = [e for e in d['elems'] if e['name'].lower() in (elem.lower(), 'k')]
        out.append(to_mof(dd, qd))
    return ''.join(out)


# ------------------------------------------------------------------------------------- reference resolver
class Reject(Exception):
    """The model demands that the server refuses the class."""


def init_qual(q, qd):
    name, value, ts, ov = q
    _, _, dts, dov = qd.d[name.lower()]
    ets = ts if ts is not None else (True if dts is None else dts)
    eov = ov if ov is not None else (True if dov is None else dov)
    return dict(name=name, value=value, ts=ets, ov=eov, prop=False, why='local', decl_why='local')


def merge_quals(declared, inherited, qd, soft, shadow=None):
    """Qualifiers of something the class writes down (`declared`), given the same thing in the superclass.
    `shadow`: restricted qualifiers (name -> overridable) of the nearest ancestor that wrote the element down, if
    the classes in between did not: for the model they ended there, so writing them again is a local qualifier."""
    out = {}
    for q in declared:
        out[q[0].lower()] = init_qual(q, qd)
    for ln, ov in (shadow or {}).items():
        if ln in out:
            out[ln]['why'] = out[ln]['decl_why'] = 'local-over-restricted'
            if not ov:
                soft.append(ln)
    for ln, iq in (inherited or {}).items():
        if not iq['ts']:
            # restricted: stays in the superclass; what the subclass writes is its own
            if ln in out:
                out[ln]['why'] = out[ln]['decl_why'] = 'local-over-restricted'
                if not iq['ov']:
                    soft.append(ln)     # Restricted + DisableOverride written again: either outcome accepted
            continue
        if ln in out:
            if not iq['ov']:
                if out[ln]['value'] != iq['value']:
                    raise Reject('disableoverride-qualifier-changed')
                out[ln]['prop'] = None      # same value written again: flag left open
                out[ln]['ov'] = False
                out[ln]['why'] = out[ln]['decl_why'] = 'same-as-inherited'
        else:
            c = dict(iq)
            c['prop'] = True
            c['why'] = 'inherited'
            out[ln] = c
    return out


def inherit_quals(quals):
    """Qualifiers of an element that the subclass does not write down at all."""
    out = {}
    for ln, iq in quals.items():
        if iq['ts']:
            c = dict(iq)
            c['prop'] = True
            c['why'] = 'inherited'
            out[ln] = c
    return out


def resolve(decl, sup, qd):
    """-> (resolved class, soft) or raises Reject.  `sup` is the resolved superclass or None."""
    soft = []
    cname = decl['name']
    rc = dict(name=cname, sup=low(decl['sup']), props={}, meths={}, redeclared=set(),
              quals=merge_quals(decl['quals'], sup['quals'] if sup else None, qd, soft))
    for kind, key in (('p', 'props'), ('m', 'meths')):
        inh = sup[key] if sup else {}
        res = {}
        for e in decl['elems']:
            if e['kind'] != kind:
                continue
            ln = e['name'].lower()
            if ln in inh:
                ie = inh[ln]
                if e['override'] is None:
                    raise Reject('redeclared-without-override')
                if e['type'] != ie['type']:
                    raise Reject('override-changes-type')
                re_ = dict(kind=kind, name=e['name'], type=e['type'], refclass=low(e['refclass']),
                           origin=ie['origin'], propagated=None, how='override', shadow={},
                           quals=merge_quals(elem_quals(e), ie['quals'], qd, soft, ie['shadow']), params={})
                if kind == 'm':
                    for p in e['params']:
                        pl = p['name'].lower()
                        ip = ie['params'].get(pl)
                        pq = merge_quals(p['quals'], ip['quals'] if ip else None, qd, soft)
                        re_['params'][pl] = dict(name=p['name'], type=p['type'], quals=pq,
                                                 how='redeclared' if ip else 'new')
                    for pl, ip in ie['params'].items():
                        if pl not in re_['params']:
                            re_['params'][pl] = dict(name=ip['name'], type=ip['type'],
                                                     quals=inherit_quals(ip['quals']), how='inherited')
            else:
                re_ = dict(kind=kind, name=e['name'], type=e['type'], refclass=low(e['refclass']),
                           origin=cname.lower(), propagated=False, how='new', shadow={},
                           quals=merge_quals(elem_quals(e), None, qd, soft), params={})
                for p in e['params']:
                    re_['params'][p['name'].lower()] = dict(name=p['name'], type=p['type'], how='new',
                                                            quals=merge_quals(p['quals'], None, qd, soft))
            res[ln] = re_
        for ln, ie in inh.items():
            if ln not in res:
                c = dict(ie)
                c['propagated'] = True
                c['how'] = 'inherited'
                c['shadow'] = dict(ie['shadow'])
                c['shadow'].update({q: v['ov'] for q, v in ie['quals'].items() if not v['ts']})
                c['quals'] = inherit_quals(ie['quals'])
                c['params'] = {pl: dict(ip, quals=inherit_quals(ip['quals']), how='inherited')
                               for pl, ip in ie['params'].items()}
                res[ln] = c
        rc[key] = res
    return rc, soft


# ------------------------------------------------------------------------------------- canonical form of answers
def canon_quals(quals):
    return {k.lower(): dict(name=q.name, value=q.value, prop=q.propagated, ts=q.tosubclass, ov=q.overridable)
            for k, q in quals.items()}


def canon(cls):
    out = dict(name=cls.classname, sup=low(cls.superclass), quals=canon_quals(cls.qualifiers), props={}, meths={})
    for k, p in cls.properties.items():
        out['props'][k.lower()] = dict(kind='p', name=p.name, type=p.type, refclass=low(p.reference_class),
                                       origin=low(p.class_origin), propagated=p.propagated,
                                       quals=canon_quals(p.qualifiers), params={})
    for k, m in cls.methods.items():
        out['meths'][k.lower()] = dict(
            kind='m', name=m.name, type=m.return_type, refclass=None, origin=low(m.class_origin),
            propagated=m.propagated, quals=canon_quals(m.qualifiers),
            params={pk.lower(): dict(name=p.name, type=p.type, quals=canon_quals(p.qualifiers))
                    for pk, p in m.parameters.items()})
    return out


def diff_quals(exp, obs, slot, elem, param, out, check_prop=True):
    for ln, eq in exp.items():
        oq = obs.get(ln)
        if oq is None:
            if not eq.get('opt'):
                out.append(dict(kind='qualifier-missing', slot=slot, elem=elem, param=param, qual=ln,
                                why=eq.get('why'), decl_why=eq.get('decl_why'), expected=eq['value'],
                                observed=None))
            continue
        if oq['value'] != eq['value']:
            out.append(dict(kind='qualifier-value-wrong', slot=slot, elem=elem, param=param, qual=ln,
                            why=eq.get('why'), expected=eq['value'], observed=oq['value']))
        elif check_prop and eq['prop'] is not None and bool(oq['prop']) != eq['prop']:
            out.append(dict(kind='qualifier-propagated-flag-wrong', slot=slot, elem=elem, param=param, qual=ln,
                            why=eq.get('why'), expected=eq['prop'], observed=oq['prop']))
    for ln, oq in obs.items():
        if ln not in exp:
            out.append(dict(kind='qualifier-extra', slot=slot, elem=elem, param=param, qual=ln, why=None,
                            expected=None, observed=oq['value'], obs_ts=oq['ts']))


def diff_class(exp, obs):
    """List of differences between an expected (model or projected) class and a canonical server answer."""
    out = []
    if exp['name'].lower() != obs['name'].lower():
        out.append(dict(kind='classname-wrong', slot='class', elem=None, expected=exp['name'], observed=obs['name']))
    if exp['sup'] != obs['sup']:
        out.append(dict(kind='superclass-wrong', slot='class', elem=None, expected=exp['sup'], observed=obs['sup']))
    diff_quals(exp['quals'], obs['quals'], 'class', None, None, out)
    for key, slot in (('props', 'property'), ('meths', 'method')):
        for ln, ee in exp[key].items():
            oe = obs[key].get(ln)
            if oe is None:
                if not ee.get('opt'):
                    out.append(dict(kind='element-missing', slot=slot, elem=ln, how=ee.get('how'), expected=ln,
                                    observed=None))
                continue
            if (oe['type'], oe['refclass']) != (ee['type'], ee['refclass']):
                out.append(dict(kind='element-type-wrong', slot=slot, elem=ln, how=ee.get('how'),
                                expected=(ee['type'], ee['refclass']), observed=(oe['type'], oe['refclass'])))
            if oe['origin'] != ee['origin']:
                out.append(dict(kind='class-origin-wrong', slot=slot, elem=ln, how=ee.get('how'),
                                expected=ee['origin'], observed=oe['origin']))
            if ee['propagated'] is not None and bool(oe['propagated']) != ee['propagated']:
                out.append(dict(kind='propagated-flag-wrong', slot=slot, elem=ln, how=ee.get('how'),
                                expected=ee['propagated'], observed=oe['propagated']))
            diff_quals(ee['quals'], oe['quals'], slot, ln, None, out)
            for pl, ep in ee['params'].items():
                op = oe['params'].get(pl)
                if op is None:
                    out.append(dict(kind='parameter-missing', slot='parameter', elem=ln, param=pl,
                                    how=ep.get('how'), expected=pl, observed=None))
                    continue
                if op['type'] != ep['type']:
                    out.append(dict(kind='parameter-type-wrong', slot='parameter', elem=ln, param=pl,
                                    how=ep.get('how'), expected=ep['type'], observed=op['type']))
                # the propagated flag of parameter qualifiers is not part of the statement
                sub = []
                diff_quals(ep['quals'], op['quals'], 'parameter', ln, pl, sub, check_prop=False)
                for x in sub:
                    x['how'] = ep.get('how')
                    x['elem_how'] = ee.get('how')
                out.extend(sub)
            for pl in oe['params']:
                if pl not in ee['params']:
                    out.append(dict(kind='parameter-extra', slot='parameter', elem=ln, param=pl, expected=None,
                                    observed=pl))
        for ln in obs[key]:
            if ln not in exp[key]:
                out.append(dict(kind='element-extra', slot=slot, elem=ln, expected=None, observed=ln))
    return out


def classify(d, rc, sup_rc):
    """Stable id of one difference between the model and the unfiltered GetClass answer."""
    kind, slot = d['kind'], d['slot']
    if kind == 'qualifier-missing' and slot == 'class' and d['why'] == 'inherited':
        # _resolve_class never merges class-level qualifiers of the superclass
        return 'known:class-qualifier-not-propagated'
    if kind == 'qualifier-extra' and slot in ('property', 'method'):
        key = 'props' if slot == 'property' else 'meths'
        me = rc[key].get(d['elem'])
        se = sup_rc[key].get(d['elem']) if sup_rc else None
        if me and me['how'] == 'inherited' and se and d['qual'] in se['quals'] and not se['quals'][d['qual']]['ts']:
            # an element that is not redeclared is copied with all qualifiers, restricted ones included
            return 'known:restricted-qualifier-kept-on-inherited-element'
    if kind == 'qualifier-extra' and slot == 'parameter':
        me = rc['meths'].get(d['elem'])
        se = sup_rc['meths'].get(d['elem']) if sup_rc else None
        if me and se and me['params'].get(d['param'], {}).get('how') == 'inherited':
            sp = se['params'].get(d['param'])
            if sp and d['qual'] in sp['quals'] and not sp['quals'][d['qual']]['ts']:
                return 'known:restricted-qualifier-kept-on-inherited-parameter'
    if kind == 'qualifier-propagated-flag-wrong' and d['why'] == 'local-over-restricted' and d['observed']:
        # a qualifier written in this class over a restricted (hence not inherited) one is marked propagated
        return 'known:restricted-qualifier-redeclared-marked-propagated'
    if kind == 'qualifier-missing' and slot in ('property', 'method') and d['why'] == 'inherited' \
            and d.get('decl_why') == 'same-as-inherited':
        # a DisableOverride qualifier repeated with the same value keeps unset flavors (no _init_qualifier) and
        # is then treated as restricted one level further down
        return 'known:repeated-disableoverride-qualifier-not-propagated-further'
    if kind == 'qualifier-missing' and slot == 'parameter' and d['why'] == 'inherited' \
            and d.get('how') == 'redeclared':
        # parameters of an overriding method that are written again get no inherited qualifiers
        return 'known:parameter-qualifier-not-inherited-by-redeclared-parameter'
    return '%s-on-%s' % (kind, slot) if kind.startswith('qualifier') else kind


# ------------------------------------------------------------------------------------- repository driver
TWIN = 'root/twin'


def new_conn(qd, names=()):
    """A fresh mock server with the named qualifier declarations (lower-cased names)."""
    conn = FakedWBEMConnection()
    for q in qd.pywbem(names):
        conn.SetQualifier(q)
    return conn


def qual_names(decl):
    out = {'override'}
    for q in decl['quals']:
        out.add(q[0].lower())
    for e in decl['elems']:
        out.update(q[0].lower() for q in e['quals'])
        for p in e['params']:
            out.update(q[0].lower() for q in p['quals'])
    return out


def full_class(conn, name):
    return canon(conn.GetClass(name, LocalOnly=False, IncludeQualifiers=True, IncludeClassOrigin=True))


class Repo:
    """A server repository together with the model of what it should contain."""

    def __init__(self, qd, path='CreateClass'):
        self.qd = qd
        self.path = path
        self.conn = new_conn(qd)
        self.twin = None        # second namespace that receives THE SAME request objects again (CreateClass/ModifyClass path)
        if path != 'MOF':
            self.conn.add_namespace(TWIN)
            self.twin = TWIN
        self.have = set()       # qualifier declarations already in the repository
        self.decls = []         # accepted declarations in creation order
        self.model = {}         # lname -> resolved class
        self.tried = []         # every declaration handed to the server
        self.diffs = {}         # lname -> set of difference signatures of the last check (cascade suppression)
        self.diverged = False   # the server accepted what the model refuses: class set no longer comparable
        self.twin_off = False   # the twin namespace fell behind (reported once)

    def info(self, elem=None, **kw):
        d = dict(path=self.path, mof=focus(self.tried, self.qd, elem))
        d.update(kw)
        return d

    def submit(self, decl, op='create'):
        """Create (or modify) one class and compare the outcome with the model.
        -> True accepted by both, False refused by both, None after a disagreement (reported)."""
        self.tried.append(decl)
        sup = self.model.get(low(decl['sup'])) if decl['sup'] else None
        if decl['sup'] and sup is None:
            verdict, rc, soft = 'reject', None, []
            why = 'superclass-missing'
        else:
            try:
                rc, soft = resolve(decl, sup, self.qd)
                verdict, why = 'ok', None
            except Reject as r:
                verdict, rc, soft, why = 'reject', None, [], str(r)
        err = None
        missing = qual_names(decl) - self.have
        try:
            if self.path == 'MOF' and op == 'create':
                with contextlib.redirect_stdout(SINK):
                    self.conn.compile_mof_string(self.qd.mof(missing))      # not rolled back with the class
                    self.have |= missing
                    self.conn.compile_mof_string(to_mof(decl, self.qd))
            else:
                for q in self.qd.pywbem(missing):
                    self.conn.SetQualifier(q)
                    if self.twin:
                        self.conn.SetQualifier(q, namespace=self.twin)
                self.have |= missing
                request = to_pywbem(decl, self.qd)
                if op == 'modify':
                    self.conn.ModifyClass(request)
                else:
                    self.conn.CreateClass(request)
                if self.twin and not self.twin_off:
                    # a caller may use its CIMClass object for the next request: the identical hierarchy in a second
                    # namespace is built from the very same objects and must resolve to the very same classes
                    try:
                        if op == 'modify':
                            self.conn.ModifyClass(request, namespace=self.twin)
                        else:
                            self.conn.CreateClass(request, namespace=self.twin)
                    except Exception as e2:         # noqa
                        R.violation('%s-refuses-the-request-object-when-it-is-used-again' % op,
                                    **self.info(cls=decl['name'], error=repr(e2)[:200]))
                        self.twin_off = True
        except CIMError as e:
            err = e.status_code
        except Error as e:
            ce = getattr(e, 'cim_error', None)
            err = ce.status_code if isinstance(ce, CIMError) else 'Error:' + type(e).__name__
        except Exception as e:      # noqa
            vid = '%s-raises-%s' % (op, type(e).__name__)
            if isinstance(e, AttributeError) and "'CIMParameter' object has no attribute 'propagated'" in str(e) \
                    and sup and self.omits_parameter(decl, sup):
                # the copy of a not repeated parameter is given an attribute CIMParameter does not have
                vid = 'known:override-method-omitting-parameters-raises-AttributeError'
            R.violation(vid, **self.info(cls=decl['name'], error=repr(e)[:200]))
            return None
        if verdict == 'reject':
            if err is None:
                vid = '%s-accepted-%s' % (op, why)
                if why == 'disableoverride-qualifier-changed':
                    vid = self.classify_accept(decl, sup, vid)
                R.violation(vid, **self.info(cls=decl['name']))
                self.diverged = True
                return None
            want = INVALID_SUPERCLASS if why == 'superclass-missing' else INVALID_PARAMETER
            # the MOF compiler turns both refusals into a search for the missing class (MOFDependencyError)
            if err != want and not (self.path == 'MOF' and op == 'create' and err == 'Error:MOFDependencyError'):
                R.violation('%s-rejected-with-wrong-status' % op, **self.info(cls=decl['name'], expected=want,
                                                                              observed=err, reason=why))
            return False
        if err is not None:
            if soft and (err == INVALID_PARAMETER or (self.path == 'MOF' and err == 'Error:MOFDependencyError')):
                return False            # Restricted + DisableOverride written again: refusal is fine too
            vid = '%s-refused-valid-class' % op
            if (err == INVALID_PARAMETER or (self.path == 'MOF' and err == 'Error:MOFDependencyError')) \
                    and sup and self.repeats_below_repeat(decl, sup):
                # same cause as 'not-propagated-further': the repeated qualifier now counts as restricted and,
                # with DisableOverride set on the qualifier use itself (as the MOF compiler does, or the caller),
                # writing it a third time is refused
                vid = 'known:repeated-disableoverride-qualifier-refused-further-down'
            R.violation(vid, **self.info(cls=decl['name'], status=err))
            return None
        if op == 'create':
            self.decls.append(decl)
        else:
            self.decls = [decl if d['name'].lower() == decl['name'].lower() else d for d in self.decls]
        self.model[decl['name'].lower()] = rc
        return True

    def submit_all(self, decls):
        """Create a list of classes; stops at the first disagreement with the model.  The MOF path compiles
        everything in one go if the model accepts every class (one parser per repository), else one by one."""
        if self.path == 'MOF':
            model, clean = dict(self.model), True
            for dcl in decls:
                try:
                    rc, soft = resolve(dcl, model.get(low(dcl['sup'])), self.qd)
                except Reject:
                    clean = False
                    break
                if soft or (dcl['sup'] and low(dcl['sup']) not in model):
                    clean = False
                    break
                model[dcl['name'].lower()] = rc
            if clean:
                missing = set().union(*[qual_names(d) for d in decls]) - self.have
                text = self.qd.mof(missing) + ''.join(to_mof(d, self.qd) for d in decls)
                try:
                    with contextlib.redirect_stdout(SINK):
                        self.conn.compile_mof_string(text)
                    self.have |= missing
                    self.model = model
                    self.decls += decls
                    self.tried += decls
                    return True
                except Exception:       # noqa  - start over and find the refused class one by one
                    self.conn = new_conn(self.qd)
                    self.have = set()
        for dcl in decls:
            if self.submit(dcl) is None:
                return False
        return True

    @staticmethod
    def repeats_below_repeat(decl, sup):
        for q in decl['quals']:
            iq = sup['quals'].get(q[0].lower())
            if iq and iq['decl_why'] == 'same-as-inherited' and iq['value'] == q[1]:
                return True
        for e in decl['elems']:
            ie = sup['props' if e['kind'] == 'p' else 'meths'].get(e['name'].lower())
            for q in (e['quals'] if ie else []):
                iq = ie['quals'].get(q[0].lower())
                if iq and iq['decl_why'] == 'same-as-inherited' and iq['value'] == q[1]:
                    return True
        return False

    @staticmethod
    def omits_parameter(decl, sup):
        for e in decl['elems']:
            ie = sup['meths'].get(e['name'].lower()) if e['kind'] == 'm' else None
            if ie and set(ie['params']) - {p['name'].lower() for p in e['params']}:
                return True
        return False

    def classify_accept(self, decl, sup, vid):
        """The model refuses a changed DisableOverride qualifier; name where the server let it through."""
        where = set()
        if sup:
            for q in decl['quals']:
                iq = sup['quals'].get(q[0].lower())
                if iq and iq['ts'] and not iq['ov'] and iq['value'] != q[1]:
                    where.add('class')
            for e in decl['elems']:
                ie = sup['props' if e['kind'] == 'p' else 'meths'].get(e['name'].lower())
                if not ie:
                    continue
                for q in e['quals']:
                    iq = ie['quals'].get(q[0].lower())
                    if iq and iq['ts'] and not iq['ov'] and iq['value'] != q[1]:
                        where.add('element-below-repeat' if iq['decl_why'] == 'same-as-inherited' else 'element')
                for p in e['params']:
                    ip = ie['params'].get(p['name'].lower())
                    for q in p['quals']:
                        iq = ip['quals'].get(q[0].lower()) if ip else None
                        if iq and iq['ts'] and not iq['ov'] and iq['value'] != q[1]:
                            where.add('parameter')
        if where == {'class'}:
            return 'known:class-qualifier-disableoverride-change-accepted'
        if where == {'parameter'}:
            return 'known:parameter-qualifier-disableoverride-change-accepted'
        if where == {'element-below-repeat'}:
            return 'known:repeated-disableoverride-qualifier-change-accepted-further-down'
        return vid

    def check_class(self, lname, ctx, casemap=None):
        """Unfiltered GetClass of one class against the model."""
        rc = self.model[lname]
        try:
            obs = full_class(self.conn, rc['name'])
        except Exception as e:      # noqa
            R.violation('getclass-raises-%s' % type(e).__name__, **self.info(cls=rc['name'], step=ctx,
                                                                             error=repr(e)[:200]))
            return None
        if self.twin and not self.twin_off:
            try:
                obs2 = canon(self.conn.GetClass(rc['name'], namespace=self.twin, LocalOnly=False, IncludeQualifiers=True,
                                                IncludeClassOrigin=True))
            except Exception as e:      # noqa
                obs2 = 'GetClass raises ' + repr(e)[:200]
            if obs2 != obs:
                dd = diff_class(obs, obs2) if isinstance(obs2, dict) else [obs2]
                R.violation('request-object-used-again-resolves-to-a-different-class',
                            **self.info(cls=rc['name'], step=ctx, first_use_vs_second_use=dd[:4]))
                self.twin_off = True
        sup = self.model.get(rc['sup']) if rc['sup'] else None
        supdiffs = self.diffs.get(rc['sup'], set()) if rc['sup'] else set()
        mine = self.diffs[lname] = set()
        for d in diff_class(rc, obs):
            sig = (d['kind'], d['slot'], d.get('elem'), d.get('param'), d.get('qual'), repr(d.get('observed')))
            mine.add(sig)
            if sig in supdiffs and self.untouched(rc, d):
                continue        # the superclass already shows this difference and the class copies it verbatim
            vid = classify(d, rc, sup)
            case = casemap(d) if casemap else None
            R.violation(vid, **self.info(elem=d.get('elem'), cls=rc['name'], case=case, step=ctx,
                                         diff={k: v for k, v in d.items() if k not in ('obs_ts',)}))
        return obs

    @staticmethod
    def untouched(rc, d):
        if d['slot'] == 'class':
            return False
        e = rc['props' if d['slot'] == 'property' else 'meths'].get(d.get('elem'))
        if e is None:
            return d['kind'] == 'element-extra'
        if e['how'] == 'inherited':
            return True
        p = e['params'].get(d.get('param')) if d.get('param') else None
        return bool(p) and p['how'] == 'inherited'

    def check_all(self, ctx, casemap=None):
        for dcl in self.decls:          # creation order: superclasses first
            self.check_class(dcl['name'].lower(), ctx, casemap)
        if not self.diverged:
            self.check_names(ctx)

    def check_names(self, ctx):
        try:
            got = sorted(self.conn.EnumerateClassNames(DeepInheritance=True))
        except Exception as e:      # noqa
            R.violation('enumerateclassnames-raises-%s' % type(e).__name__, **self.info(step=ctx))
            return
        want = sorted(rc['name'] for rc in self.model.values())
        if got != want:
            R.violation('class-set-differs', **self.info(step=ctx, expected=want, observed=got))


# ------------------------------------------------------------------------------------- projection for the flags
def project(full, lo, iq, ico, pl):
    """What a filtered GetClass answer must be, given the server's own unfiltered (canonical) answer."""
    out = dict(name=full['name'], sup=full['sup'], quals={}, props={}, meths={})
    lo = True if lo is None else lo
    iq = True if iq is None else iq
    ico = False if ico is None else ico
    plset = None if pl is None else {p.lower() for p in ([pl] if isinstance(pl, str) else pl)}

    def fq(quals, force_opt=False):
        if not iq:
            return {}
        res = {}
        for ln, q in quals.items():
            c = dict(q, prop=None)
            if lo and q['prop']:
                c['opt'] = True         # DSP0200 lets LocalOnly drop inherited qualifiers; not demanded here
            res[ln] = c
        return res
    out['quals'] = fq(full['quals'])
    for key in ('props', 'meths'):
        for ln, e in full[key].items():
            if key == 'props' and plset is not None and ln not in plset:
                continue
            c = dict(e, propagated=e['propagated'])
            if lo:
                is_override = 'override' in e['quals'] and not e['quals']['override']['prop']
                if e['propagated'] and not is_override:
                    continue            # inherited and not redeclared: removed
                if e['propagated'] and is_override:
                    c['opt'] = True     # redeclared: DSP0200 keeps it, the statement only says 'removes'
            if not ico:
                c['origin'] = None
            c['quals'] = fq(e['quals'])
            c['params'] = {pl_: dict(p, quals=fq(p['quals'])) for pl_, p in e['params'].items()}
            out[key][ln] = c
    return out


def diff_exact(exp, obs):
    """diff_class plus the propagated flags as they are (a projection never changes them)."""
    out = diff_class(exp, obs)
    for key in ('props', 'meths'):
        for ln, ee in exp[key].items():
            oe = obs[key].get(ln)
            if oe is not None and bool(oe['propagated']) != bool(ee['propagated']):
                out.append(dict(kind='propagated-flag-changed', slot=key, elem=ln, expected=ee['propagated'],
                                observed=oe['propagated']))
    return out


BOOL3 = (None, True, False)


def prop_lists(full):
    names = [e['name'] for e in full['props'].values()]
    inh = [e['name'] for e in full['props'].values() if e['propagated']]
    loc = [e['name'] for e in full['props'].values() if not e['propagated']]
    pls = [None, [], ['NoSuchProperty']]
    if names:
        pls.append([names[0]])
        pls.append(names[-1].swapcase())                        # a single string, differently cased
        pls.append((names[0].upper(), names[0].lower(), 'nosuch', names[-1]))   # tuple with duplicates
        pls.append(list(names))
    if inh:
        pls.append([inh[0].swapcase()])
    if loc:
        pls.append([loc[-1], 'K'])
    return pls


def check_flags(repo, ctx, budget=None):
    """All request flag combinations of GetClass and EnumerateClasses on every class of a repository."""
    conn = repo.conn
    fulls = {}
    for ln, rc in repo.model.items():
        try:
            fulls[ln] = full_class(conn, rc['name'])
        except Exception:       # noqa  (reported by check_class)
            return
    for ln, rc in repo.model.items():
        full = fulls[ln]
        reqname = rc['name'].swapcase()
        for lo, iq, ico in itertools.product(BOOL3, repeat=3):
            for pi, pl in enumerate(prop_lists(full)):
                R.case(('getclass-flags', ctx, ln, lo, iq, ico, pi))
                kw = {}
                if lo is not None:
                    kw['LocalOnly'] = lo
                if iq is not None:
                    kw['IncludeQualifiers'] = iq
                if ico is not None:
                    kw['IncludeClassOrigin'] = ico
                if pl is not None:
                    kw['PropertyList'] = pl
                try:
                    obs = canon(conn.GetClass(reqname, **kw))
                except Exception as e:      # noqa
                    R.violation('getclass-flags-raises-' + type(e).__name__, **repo.info(cls=reqname, flags=kw,
                                                                                         error=repr(e)[:200]))
                    continue
                exp = project(full, lo, iq, ico, pl)
                ds = diff_exact(exp, obs)
                if ds:
                    kinds = sorted({d['kind'] for d in ds})
                    R.violation('getclass-flags:' + kinds[0], **repo.info(cls=reqname, flags=kw, diff=ds[:3]))
    # EnumerateClasses: same projection per returned class
    parents = {ln: rc['sup'] for ln, rc in repo.model.items()}
    for start in [None] + list(repo.model):
        for di in BOOL3:
            want = hier_expect(parents, start, di)
            for lo, iq, ico in itertools.product(BOOL3, repeat=3):
                R.case(('enumclasses-flags', ctx, start, di, lo, iq, ico))
                kw = {}
                if start is not None:
                    kw['ClassName'] = repo.model[start]['name'].swapcase()
                for k, v in (('DeepInheritance', di), ('LocalOnly', lo), ('IncludeQualifiers', iq),
                             ('IncludeClassOrigin', ico)):
                    if v is not None:
                        kw[k] = v
                try:
                    res = conn.EnumerateClasses(**kw)
                except Exception as e:      # noqa
                    R.violation('enumerateclasses-raises-' + type(e).__name__, **repo.info(flags=kw,
                                                                                           error=repr(e)[:200]))
                    continue
                got = sorted(c.classname.lower() for c in res)
                if got != sorted(want):
                    R.violation('enumerateclasses-set-differs', **repo.info(flags=kw, expected=sorted(want),
                                                                            observed=got))
                    continue
                for c in res:
                    exp = project(fulls[c.classname.lower()], lo, iq, ico, None)
                    ds = diff_exact(exp, canon(c))
                    if not ds:
                        continue
                    lost = [d for d in ds if d['kind'] == 'class-origin-wrong' and d['observed'] is None]
                    oc = canon(c)
                    present = sum(1 for k in ('props', 'meths') for ln in exp[k] if ln in oc[k])
                    if ico and lost and len(lost) == present:
                        # _imeth_EnumerateClasses looks the flag up under a misspelled key: always off
                        R.violation('known:enumerateclasses-includeclassorigin-ignored',
                                    **repo.info(cls=c.classname, flags=kw, diff=lost[:2]))
                        ds = [d for d in ds if d not in lost]
                    if ds:
                        R.violation('enumerateclasses-flags:' + sorted({d['kind'] for d in ds})[0],
                                    **repo.info(cls=c.classname, flags=kw, diff=ds[:3]))


# ------------------------------------------------------------------------------------- hierarchy model
def hier_children(parents, start):
    return [c for c, p in parents.items() if p == start]


def hier_subtree(parents, start):
    """Proper descendants of `start` (None: every class), by walking each class up to the root."""
    out = []
    for c in parents:
        p = parents[c]
        while p is not None and p != start:
            p = parents[p]
        if start is None or p == start:
            out.append(c)
    return out


def hier_expect(parents, start, deep):
    if deep:
        return hier_subtree(parents, start) if start is not None else list(parents)
    return hier_children(parents, start)


@functools.lru_cache(maxsize=None)
def forests(n):
    """All unordered rooted forests with n nodes as canonical nested tuples (a tree is the tuple of its subtrees)."""
    if n == 0:
        return ((),)
    res = set()
    for k in range(1, n + 1):
        for t in forests(k - 1):
            for rest in forests(n - k):
                res.add(tuple(sorted((t,) + rest, reverse=True)))
    return tuple(sorted(res, reverse=True))


def forest_depth(f):
    return 0 if not f else 1 + max(forest_depth(t) for t in f)


def forest_fanout(f):
    return max([len(f)] + [forest_fanout(t) for t in f]) if f else 0


def forest_parents(f):
    """Preorder numbering -> list of parent indices (None for roots)."""
    par = []

    def walk(t, p):
        i = len(par)
        par.append(p)
        for c in t:
            walk(c, i)
    for t in f:
        walk(t, None)
    return par


NAMES = ['Alpha', 'bETA', 'GAMMA', 'delta', 'Eps_1', 'ZETA', 'eta', 'Theta9']


def linear_extensions(par, limit):
    """All creation orders with parents first, or None if there are more than `limit`."""
    n = len(par)
    out = []

    def rec(done, order):
        if len(out) > limit:
            return
        if len(order) == n:
            out.append(tuple(order))
            return
        for i in range(n):
            if i not in done and (par[i] is None or par[i] in done):
                done.add(i)
                order.append(i)
                rec(done, order)
                order.pop()
                done.discard(i)
    rec(set(), [])
    return out if len(out) <= limit else None


def sample_orders(par, k):
    n = len(par)
    orders = {tuple(range(n))}                      # DFS preorder
    depth = [0] * n
    for i in range(n):
        depth[i] = 0 if par[i] is None else depth[par[i]] + 1
    orders.add(tuple(sorted(range(n), key=lambda i: (depth[i], i))))       # BFS
    orders.add(tuple(sorted(range(n), key=lambda i: (depth[i], -i))))      # BFS, siblings reversed
    tries = 0
    while len(orders) < k and tries < 4 * k:
        tries += 1
        done, order = set(), []
        while len(order) < n:
            ready = [i for i in range(n) if i not in done and (par[i] is None or par[i] in done)]
            i = RND.choice(ready)
            done.add(i)
            order.append(i)
        orders.add(tuple(order))
    return sorted(orders)


def hier_decl(i, par):
    name = NAMES[i]
    if par[i] is None:
        return CL(name, None, [Q('Description', 'root ' + name)],
                  [PR('K', 'string', [Q('Key', True)]), PR('P%d' % i, 'uint8')])
    sup = NAMES[par[i]]
    return CL(name, sup.swapcase() if i % 2 else sup, [], [PR('P%d' % i, 'uint8')])


def build_hier(par, order, qd, with_instances):
    """-> (conn, parents map, instances {lname: [key values]}) or None after reporting."""
    conn = new_conn(qd, ('key', 'description'))
    n = len(par)
    desc = dict(parents=[None if p is None else NAMES[p] for p in par], names=NAMES[:n],
                order=[NAMES[i] for i in order])
    for i in order:
        try:
            conn.CreateClass(to_pywbem(hier_decl(i, par), qd))
        except Exception as e:      # noqa
            R.violation('hierarchy-createclass-fails', error=repr(e)[:200], cls=NAMES[i], **desc)
            return None
    parents = {NAMES[i].lower(): (None if par[i] is None else NAMES[par[i]].lower()) for i in range(n)}
    insts = {NAMES[i].lower(): [] for i in range(n)}
    if with_instances:
        for i in range(n):
            for j in range(1 + (i % 2)):
                cn = NAMES[i] if j == 0 else NAMES[i].swapcase()        # creation class name in another case
                kv = 'k%d_%d' % (i, j)
                props = {'K': kv, 'P%d' % i: CIMProperty('P%d' % i, i, type='uint8')}
                try:
                    conn.CreateInstance(CIMInstance(cn, properties=props))
                except Exception as e:      # noqa
                    R.violation('hierarchy-createinstance-fails', error=repr(e)[:200], cls=cn, **desc)
                    return None
                insts[NAMES[i].lower()].append(kv)
    return conn, parents, insts, desc


def names_of(res):
    return sorted(x if isinstance(x, str) else x.classname for x in res)


def check_enum_names(conn, parents, desc, proper):
    """EnumerateClassNames for every start class (and None) x DeepInheritance."""
    for start in [None] + list(parents):
        for di in BOOL3:
            kw = {}
            if start is not None:
                kw['ClassName'] = proper[start].swapcase() if di else proper[start]
            if di is not None:
                kw['DeepInheritance'] = di
            want = sorted(proper[c] for c in hier_expect(parents, start, di))
            try:
                got = names_of(conn.EnumerateClassNames(**kw))
            except Exception as e:      # noqa
                R.violation('enumerateclassnames-raises-' + type(e).__name__, args=kw, error=repr(e)[:200], **desc)
                continue
            if got != want:
                kind = 'duplicates' if len(set(got)) != len(got) else \
                    ('case-of-names' if [g.lower() for g in got] == [w.lower() for w in want] else
                     'subtree' if di else 'children')
                R.violation('enumerateclassnames-wrong-' + kind, args=kw, expected=want, observed=got, **desc)


def check_enum_classes(conn, parents, desc, proper):
    for start in [None] + list(parents):
        for di in BOOL3:
            kw = {}
            if start is not None:
                kw['ClassName'] = proper[start] if di else proper[start].swapcase()
            if di is not None:
                kw['DeepInheritance'] = di
            want = sorted(proper[c] for c in hier_expect(parents, start, di))
            try:
                res = conn.EnumerateClasses(**kw)
            except Exception as e:      # noqa
                R.violation('enumerateclasses-raises-' + type(e).__name__, args=kw, error=repr(e)[:200], **desc)
                continue
            got = names_of(res)
            if got != want:
                R.violation('enumerateclasses-wrong-' + ('subtree' if di else 'children'), args=kw, expected=want,
                            observed=got, **desc)
                continue
            for c in res:
                if low(c.superclass) != parents[c.classname.lower()]:
                    R.violation('enumerateclasses-superclass-wrong', args=kw, cls=c.classname,
                                observed=c.superclass, **desc)


def inst_keys(res):
    out = []
    for x in res:
        path = x if isinstance(x, CIMInstanceName) else x.path
        out.append((path.classname.lower(), path.keybindings['K']))
    return sorted(out)


def expected_insts(parents, insts, start):
    sub = [start] + hier_subtree(parents, start)
    return sorted((c, kv) for c in sub for kv in insts[c])


def check_enum_instances(conn, parents, insts, desc, proper, props_of):
    for start in parents:
        want = expected_insts(parents, insts, start)
        req = proper[start].swapcase() if len(start) % 2 else proper[start]
        try:
            got = inst_keys(conn.EnumerateInstanceNames(req))
        except Exception as e:      # noqa
            R.violation('enumerateinstancenames-raises-' + type(e).__name__, cls=req, error=repr(e)[:200], **desc)
            continue
        if got != want:
            R.violation('enumerateinstancenames-not-the-subtree', cls=req, expected=want, observed=got, **desc)
        byname = {}
        for di in BOOL3:
            kw = {} if di is None else {'DeepInheritance': di}
            try:
                res = conn.EnumerateInstances(req, **kw)
            except Exception as e:      # noqa
                R.violation('enumerateinstances-raises-' + type(e).__name__, cls=req, args=kw, error=repr(e)[:200],
                            **desc)
                continue
            if inst_keys(res) != want:
                R.violation('enumerateinstances-not-the-subtree', cls=req, args=kw, expected=want,
                            observed=inst_keys(res), **desc)
                continue
            for inst in res:
                cn = inst.path.classname.lower()
                names = {p.lower() for p in inst.properties}
                allowed = props_of[cn] if di in (None, True) else props_of[start]
                given = {'k', 'p%d' % [n.lower() for n in NAMES].index(cn)}
                need = given & props_of[start] if di is False else given
                if not names <= allowed:
                    R.violation('enumerateinstances-foreign-properties', cls=req, args=kw,
                                instance=str(inst.path), observed=sorted(names), allowed=sorted(allowed), **desc)
                elif not need <= names:
                    R.violation('enumerateinstances-properties-lost', cls=req, args=kw, instance=str(inst.path),
                                observed=sorted(names), expected=sorted(need), **desc)
            byname[di] = res


def hier_props(parents):
    out = {}
    idx = {n.lower(): i for i, n in enumerate(NAMES)}
    for c in parents:
        s, p = {'k'}, c
        while p is not None:
            s.add('p%d' % idx[p])
            p = parents[p]
        out[c] = s
    return out


def section_hierarchy():
    qd = QDecls()
    maxn = 7 if THOROUGH else 6
    for n in range(1, maxn + 1):
        for f in forests(n):
            if forest_depth(f) > 5 or forest_fanout(f) > 4:
                continue
            par = forest_parents(f)
            proper = {NAMES[i].lower(): NAMES[i] for i in range(n)}
            allx = linear_extensions(par, 24)
            orders = allx if allx is not None else sample_orders(par, 24 if THOROUGH else 6)
            # names for every accepted creation order
            for order in orders:
                R.case(('hier-order', f, order))
                built = build_hier(par, order, qd, False)
                if built is None:
                    continue
                conn, parents, insts, desc = built
                check_enum_names(conn, parents, desc, proper)
            # child before parent is refused and leaves nothing behind
            leaves = [i for i in range(n) if par[i] is not None]
            if leaves:
                R.case(('hier-child-first', f))
                conn = new_conn(qd, ('key', 'description'))
                i = leaves[-1]
                try:
                    conn.CreateClass(to_pywbem(hier_decl(i, par), qd))
                    R.violation('createclass-accepted-superclass-missing', cls=NAMES[i], sup=NAMES[par[i]])
                except CIMError as e:
                    if e.status_code != INVALID_SUPERCLASS:
                        R.violation('createclass-rejected-with-wrong-status', cls=NAMES[i], expected=INVALID_SUPERCLASS,
                                    observed=e.status_code, reason='superclass-missing')
                if names_of(conn.EnumerateClassNames(DeepInheritance=True)):
                    R.violation('refused-class-left-in-repository', cls=NAMES[i])
            # full set of queries on the preorder repository with instances
            R.case(('hier-queries', f))
            built = build_hier(par, tuple(range(n)), qd, True)
            if built is None:
                continue
            conn, parents, insts, desc = built
            props_of = hier_props(parents)
            check_enum_names(conn, parents, desc, proper)
            check_enum_classes(conn, parents, desc, proper)
            check_enum_instances(conn, parents, insts, desc, proper, props_of)
            # queries about a class that does not exist
            for fn, code in ((lambda: conn.EnumerateClassNames(ClassName='NoSuch'), INVALID_CLASS),
                             (lambda: conn.EnumerateClasses(ClassName='NoSuch'), INVALID_CLASS),
                             (lambda: conn.EnumerateInstanceNames('NoSuch'), INVALID_CLASS),
                             (lambda: conn.GetClass('NoSuch'), NOT_FOUND),
                             (lambda: conn.DeleteClass('NoSuch'), NOT_FOUND)):
                try:
                    fn()
                    R.violation('query-on-missing-class-succeeds', expected=code, **desc)
                except CIMError as e:
                    if e.status_code != code:
                        R.violation('query-on-missing-class-wrong-status', expected=code, observed=e.status_code,
                                    **desc)
            check_enum_names(conn, parents, desc, proper)
            # DeleteClass of every class
            for victim in range(n):
                R.case(('hier-delete', f, victim))
                built = build_hier(par, tuple(range(n)), qd, True)
                if built is None:
                    break
                conn, parents, insts, desc = built
                vname = NAMES[victim]
                req = vname.swapcase() if victim % 2 == 0 else vname
                gone = [vname.lower()] + hier_subtree(parents, vname.lower())
                d2 = dict(desc, deleted=req)
                try:
                    conn.DeleteClass(req)
                except Exception as e:      # noqa
                    R.violation('deleteclass-raises-' + type(e).__name__, error=repr(e)[:200], **d2)
                    continue
                rest = {c: p for c, p in parents.items() if c not in gone}
                rinsts = {c: v for c, v in insts.items() if c not in gone}
                got = names_of(conn.EnumerateClassNames(DeepInheritance=True))
                want = sorted(proper[c] for c in rest)
                if got != want:
                    extra = [g for g in got if g not in want]
                    R.violation('deleteclass-' + ('leaves-subtree-classes' if extra else 'removes-foreign-classes'),
                                expected=want, observed=got, **d2)
                    continue
                check_enum_names(conn, rest, d2, proper)
                for c in rest:
                    want_i = expected_insts(rest, rinsts, c)
                    got_i = inst_keys(conn.EnumerateInstanceNames(proper[c]))
                    if got_i != want_i:
                        R.violation('deleteclass-' + ('removes-foreign-instances' if len(got_i) < len(want_i)
                                                      else 'leaves-subtree-instances'),
                                    cls=proper[c], expected=want_i, observed=got_i, **d2)
                for c in gone:
                    try:
                        conn.GetClass(proper[c])
                        R.violation('deleteclass-leaves-subtree-classes', cls=proper[c], **d2)
                    except CIMError as e:
                        if e.status_code != NOT_FOUND:
                            R.violation('getclass-after-delete-wrong-status', observed=e.status_code, **d2)
                # the subtree can be created again and starts without instances
                ok = True
                for i in range(n):
                    if NAMES[i].lower() in gone:
                        try:
                            conn.CreateClass(to_pywbem(hier_decl(i, par), qd))
                        except Exception as e:      # noqa
                            R.violation('recreate-after-deleteclass-fails', cls=NAMES[i], error=repr(e)[:200], **d2)
                            ok = False
                            break
                if ok:
                    for c in gone:
                        got_i = inst_keys(conn.EnumerateInstanceNames(proper[c]))
                        if got_i:
                            R.violation('deleteclass-leaves-subtree-instances', cls=proper[c], observed=got_i,
                                        note='visible after re-creating the deleted classes', **d2)
                    check_enum_names(conn, parents, d2, proper)
                    want_all = {c: expected_insts(parents, {k: (v if k not in gone else [])
                                                            for k, v in insts.items()}, c) for c in parents}
                    for c in parents:
                        got_i = inst_keys(conn.EnumerateInstanceNames(proper[c]))
                        if got_i != want_all[c]:
                            R.violation('instances-wrong-after-delete-and-recreate', cls=proper[c],
                                        expected=want_all[c], observed=got_i, **d2)


# ------------------------------------------------------------------------------------- element cases
SLOTS = ('p', 'm', 'a', 'c')     # property, method, parameter of a method, class level


def gen_cases(d):
    """All (slot, depth, pattern, fkind, qstates) of chain depth d."""
    out = []
    for slot in SLOTS:
        pats = [('D',) * d] if slot == 'c' else [p for p in itertools.product('-D', repeat=d) if 'D' in p]
        for pat in pats:
            k = pat.count('D')
            states = '-nso' if slot == 'a' else '-ns'
            for qs in itertools.product(states, repeat=k):
                if qs[0] in 'so':
                    continue            # nothing inherited at the introducing level
                if not any(s in 'ns' for s in qs):
                    if slot != 'a' or 'o' not in qs:
                        if any(s != '-' for s in qs):
                            continue
                for fi, fk in enumerate(FKINDS):
                    if all(s in '-o' for s in qs) and fi > 0:
                        continue        # no qualifier written: the flavor kind does not matter
                    out.append((slot, d, pat, fi, qs))
    return out


def case_decls(case, idx, qd, variant):
    """Per-level contribution of one case: list over levels of (class quals, elems)."""
    slot, d, pat, fi, qs = case
    base, uts, uov = FKINDS[fi]
    qname = qd.clone_of(base, '_%d' % idx) if slot == 'c' else base
    ename = 'E%d' % idx
    levels = []
    cur = None          # value the model expects to be visible from the superclass ('s' repeats it)
    dts = qd.d[qname.lower()][2]
    ets = uts if uts is not None else (True if dts is None else dts)
    j = 0
    seen = False
    for lvl in range(d):
        if pat[lvl] != 'D':
            levels.append(([], []))
            if not ets:
                cur = None
            continue
        st = qs[j]
        j += 1
        alt = variant and lvl > 0
        qn = qname.swapcase() if alt and lvl % 2 else qname
        if st == 'n':
            val = 'v%d' % lvl
        elif st == 's':
            val = cur if cur is not None else 'v%d' % lvl
        else:
            val = None
        quals = [Q(qn, val, uts, uov)] if val is not None else []
        en = ename.lower() if alt else ename
        ov = (ename.upper() if alt else ename) if seen else None
        if slot == 'c':
            levels.append((quals, []))
        elif slot == 'p':
            levels.append(([], [PR(en, 'uint16', quals, override=ov)]))
        elif slot == 'm':
            params = [PA('X', 'string')] if idx % 2 else []
            levels.append(([], [ME(en, 'uint32', quals, params, override=ov)]))
        else:
            params = [] if st == 'o' else [PA('x' if alt else 'X', 'string', quals),
                                           PA('Y', 'uint8')]
            levels.append(([], [ME(en, 'uint32', [], params, override=ov)]))
        seen = True
        if val is not None:
            cur = val if ets else None
        elif not ets:
            cur = None
    return levels, (qname if slot == 'c' else ename)


def chain_decls(levels_list, d, tag):
    """Combine the per-level contributions of several cases into one chain of d classes."""
    decls = []
    for lvl in range(d):
        name = 'C%s_L%d' % (tag, lvl)
        sup = None if lvl == 0 else 'C%s_L%d' % (tag, lvl - 1)
        if sup and lvl % 2 == 0:
            sup = sup.lower()
        quals, elems = [], []
        if lvl == 0:
            elems.append(PR('K', 'string', [Q('Key', True)]))
        for levels in levels_list:
            quals += levels[lvl][0]
            elems += levels[lvl][1]
        decls.append(CL(name, sup, quals, elems))
    return decls


def model_verdict(case, qd_proto):
    """Does the model accept the chain of this case alone?  -> 'ok' | 'reject' | 'soft'."""
    qd = QDecls()
    levels, _ = case_decls(case, 0, qd, 0)
    decls = chain_decls([levels], case[1], 'x')
    model, anysoft = {}, False
    for dcl in decls:
        try:
            rc, soft = resolve(dcl, model.get(low(dcl['sup'])), qd)
        except Reject:
            return 'reject'
        anysoft = anysoft or bool(soft)
        model[dcl['name'].lower()] = rc
    return 'soft' if anysoft else 'ok'


def run_chain(cases, d, tag, variant, paths, do_modify, do_flags):
    """Run a packed chain (or a single rejecting case) through the given build paths."""
    qd = QDecls()
    levels_list, owner = [], {}
    for i, case in enumerate(cases):
        levels, handle = case_decls(case, i, qd, variant)
        levels_list.append(levels)
        owner[handle.lower()] = case
    decls = chain_decls(levels_list, d, tag)

    def casemap(dif):
        key = dif.get('qual') if dif.get('slot') == 'class' else dif.get('elem')
        c = owner.get((key or '').lower())
        return None if c is None else describe(c, variant)
    for path in paths:
        for case in cases:
            R.case(('elem', path, variant) + case)
        repo = Repo(qd, path)
        if path == 'MOF':
            repo.submit_all(decls)
        else:
            for dcl in decls:
                if not repo.submit(dcl):
                    break
        repo.check_all('resolve' if path == 'CreateClass' else 'resolve-mof', casemap)
        if do_flags and path == 'CreateClass':
            check_flags(repo, 'chain')
        if do_modify and path == 'CreateClass' and len(repo.decls) == d and d > 1:
            leaf = decls[-1]
            for c in cases:
                R.case(('modify-leaf', variant) + c)
            empty = CL(leaf['name'], leaf['sup'].swapcase(), [], [])
            if repo.submit(empty, 'modify'):
                repo.check_class(leaf['name'].lower(), 'modify-to-empty', casemap)
            if repo.submit(leaf, 'modify'):
                repo.check_class(leaf['name'].lower(), 'modify-back', casemap)
            # a class with children is not modifiable; whatever the outcome, the others stay as they are
            mid = decls[0]
            try:
                repo.conn.ModifyClass(to_pywbem(CL(mid['name'], None, [], [PR('K', 'string', [Q('Key', True)])]),
                                                qd))
                R.violation('modifyclass-accepted-class-with-children', **repo.info(cls=mid['name']))
            except CIMError as e:
                if e.status_code != CLASS_HAS_CHILDREN:
                    R.violation('modifyclass-rejected-with-wrong-status', **repo.info(
                        cls=mid['name'], expected=CLASS_HAS_CHILDREN, observed=e.status_code))
            except Exception as e:      # noqa
                R.violation('modify-raises-' + type(e).__name__, **repo.info(cls=mid['name']))
            repo.check_all('after-refused-modify', casemap)


def describe(case, variant):
    slot, d, pat, fi, qs = case
    return dict(slot={'p': 'property', 'm': 'method', 'a': 'parameter', 'c': 'class'}[slot], depth=d,
                declared_at=''.join(pat), flavor=fk_name(FKINDS[fi]), qualifier_per_declaring_level=''.join(qs),
                differently_cased=bool(variant))


def section_elements():
    PACK = 10
    chain_no = [0]
    qd0 = QDecls()
    for d in range(1, 6):
        cases = gen_cases(d)
        if not THOROUGH and d >= 4:
            cases = RND.sample(cases, 260 if d == 4 else 200)
        elif THOROUGH and d == 5:
            cases = RND.sample(cases, 6000)
        ok, solo = {s: [] for s in SLOTS}, []
        for c in cases:
            v = model_verdict(c, qd0)
            (ok[c[0]] if v == 'ok' else solo).append(c)
        for slot in SLOTS:
            lst = ok[slot]
            for i in range(0, len(lst), PACK):
                chunk = lst[i:i + PACK]
                chain_no[0] += 1
                n = chain_no[0]
                variant = n % 2
                paths = ['CreateClass']
                if n % (2 if THOROUGH else 4) == 0:
                    paths.append('MOF')
                run_chain(chunk, d, str(n), variant, paths, do_modify=(n % 3 == 0),
                          do_flags=(n % (40 if THOROUGH else 90) == 1))
        for c in solo:
            chain_no[0] += 1
            n = chain_no[0]
            run_chain([c], d, str(n), n % 2, ['CreateClass'], do_modify=False, do_flags=False)


# ------------------------------------------------------------------------------------- hand-written forests
def run_forest(decls, ctx, qd=None, flags=False, path='CreateClass'):
    qd = qd or QDecls()
    repo = Repo(qd, path)
    repo.submit_all(decls)
    repo.check_all(ctx)
    if flags:
        check_flags(repo, ctx)
    return repo


def section_special():
    key = PR('K', 'string', [Q('Key', True)])
    # sibling trees: one branch overrides, the other does not, in both creation orders, both build paths
    for ti, typ in enumerate(('uint8', 'string', 'datetime', 'boolean')):
        root = CL('S_Root', None, [Q('Description', 'root'), Q('QTD', 'fixed'), Q('QRE', 'only-here')],
                  [key, PR('Shared', typ, [Q('QTE', 'r'), Q('QTD', 'r'), Q('QRE', 'r')]),
                   ME('Op', 'uint32', [Q('QTE', 'op')], [PA('In', 'string', [Q('QTE', 'in'), Q('QRE', 'in-r')]),
                                                         PA('Out', typ, [Q('QTD', 'out')])])])
        left = CL('S_Left', 's_root', [Q('Description', 'left')],
                  [PR('shared', typ, [Q('QTE', 'l')], override='Shared'), PR('LeftOnly', 'uint8'),
                   ME('Op', 'uint32', [Q('QRE', 'l-op')], [PA('in', 'string'), PA('Out', typ, [Q('QTD', 'out')])],
                      override='OP')])
        right = CL('S_Right', 'S_ROOT', [], [PR('RightOnly', 'uint8', [Q('QRE', 'ro')])])
        ll = CL('S_LeftLeaf', 'S_Left', [Q('QTD', 'fixed')],
                [PR('SHARED', typ, [Q('QTD', 'r')], override='shared'),
                 ME('Extra', 'string', [], [PA('A', 'uint8')])])
        rl = CL('S_RightLeaf', 'S_Right', [],
                [ME('Op', 'uint32', [], [PA('In', 'string'), PA('OUT', typ)], override='Op'),
                 PR('RightOnly', 'uint8', [], override='RightOnly')])
        for oi, order in enumerate(([root, left, right, ll, rl], [root, right, rl, left, ll],
                                    [root, right, left, rl, ll])):
            for path in ('CreateClass', 'MOF'):
                R.case(('siblings', ti, oi, path))
                run_forest(order, 'siblings', flags=(oi == 0 and path == 'CreateClass' and (THOROUGH or ti == 0)),
                           path=path)
    # must-reject declarations
    base = CL('R_Base', None, [], [key, PR('P', 'uint8'), ME('M', 'uint32', [], [PA('X', 'string')])])
    bad = [('redeclared-without-override', CL('R_Sub', 'R_Base', [], [PR('P', 'uint8')])),
           ('redeclared-without-override', CL('R_Sub', 'R_Base', [], [ME('m', 'uint32')])),
           ('override-changes-type', CL('R_Sub', 'R_Base', [], [PR('P', 'uint16', override='P')])),
           ('override-changes-type', CL('R_Sub', 'R_Base', [], [PR('p', 'string', override='p')])),
           ('override-changes-type', CL('R_Sub', 'R_Base', [], [ME('M', 'string', override='M')]))]
    for bi, (why, sub) in enumerate(bad):
        for depth in (1, 2):
            R.case(('must-reject', bi, depth))
            mids = [CL('R_Mid', 'R_Base', [], [])] if depth == 2 else []
            s2 = dict(sub, sup='r_mid' if depth == 2 else sub['sup'])
            repo = run_forest([base] + mids + [s2], 'must-reject')
            # the refused class is not there and the base is untouched; a corrected class is accepted afterwards
            good = CL('R_Sub', s2['sup'], [], [PR('P', 'uint8', override='p'), ME('M', 'uint32', override='m')])
            repo.submit(good)
            repo.check_all('after-reject')
    # duplicate creation is refused and changes nothing
    R.case(('duplicate-create',))
    repo = run_forest([base, CL('R_Sub', 'R_Base', [], [PR('P2', 'uint8')])], 'duplicate')
    try:
        repo.conn.CreateClass(to_pywbem(CL('r_sub', 'R_Base', [], [PR('Other', 'uint8')]), repo.qd))
        R.violation('createclass-accepted-existing-class', **repo.info())
    except CIMError as e:
        if e.status_code != ALREADY_EXISTS:
            R.violation('createclass-rejected-with-wrong-status', expected=ALREADY_EXISTS, observed=e.status_code,
                        reason='exists')
    repo.check_all('after-duplicate')
    # association hierarchies: reference properties narrowed by overriding
    for vi in range(4):
        R.case(('association', vi))
        ends = [CL('A_End', None, [], [key]), CL('A_EndSub', 'A_End', [], [PR('Extra', 'uint8')])]
        a = CL('A_Assoc', None, [Q('Association', True), Q('Description', 'assoc')],
               [PR('Left', 'reference', [Q('Key', True), Q('QTE', 'l')], refclass='A_End'),
                PR('Right', 'reference', [Q('Key', True)], refclass='A_End')])
        if vi % 2 == 0:
            b = CL('A_AssocSub', 'A_Assoc', [Q('Association', True)],
                   [PR('Left', 'reference', [Q('QTE', 'narrow')] if vi < 2 else [], override='Left',
                       refclass='A_EndSub')])
        else:
            b = CL('A_AssocSub', 'A_Assoc', [], [PR('Since', 'datetime')])
        c = CL('A_AssocLeaf', 'a_assocsub', [], [PR('Weight', 'uint8')])
        run_forest(ends + [a, b, c], 'association', flags=(vi == 0),
                   path='MOF' if vi == 3 else 'CreateClass')
    # ModifyClass of a leaf: every pair of leaf declarations over one fixed parent
    parent = CL('M_Parent', None, [Q('Description', 'p'), Q('QTD', 'pd')],
                [key, PR('P', 'uint8', [Q('QTE', 'pe'), Q('QTD', 'pd'), Q('QRE', 'pr')]),
                 ME('M', 'uint32', [Q('QTE', 'me')], [PA('X', 'string', [Q('QTE', 'xe')])])])
    leaves = [CL('M_Leaf', 'M_Parent', [], []),
              CL('M_Leaf', 'm_parent', [Q('Description', 'leaf')], [PR('New', 'string', [Q('QRE', 'n')])]),
              CL('M_Leaf', 'M_Parent', [], [PR('p', 'uint8', [Q('QTE', 'le')], override='P')]),
              CL('M_Leaf', 'M_Parent', [Q('QTD', 'pd')], [PR('P', 'uint8', [Q('QTD', 'pd'), Q('QRE', 'lr')],
                                                             override='p'),
                                                          ME('M', 'uint32', [], [PA('X', 'string')], override='M')]),
              CL('M_Leaf', 'M_PARENT', [], [ME('M', 'uint32', [Q('QTE', 'lm')], [PA('X', 'string')],
                                               override='M'), ME('M2', 'uint8')]),
              CL('M_Leaf', 'M_Parent', [], [PR('P', 'uint8', [Q('QTD', 'changed')], override='P')]),   # refused
              CL('M_Leaf', 'M_Parent', [], [PR('P', 'sint8', override='P')])]                          # refused
    for i, first in enumerate(leaves[:5]):
        for j, second in enumerate(leaves):
            if i == j:
                continue
            R.case(('modify-pair', i, j))
            repo = run_forest([parent, first], 'modify-before')
            if repo.submit(second, 'modify'):
                repo.check_all('modify')
            else:
                repo.check_all('modify-refused')       # the first declaration must still be in force
            # modifying again restores the first declaration
            if repo.submit(first, 'modify'):
                repo.check_all('modify-restore')
    # a class with instances is not modifiable (statement: the hierarchy stays what the queries show)
    R.case(('modify-with-instances',))
    repo = run_forest([parent, leaves[1]], 'modify-inst')
    repo.conn.CreateInstance(CIMInstance('M_Leaf', properties={'K': 'a'}))
    try:
        repo.conn.ModifyClass(to_pywbem(leaves[2], repo.qd))
        R.violation('modifyclass-accepted-class-with-instances', **repo.info())
    except CIMError as e:
        if e.status_code != CLASS_HAS_INSTANCES:
            R.violation('modifyclass-rejected-with-wrong-status', expected=CLASS_HAS_INSTANCES,
                        observed=e.status_code)
    repo.check_all('modify-inst-after')


def main():
    section_special()
    section_hierarchy()
    section_elements()
    R.finish()


main()
