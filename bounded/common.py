"""Shared scaffolding of the bounded stand-ins (run under /venv/bin/python on the current tree).
Bounded = exhaustive over a stated small scope; never counted as proved."""
import json
import sys
import time


class Run:
    def __init__(self, scope):
        try:
            self.cfg = json.loads(sys.stdin.read() or '{}')
        except Exception:
            self.cfg = {}
        self.tier = self.cfg.get('tier', 'quick')
        self.seed = int(self.cfg.get('seed', 0) or 0)
        self.scope = scope
        self.cases = 0
        self.distinct = set()
        self.violations = []
        self.t0 = time.time()

    def case(self, key=None):
        self.cases += 1
        if key is not None and len(self.distinct) < 200000:
            self.distinct.add(key)

    def violation(self, vid, **detail):
        if any(v['id'] == vid for v in self.violations):
            return
        known = str(vid).startswith('known:')
        n = sum(1 for v in self.violations if str(v['id']).startswith('known:') == known)
        if n < (100 if known else 5):
            self.violations.append(dict(id=vid, **detail))

    def finish(self):
        print(json.dumps({'cases': self.cases, 'distinct': len(self.distinct), 'scope': self.scope,
                          'violations': self.violations, 'wall_s': round(time.time() - self.t0, 2)}, default=repr))
