"""Bounded stand-in for C04: operations over HTTP/CIM-XML equal the same operations done directly.

Two identical mock repositories are built from generated MOF and objects.  Every operation of a sweep is applied
  (1) directly to FakedWBEMConnection A (object-level path: WBEMConnection.<Op>() -> _mock_imethodcall / _mock_methodcall)
  (2) to a real WBEMConnection W whose HTTP layer (pywbem._cim_operations.wbem_request) is an in-process CIM-XML
      facade server: request bytes -> xml_to_tupletree_sax -> TupleParser.parse_cim (IMETHODCALL / METHODCALL with
      IPARAMVALUE / PARAMVALUE) -> header check -> typing of the parameters by the DSP0200 operation signature ->
      FakedWBEMConnection B._mock_imethodcall / B._meth_InvokeMethod -> IMETHODRESPONSE / METHODRESPONSE built from
      pywbem._cim_xml elements and the tocimxml() methods as DSP0200 prescribes for that operation -> bytes, which the
      client decodes.
After each step the outcomes are compared (pywbem ==, a strict structural walk incl. value classes, to_wbem_uri of every
path; exception class; CIMError.status_code), what the server saw (operation, namespace, parameters) is compared with
what A's object-level entry point saw, and after every writing operation the two repositories are compared.

Both paths run the same WBEMConnection.<Operation>() method: argument checks, the choice of the target namespace and the
fix-ups of the result (GetInstance: path from the request; EnumerateInstances/Names, CreateInstance: namespace set by the
client; GetClass/EnumerateClasses: path built by the client) are shared, so the two results are directly comparable.
What differs is _imethodcall()/_methodcall(): building the request, everything tocimxml() does, parsing, typing of the
response.  Differences that the wire format prescribes are normalised, each where it is commented and nothing else:
  - a None in PROPAGATED / a qualifier flavor and the DSP0201 default of the absent attribute; SCOPE has no ANY (_canon)
  - embedded instances have no path; parameter declarations have no EmbeddedObject attribute (_canon)
  - char16 values are str wherever the type is carried next to the value (walk_diff); the kind of sequence of PropertyList
  - enumeration contexts are server-chosen strings (norm_pull; each side is handed its own context back)
Inputs left out because the client neither checks nor can transmit them, so that what happens is decided by the mock
and not by the marshalling: PropertyList entries that are not strings, MethodName / Params that are not str / sequences
of pairs, contexts whose namespace is not a string, None for a required class / query / MaxObjectCount argument,
duplicate InvokeMethod parameter names, integers beyond uint32, a reference value with host but no namespace (DSP0201 has
no element for it), qualifier flavors left None in classes given to CreateClass (resolved from the declaration by the
server on the direct path, DSP0201 default on the wire).
Development aids (environment): C04_ONLY=fam_a,fam_b  C04_TIMING=1  C04_DUMP=<file for every recorded divergence>.
"""
import copy
import itertools
from collections.abc import Mapping
import random
import traceback
import warnings

from bounded.common import Run

import pywbem
from pywbem import (CIMInstance, CIMInstanceName, CIMClass, CIMClassName, CIMProperty, CIMMethod, CIMParameter,
                    CIMQualifier, CIMQualifierDeclaration, CIMDateTime, CIMError, Char16, Uint8, Sint8, Uint16,
                    Sint16, Uint32, Sint32, Uint64, Sint64, Real32, Real64)
from pywbem import _cim_xml as X
from pywbem import _cim_operations as _ops
from pywbem._cim_http import get_cimobject_header
from pywbem._cim_obj import atomic_to_cim_xml, cimtype
from pywbem._nocasedict import NocaseDict
from pywbem._tupleparse import TupleParser
from pywbem._tupletree import xml_to_tupletree_sax
from pywbem_mock import FakedWBEMConnection, MethodProvider

warnings.simplefilter('ignore')

R = Run('differential: FakedWBEMConnection (direct) vs WBEMConnection + in-process CIM-XML facade (request parsed by '
        'TupleParser.parse_cim, response built from _cim_xml/tocimxml) over two identical generated repositories (3 '
        'namespaces, class tree C04_Base/Sub/Leaf with all 14 types + arrays + embedded instance/object, C04_Other '
        'with uint32/boolean/string keys, association with reference keys incl. host+namespace, 13 qualifier '
        'declarations, echo method provider); all 40 operations (21 intrinsic + InvokeMethod + ExecQuery + 7 Open + 3 '
        'Pull + Close + 7 Iter x use_pull_operations None/True/False); connection default namespace default and '
        'non-default; namespace None/given/slashes/case/missing; object names as str/CIMClassName/CIMInstanceName '
        'with and without namespace and host; PropertyList None/[]/subset/tuple/str/unknown/duplicate; all 3^4 flag '
        'combinations for EnumerateInstances/EnumerateClasses, 3^3 for GetInstance/GetClass; Role/ResultRole/'
        'AssocClass/ResultClass forms; Create/Modify/DeleteInstance, Create/Modify/DeleteClass, Set/DeleteQualifier '
        'valid and invalid; Open x MaxObjectCount None/0/1/2/3/100 followed by Pull sequences, Close, reuse of a '
        'closed context, wrong pull kind, filter/timeout/ContinueOnError arguments; InvokeMethod on class and '
        'instance targets with every CIM type as keyword / (name, value) / CIMParameter, scalars, NULL, arrays, '
        'empty arrays, arrays with NULL, references with host/namespace, embedded instance/class, return values of '
        'every type; local argument errors for every operation; server-seen operation/namespace/parameters compared '
        'with the direct path; repositories compared after every write; thorough: full cross products + seeded '
        'random operation sequences')

TP = TupleParser()
URL = 'http://FakedUrl:5988'        # the URL FakedWBEMConnection uses, so that both clients have the same .host
NSS = ['root/cimv2', 'Ns2/Sub', 'third']
TYPES = ['boolean', 'string', 'char16', 'uint8', 'sint8', 'uint16', 'sint16', 'uint32', 'sint32', 'uint64', 'sint64',
         'real32', 'real64', 'datetime']
PYCLASS = {'uint8': Uint8, 'sint8': Sint8, 'uint16': Uint16, 'sint16': Sint16, 'uint32': Uint32, 'sint32': Sint32,
           'uint64': Uint64, 'sint64': Sint64, 'real32': Real32, 'real64': Real64}
DT1 = '20200229235959.123456+060'
DT2 = '00000012131415.000000:000'

# ------------------------------------------------------------------------------------------------------ schema
QUALIFIER_MOF = r'''
Qualifier Association : boolean = false, Scope(association), Flavor(DisableOverride, ToSubclass);
Qualifier Key : boolean = false, Scope(property, reference), Flavor(DisableOverride, ToSubclass);
Qualifier Description : string = null, Scope(any), Flavor(EnableOverride, ToSubclass, Translatable);
Qualifier Static : boolean = false, Scope(property, method), Flavor(DisableOverride, ToSubclass);
Qualifier In : boolean = true, Scope(parameter), Flavor(DisableOverride, ToSubclass);
Qualifier Out : boolean = false, Scope(parameter), Flavor(DisableOverride, ToSubclass);
Qualifier EmbeddedInstance : string = null, Scope(property, method, parameter), Flavor(EnableOverride, ToSubclass);
Qualifier EmbeddedObject : boolean = false, Scope(property, method, parameter), Flavor(DisableOverride, ToSubclass);
Qualifier MaxLen : uint32 = null, Scope(property, method, parameter), Flavor(EnableOverride, ToSubclass);
Qualifier ValueMap : string[], Scope(property, method, parameter), Flavor(EnableOverride, ToSubclass);
Qualifier Override : string = null, Scope(property, method, reference), Flavor(EnableOverride, Restricted);
Qualifier Values : string[], Scope(property, method, parameter), Flavor(EnableOverride, ToSubclass, Translatable);
Qualifier C04_Spare : sint64[] = {-1, 9223372036854775807}, Scope(class, property), Flavor(EnableOverride, Restricted);
'''

ECHO_PARAMS = [(t, 'p_' + t, False) for t in TYPES] + [(t, 'pa_' + t, True) for t in TYPES]


def class_mof():
    echo = []
    for t, n, arr in ECHO_PARAMS:
        echo.append('[In, Out] %s %s%s' % (t, n, '[]' if arr else ''))
    echo += ['[In, Out] C04_Base REF p_ref', '[In, Out] C04_Base REF pa_ref[]',
             '[In, Out, EmbeddedInstance("C04_Other")] string p_emb',
             '[In, Out, EmbeddedInstance("C04_Other")] string pa_emb[]',
             '[In, Out, EmbeddedObject] string p_embo', '[In, Out, EmbeddedObject] string pa_embo[]']
    rets = '\n'.join('    [Static] %s Ret_%s([In] %s v);' % (t, t, t) for t in TYPES)
    return r'''
[Description("base <&> \"class\"")]
class C04_Base {
    [Key, Description("the id")] string Id;
    [MaxLen(64)] string Str = "dflt";
    uint32 U32;
};

class C04_Other {
    [Key] uint32 N;
    [Key] boolean KB;
    [Key] string KS;
    string Txt;
    sint16 S16A[];
};

[Description("all types")]
class C04_Sub : C04_Base {
    boolean B;
    uint8 U8; sint8 S8; uint16 U16; sint16 S16; sint32 S32; uint64 U64 = 18446744073709551615; sint64 S64;
    real32 R32; real64 R64; datetime DT; char16 C16;
    [ValueMap{"1", "2"}, Values{"one", "two"}] string SA[];
    boolean BA[]; uint8 U8A[]; sint64 S64A[]; real64 R64A[]; datetime DTA[]; char16 C16A[];
    [EmbeddedInstance("C04_Other")] string Emb;
    [EmbeddedInstance("C04_Other")] string EmbA[];
    [EmbeddedObject] string EmbO;
    [Static, Description("echo")] uint32 Echo(
        %s);
    string InstEcho([In, Out] string p_string, [In, Out] uint32 p_uint32, [In(false), Out] string p_outonly);
%s
};

class C04_Leaf : C04_Sub {
    string LeafProp;
    [Override("Str")] string Str = "leaf";
};

[Association, Description("assoc")]
class C04_Assoc {
    [Key] C04_Base REF Left;
    [Key] C04_Other REF Right;
    string Note;
};
''' % (',\n        '.join(echo), rets)


class EchoProvider(MethodProvider):
    """Echo: every input parameter comes back as output parameter; the return value is the number of parameters.
    InstEcho: returns the WBEM URI of the target as the server saw it.  Ret_<type>: returns its parameter v."""
    provider_classnames = 'C04_Sub'

    def InvokeMethod(self, methodname, localobject, params):
        m = methodname.lower()
        if m == 'echo':
            return Uint32(len(params)), [p.copy() for p in params.values()]
        if m == 'instecho':
            out = [p.copy() for p in params.values()]
            out.append(CIMParameter('p_outonly', 'string', value='out <&> é'))
            return localobject.to_wbem_uri(), out
        if m.startswith('ret_'):
            return (params['v'].value if 'v' in params else None), []
        raise CIMError(pywbem.CIM_ERR_METHOD_NOT_AVAILABLE, 'no such method ' + methodname)


def other_path(n, kb, ks, ns=None, host=None):
    return CIMInstanceName('C04_Other', [('N', Uint32(n)), ('KB', kb), ('KS', ks)], namespace=ns, host=host)


def base_path(i, cls='C04_Base', ns=None, host=None):
    return CIMInstanceName(cls, [('Id', i)], namespace=ns, host=host)


def other_inst(n, kb, ks, txt='t', arr=None):
    return CIMInstance('C04_Other', properties=[CIMProperty('N', Uint32(n)), CIMProperty('KB', kb),
                                                CIMProperty('KS', ks), CIMProperty('Txt', txt, type='string'),
                                                CIMProperty('S16A', arr, type='sint16', is_array=True)])


def sub_full(i, cls='C04_Sub'):
    """every property type with a value"""
    props = [CIMProperty('Id', i), CIMProperty('Str', 'a <b> & "c" \'d\' é\U0001F600 ]]>'),
             CIMProperty('U32', Uint32(4294967295)), CIMProperty('B', False), CIMProperty('U8', Uint8(255)),
             CIMProperty('S8', Sint8(-128)), CIMProperty('U16', Uint16(65535)), CIMProperty('S16', Sint16(-32768)),
             CIMProperty('S32', Sint32(-2147483648)), CIMProperty('U64', Uint64(2**64 - 1)),
             CIMProperty('S64', Sint64(-2**63)), CIMProperty('R32', Real32(1.5)), CIMProperty('R64', Real64(-1e300)),
             CIMProperty('DT', CIMDateTime(DT1)), CIMProperty('C16', 'x', type='char16'),
             CIMProperty('SA', ['', ' a ', '<&>'], type='string'), CIMProperty('BA', [True, False], type='boolean'),
             CIMProperty('U8A', [Uint8(0), Uint8(255)]), CIMProperty('S64A', [Sint64(-2**63), Sint64(2**63 - 1)]),
             CIMProperty('R64A', [Real64(0.5), Real64(-0.0)]),
             CIMProperty('DTA', [CIMDateTime(DT1), CIMDateTime(DT2)]),
             CIMProperty('C16A', ['a', 'é'], type='char16'),
             CIMProperty('Emb', other_inst(7, True, 'e'), embedded_object='instance'),
             CIMProperty('EmbA', [other_inst(8, False, 'e8'), other_inst(9, True, '')], embedded_object='instance'),
             CIMProperty('EmbO', other_inst(10, True, 'o', arr=[Sint16(-1)]), embedded_object='object')]
    if cls == 'C04_Leaf':
        props.append(CIMProperty('LeafProp', 'leaf', type='string'))
    return CIMInstance(cls, properties=props)


def sub_nulls(i):
    """NULLs, empty arrays, string array with NULL entries"""
    props = [CIMProperty('Id', i), CIMProperty('Str', None, type='string'), CIMProperty('U32', None, type='uint32'),
             CIMProperty('B', None, type='boolean'), CIMProperty('R32', None, type='real32'),
             CIMProperty('DT', None, type='datetime'), CIMProperty('C16', None, type='char16'),
             CIMProperty('SA', ['x', None, ''], type='string'), CIMProperty('BA', [], type='boolean'),
             CIMProperty('U8A', None, type='uint8', is_array=True), CIMProperty('DTA', [], type='datetime'),
             CIMProperty('Emb', None, type='string', embedded_object='instance'),
             CIMProperty('EmbA', [], type='string', embedded_object='instance')]
    return CIMInstance('C04_Sub', properties=props)


def with_path(inst, path):
    inst = inst.copy()
    inst.path = path
    return inst


def assoc_inst(left, right, note='n'):
    return CIMInstance('C04_Assoc', properties=[CIMProperty('Left', left, type='reference', reference_class='C04_Base'),
                                                CIMProperty('Right', right, type='reference',
                                                            reference_class='C04_Other'),
                                                CIMProperty('Note', note, type='string')])


def initial_instances(ns):
    out = []
    for i in ('b1', 'b 2'):
        out.append(with_path(CIMInstance('C04_Base', properties=[CIMProperty('Id', i), CIMProperty('Str', 's-' + i),
                                                                  CIMProperty('U32', Uint32(len(i)))]),
                             base_path(i)))
    out.append(with_path(sub_full('s1'), base_path('s1', 'C04_Sub')))
    out.append(with_path(sub_nulls('s2'), base_path('s2', 'C04_Sub')))
    out.append(with_path(sub_full('l1', 'C04_Leaf'), base_path('l1', 'C04_Leaf')))
    for n, kb, ks in ((1, True, 'k 1'), (2, False, ''), (3, True, '<&>')):
        out.append(with_path(other_inst(n, kb, ks), other_path(n, kb, ks)))
    # reference values: namespace only / host and namespace / to a subclass instance
    a1 = assoc_inst(base_path('b1', ns=ns), other_path(1, True, 'k 1', ns=ns), 'local')
    a2 = assoc_inst(base_path('s1', 'C04_Sub', ns=ns, host='FakedUrl:5988'),
                    other_path(2, False, '', ns=ns, host='FakedUrl:5988'), 'full')
    a3 = assoc_inst(base_path('b1', ns=ns), other_path(3, True, '<&>', ns=ns), 'third')
    for a in (a1, a2, a3):
        out.append(with_path(a, CIMInstanceName('C04_Assoc', [('Left', a['Left']), ('Right', a['Right'])])))
    return out


TEMPLATES = {}


def compile_template(default_ns):
    conn = FakedWBEMConnection(default_namespace=default_ns)
    for ns in NSS:
        if ns.lower() != default_ns.lower():
            conn.add_namespace(ns)
    mof = class_mof()
    for ns in NSS:
        conn.compile_mof_string(QUALIFIER_MOF, namespace=ns)
        if ns != 'third':       # 'third' has qualifier declarations only: INVALID_CLASS there
            conn.compile_mof_string(mof, namespace=ns)
    for ns in NSS[:2]:
        conn.add_cimobjects(initial_instances(ns), namespace=ns)
        # the mock compares CIMParameter.embedded_object of an input parameter with the declaration; the MOF compiler
        # leaves it None on parameter declarations, so it is set here from the EmbeddedInstance/EmbeddedObject qualifier
        store = conn.cimrepository.get_class_store(ns)
        for cn in ('C04_Sub', 'C04_Leaf'):
            klass = store.get(cn, copy=False)
            for prm in klass.methods['Echo'].parameters.values():
                if 'EmbeddedInstance' in prm.qualifiers:
                    prm.embedded_object = 'instance'
                elif 'EmbeddedObject' in prm.qualifiers:
                    prm.embedded_object = 'object'
    return conn


def build(default_ns):
    """a repository with the generated content; the MOF is compiled once per default namespace, further
    repositories are filled through the object store API from that template (create() stores deep copies)"""
    if default_ns not in TEMPLATES:
        TEMPLATES[default_ns] = compile_template(default_ns)
    tmpl = TEMPLATES[default_ns].cimrepository
    conn = FakedWBEMConnection(default_namespace=default_ns)
    for ns in NSS:
        if ns.lower() != default_ns.lower():
            conn.add_namespace(ns)
        for what in ('qualifier', 'class', 'instance'):
            src = getattr(tmpl, 'get_%s_store' % what)(ns)
            dst = getattr(conn.cimrepository, 'get_%s_store' % what)(ns)
            for name, value in zip(list(src.iter_names()), src.iter_values(copy=False)):
                dst.create(name, value)
    conn.register_provider(EchoProvider(conn.cimrepository), namespaces=NSS[:2])
    return conn


# ------------------------------------------------------------------------------------------------------ facade
BOOL_PARAMS = {'LocalOnly', 'DeepInheritance', 'IncludeQualifiers', 'IncludeClassOrigin', 'ContinueOnError',
               'ReturnQueryResultClass'}
UINT_PARAMS = {'MaxObjectCount', 'OperationTimeout'}
STR_PARAMS = {'Role', 'ResultRole', 'QueryLanguage', 'Query', 'FilterQueryLanguage', 'FilterQuery', 'QualifierName',
              'EnumerationContext'}
CLASSNAME_PARAMS = {'ClassName', 'AssocClass', 'ResultClass'}
OPEN_TAIL = ' FilterQueryLanguage FilterQuery OperationTimeout ContinueOnError MaxObjectCount'
ASSOC_HEAD = 'InstanceName AssocClass ResultClass Role ResultRole'
# DSP0200 signatures: operation -> (parameter names, encoding of the return value)
SIG = {
    'EnumerateInstances': ('ClassName LocalOnly DeepInheritance IncludeQualifiers IncludeClassOrigin PropertyList',
                           'namedinstances'),
    'EnumerateInstanceNames': ('ClassName', 'instancenames'),
    'GetInstance': ('InstanceName LocalOnly IncludeQualifiers IncludeClassOrigin PropertyList', 'instances'),
    'ModifyInstance': ('ModifiedInstance IncludeQualifiers PropertyList', None),
    'CreateInstance': ('NewInstance', 'instancenames'),
    'DeleteInstance': ('InstanceName', None),
    'Associators': ('ObjectName AssocClass ResultClass Role ResultRole IncludeQualifiers IncludeClassOrigin '
                    'PropertyList', 'objectswithpath'),
    'AssociatorNames': ('ObjectName AssocClass ResultClass Role ResultRole', 'objectpaths'),
    'References': ('ObjectName ResultClass Role IncludeQualifiers IncludeClassOrigin PropertyList', 'objectswithpath'),
    'ReferenceNames': ('ObjectName ResultClass Role', 'objectpaths'),
    'ExecQuery': ('QueryLanguage Query', 'objects'),
    'EnumerateClasses': ('ClassName DeepInheritance LocalOnly IncludeQualifiers IncludeClassOrigin', 'classes'),
    'EnumerateClassNames': ('ClassName DeepInheritance', 'classnames'),
    'GetClass': ('ClassName LocalOnly IncludeQualifiers IncludeClassOrigin PropertyList', 'classes'),
    'ModifyClass': ('ModifiedClass', None),
    'CreateClass': ('NewClass', None),
    'DeleteClass': ('ClassName', None),
    'EnumerateQualifiers': ('', 'qualifierdecls'),
    'GetQualifier': ('QualifierName', 'qualifierdecls'),
    'SetQualifier': ('QualifierDeclaration', None),
    'DeleteQualifier': ('QualifierName', None),
    'OpenEnumerateInstances': ('ClassName DeepInheritance IncludeClassOrigin PropertyList' + OPEN_TAIL,
                               'instanceswithpath'),
    'OpenEnumerateInstancePaths': ('ClassName' + OPEN_TAIL, 'instancepaths'),
    'OpenAssociatorInstances': (ASSOC_HEAD + ' IncludeClassOrigin PropertyList' + OPEN_TAIL, 'instanceswithpath'),
    'OpenAssociatorInstancePaths': (ASSOC_HEAD + OPEN_TAIL, 'instancepaths'),
    'OpenReferenceInstances': ('InstanceName ResultClass Role IncludeClassOrigin PropertyList' + OPEN_TAIL,
                               'instanceswithpath'),
    'OpenReferenceInstancePaths': ('InstanceName ResultClass Role' + OPEN_TAIL, 'instancepaths'),
    'OpenQueryInstances': ('FilterQueryLanguage FilterQuery ReturnQueryResultClass OperationTimeout ContinueOnError '
                           'MaxObjectCount', 'instances'),
    'PullInstancesWithPath': ('EnumerationContext MaxObjectCount', 'instanceswithpath'),
    'PullInstancePaths': ('EnumerationContext MaxObjectCount', 'instancepaths'),
    'PullInstances': ('EnumerationContext MaxObjectCount', 'instances'),
    'CloseEnumeration': ('EnumerationContext', None),
}


REQUIRED = {'ExecQuery': ['QueryLanguage', 'Query'], 'OpenQueryInstances': ['FilterQueryLanguage', 'FilterQuery'],
            'PullInstancesWithPath': ['EnumerationContext', 'MaxObjectCount'],
            'PullInstancePaths': ['EnumerationContext', 'MaxObjectCount'],
            'PullInstances': ['EnumerationContext', 'MaxObjectCount'], 'EnumerateClasses': [],
            'EnumerateClassNames': [], 'EnumerateQualifiers': []}       # default: the first parameter of the signature


class FacadeProblem(Exception):
    """the request is not what a DSP0200 server accepts, or the response cannot be represented as DSP0200 prescribes"""
    def __init__(self, kind, text=''):
        Exception.__init__(self, kind + ': ' + text)
        self.kind = kind


def nspath_xml(ns):
    return X.LOCALNAMESPACEPATH([X.NAMESPACE(c) for c in ns.split('/')])


class Facade:
    """stands in for pywbem._cim_operations.wbem_request; nothing is sent anywhere"""

    def __init__(self, server):
        self.server = server
        self.seen = None        # what the server-side entry point was called with

    # --- request
    def __call__(self, conn, req_data, cimxml_headers, target_type='server'):
        self.seen = None
        if target_type != 'server':
            raise FacadeProblem('request-target-type', repr(target_type))
        if isinstance(req_data, str):
            req_data = req_data.encode('utf-8')
        try:
            raw = xml_to_tupletree_sax(req_data, 'C04 request')
            tt = TP.parse_cim(raw)
        except pywbem.Error as e:
            raise FacadeProblem('request-not-parsable', type(e).__name__ + ': ' + str(e)[:300])
        if tt[0] != 'CIM' or tt[1].get('CIMVERSION') != '2.0' or tt[1].get('DTDVERSION') != '2.0':
            raise FacadeProblem('request-cim-element', repr(tt[:2]))
        msg = tt[2]
        if msg[0] != 'MESSAGE' or msg[2][0] != 'SIMPLEREQ':
            raise FacadeProblem('request-message-element', repr((msg[0], msg[2][0])))
        msgid = msg[1]['ID']
        call = msg[2][2]
        hdr = {}
        for k, v in cimxml_headers:
            if k in hdr:
                raise FacadeProblem('request-header-duplicate', k)
            hdr[k] = v
        if hdr.get('CIMOperation') != 'MethodCall':
            raise FacadeProblem('request-header-CIMOperation', repr(hdr.get('CIMOperation')))
        if hdr.get('CIMMethod') != call[1]['NAME']:
            raise FacadeProblem('request-header-CIMMethod', '%r but body %r' % (hdr.get('CIMMethod'), call[1]['NAME']))
        if call[0] == 'IMETHODCALL':
            body = self.imethodcall(call, hdr)
            rsp = X.IMETHODRESPONSE(call[1]['NAME'], body)
        elif call[0] == 'METHODCALL':
            body = self.methodcall(call, hdr, raw)
            rsp = X.METHODRESPONSE(call[1]['NAME'], body)
        else:
            raise FacadeProblem('request-call-element', call[0])
        xml = X.CIM(X.MESSAGE(X.SIMPLERSP(rsp), msgid, '1.0'), '2.0', '2.0').toxml()
        return ('<?xml version="1.0" encoding="utf-8" ?>\n' + xml).encode('utf-8'), None

    @staticmethod
    def error_xml(e):
        return [X.ERROR(str(e.status_code), e.status_description,
                        [i.tocimxml(ignore_path=True) for i in (e.instances or [])])]

    def imethodcall(self, call, hdr):
        name, namespace, plist = call[1]['NAME'], call[2], call[3]
        if hdr.get('CIMObject') != get_cimobject_header(namespace):
            raise FacadeProblem('request-header-CIMObject', '%r but body %r' % (hdr.get('CIMObject'), namespace))
        if name not in SIG:
            raise FacadeProblem('request-unknown-operation', name)
        allowed = SIG[name][0].split()
        params = {}
        for pname, raw in plist:
            if pname not in allowed:
                raise FacadeProblem('request-unknown-parameter', name + '.' + pname)
            if pname in params:
                raise FacadeProblem('request-duplicate-parameter', name + '.' + pname)
            if raw is None:
                raise FacadeProblem('request-parameter-without-value', name + '.' + pname)
            params[pname] = self.type_iparam(name, pname, raw)
        for pname in REQUIRED.get(name, allowed[:1]):
            if pname not in params:
                self.seen = ('imethod', name, namespace, dict(params))
                return self.error_xml(CIMError(pywbem.CIM_ERR_INVALID_PARAMETER,
                                               'required parameter %s missing' % pname))
        self.seen = ('imethod', name, namespace, dict(params))
        try:
            result = self.server._mock_imethodcall(name, namespace, **params)
        except CIMError as e:
            return self.error_xml(e)
        return self.encode_iresult(name, namespace, result)

    @staticmethod
    def type_iparam(op, pname, raw):
        def bad():
            return FacadeProblem('request-parameter-type', '%s.%s = %r' % (op, pname, raw))
        if pname in BOOL_PARAMS:
            if isinstance(raw, bool):       # parse_iparamvalue types four of the six itself
                return raw
            if isinstance(raw, str) and raw.lower() in ('true', 'false'):
                return raw.lower() == 'true'
            raise bad()
        if pname in UINT_PARAMS:
            if isinstance(raw, str) and raw.isdigit() and int(raw) < 2**32:
                return int(raw)
            raise bad()
        if pname in STR_PARAMS:
            if isinstance(raw, str):
                return raw
            raise bad()
        if pname == 'PropertyList':
            if isinstance(raw, list) and all(isinstance(e, str) for e in raw):
                return raw
            raise bad()
        if pname in CLASSNAME_PARAMS:
            ok = isinstance(raw, CIMClassName)
        elif pname == 'InstanceName':
            ok = isinstance(raw, CIMInstanceName)
        elif pname == 'ObjectName':
            ok = isinstance(raw, (CIMClassName, CIMInstanceName))
        elif pname == 'NewInstance':
            ok = isinstance(raw, CIMInstance) and raw.path is None
        elif pname == 'ModifiedInstance':     # VALUE.NAMEDINSTANCE: an INSTANCENAME, no namespace, no host
            ok = isinstance(raw, CIMInstance) and isinstance(raw.path, CIMInstanceName) and \
                raw.path.namespace is None and raw.path.host is None
        elif pname in ('NewClass', 'ModifiedClass'):
            ok = isinstance(raw, CIMClass)
        elif pname == 'QualifierDeclaration':
            ok = isinstance(raw, CIMQualifierDeclaration)
        else:
            raise FacadeProblem('request-unknown-parameter', op + '.' + pname)
        if not ok:
            raise bad()
        if isinstance(raw, (CIMClassName, CIMInstanceName)) and (raw.namespace is not None or raw.host is not None):
            raise bad()     # INSTANCENAME / CLASSNAME carry neither
        return raw

    # --- response of an intrinsic operation
    def full_path_xml(self, path, namespace, what):
        """INSTANCEPATH / CLASSPATH; a server names itself and the target namespace where the provider left them out
        (the result then differs from the direct path, which is what K_HOST reports)"""
        if not isinstance(path, (CIMInstanceName, CIMClassName)):
            raise FacadeProblem('response-path-missing', what + ': ' + repr(path)[:100])
        if path.host is None or path.namespace is None:
            # VALUE.OBJECTWITHPATH, VALUE.INSTANCEWITHPATH, OBJECTPATH and INSTANCEPATH have no form without host
            # and namespace: the server infrastructure names itself / the target namespace
            path = path.copy()
            path.host = path.host or self.server.host
            path.namespace = path.namespace or namespace
        x = path.tocimxml()
        want = 'INSTANCEPATH' if isinstance(path, CIMInstanceName) else 'CLASSPATH'
        if x.tagName != want:
            raise FacadeProblem('response-path-element', '%s: tocimxml() gave %s, not %s' % (what, x.tagName, want))
        return x

    def encode_iresult(self, op, namespace, result):
        kind = SIG[op][1]
        if result is None:
            # the adapters return None for "nothing"; an operation with a return value answers with an empty
            # IRETURNVALUE, a void operation with an empty IMETHODRESPONSE
            return [X.IRETURNVALUE([])] if kind in ('objectswithpath', 'objectpaths') else []
        if kind is None:
            raise FacadeProblem('response-value-for-void-operation', op + ': ' + repr(result)[:200])
        out = []
        for item in result:
            if item[0] == 'IRETURNVALUE':
                out.insert(0, X.IRETURNVALUE([self.encode_object(op, kind, namespace, o) for o in item[2]]))
            elif item[0] == 'EnumerationContext':
                if not isinstance(item[2], str):
                    raise FacadeProblem('response-context-type', repr(item[2]))
                out.append(X.PARAMVALUE('EnumerationContext', X.VALUE(item[2]), 'string'))
            elif item[0] == 'EndOfSequence':
                if item[2] not in ('TRUE', 'FALSE', True, False):
                    raise FacadeProblem('response-eos-type', repr(item[2]))
                out.append(X.PARAMVALUE('EndOfSequence', X.VALUE(atomic_to_cim_xml(item[2])), 'boolean'))
            elif item[0] == 'QueryResultClass':
                if item[2] is not None:
                    out.append(X.PARAMVALUE('QueryResultClass', item[2].tocimxml()))
            else:
                raise FacadeProblem('response-item', repr(item[0]))
        return out

    def encode_object(self, op, kind, namespace, o):
        if kind == 'objectswithpath' or kind == 'objectpaths':
            if not (isinstance(o, tuple) and len(o) == 3 and o[0] == 'OBJECTPATH'):
                raise FacadeProblem('response-object', op + ': ' + repr(o)[:100])
            o = o[2]
        if kind == 'namedinstances':
            self.want(op, o, CIMInstance)
            self.want(op, o.path, CIMInstanceName)
            return X.VALUE_NAMEDINSTANCE(o.path.tocimxml(ignore_host=True, ignore_namespace=True),
                                         o.tocimxml(ignore_path=True))
        if kind == 'instancenames':
            self.want(op, o, CIMInstanceName)
            return o.tocimxml(ignore_host=True, ignore_namespace=True)
        if kind == 'instances':
            self.want(op, o, CIMInstance)
            return o.tocimxml(ignore_path=True)
        if kind == 'classes':
            self.want(op, o, CIMClass)
            return o.tocimxml()
        if kind == 'classnames':
            self.want(op, o, CIMClassName)
            return o.tocimxml(ignore_host=True, ignore_namespace=True)
        if kind == 'qualifierdecls':
            self.want(op, o, CIMQualifierDeclaration)
            return o.tocimxml()
        if kind == 'instanceswithpath':
            self.want(op, o, CIMInstance)
            return X.VALUE_INSTANCEWITHPATH(self.full_path_xml(o.path, namespace, op), o.tocimxml(ignore_path=True))
        if kind == 'instancepaths':
            self.want(op, o, CIMInstanceName)
            return self.full_path_xml(o, namespace, op)
        if kind == 'objectswithpath':
            if isinstance(o, CIMInstance):
                return X.VALUE_OBJECTWITHPATH(self.full_path_xml(o.path, namespace, op), o.tocimxml(ignore_path=True))
            if isinstance(o, tuple) and len(o) == 2 and isinstance(o[1], CIMClass):
                return X.VALUE_OBJECTWITHPATH(self.full_path_xml(o[0], namespace, op), o[1].tocimxml())
            raise FacadeProblem('response-object', op + ': ' + repr(o)[:100])
        if kind == 'objectpaths':
            return X.OBJECTPATH(self.full_path_xml(o, namespace, op))
        if kind == 'objects':
            self.want(op, o, CIMInstance)
            return X.VALUE_OBJECT(o.tocimxml(ignore_path=True))
        raise AssertionError(kind)

    @staticmethod
    def want(op, o, cls):
        if not isinstance(o, cls):
            raise FacadeProblem('response-object', '%s: %s expected, got %r' % (op, cls.__name__, o))

    # --- extrinsic method
    def declaration(self, localobject, methodname):
        try:
            klass = self.server.cimrepository.get_class_store(localobject.namespace).get(localobject.classname)
            return klass.methods[methodname]
        except Exception:     # pylint: disable=broad-except
            return None

    def methodcall(self, call, hdr, raw):
        name, localobject, plist = call[1]['NAME'], call[2], call[3]
        if not isinstance(localobject, (CIMClassName, CIMInstanceName)) or localobject.namespace is None or \
                localobject.host is not None:
            raise FacadeProblem('request-method-target', repr(localobject))
        if hdr.get('CIMObject') != get_cimobject_header(localobject):
            raise FacadeProblem('request-header-CIMObject', '%r but body %r' % (hdr.get('CIMObject'),
                                                                                 get_cimobject_header(localobject)))
        # the EmbeddedObject attribute is not handed out by parse_paramvalue: read it from the tuple tree
        eo = {}
        for node in raw[2][0][2][0][2][0][2]:
            if isinstance(node, tuple) and node[0] == 'PARAMVALUE':
                eo[node[1]['NAME']] = node[1].get('EmbeddedObject', node[1].get('EMBEDDEDOBJECT'))
        decl = self.declaration(localobject, name)
        params = NocaseDict()
        for pname, ptype, value in plist:
            if pname in params:
                raise FacadeProblem('request-duplicate-parameter', name + '.' + pname)
            d = decl.parameters.get(pname) if decl is not None else None
            t = ptype or (d.type if d is not None else None)
            if isinstance(value, list):
                is_array = True
                value = [self.unpack(e, t) for e in value]
            else:
                is_array = d.is_array if (value is None and d is not None) else False
                value = self.unpack(value, t)
            if t is None:
                raise FacadeProblem('request-parameter-without-type', name + '.' + pname)
            params[pname] = CIMParameter(pname, t, value=value, is_array=is_array, embedded_object=eo.get(pname))
        self.seen = ('method', name, localobject.copy(), NocaseDict([(k, v.copy()) for k, v in params.items()]))
        try:
            retval, outparams = self.server._meth_InvokeMethod(name, localobject, params)
        except CIMError as e:
            return self.error_xml(e)
        out = []
        if retval is not None:
            rt = decl.return_type if decl is not None else cimtype(retval)
            out.append(X.RETURNVALUE(X.VALUE(atomic_to_cim_xml(retval)), rt))
        for pname, value in outparams.items():
            d = decl.parameters.get(pname) if decl is not None else None
            if d is not None:
                p = CIMParameter(pname, d.type, value=value, is_array=d.is_array, embedded_object=d.embedded_object)
            else:
                p = CIMParameter(pname, cimtype(value), value=value)
            out.append(p.tocimxml(as_value=True))
        return out

    @staticmethod
    def unpack(e, t):
        if isinstance(e, str) and t is not None:
            try:
                return TP.unpack_single_value(e, t)
            except pywbem.Error as exc:
                raise FacadeProblem('request-parameter-value', '%r as %s: %s' % (e, t, exc))
        return e


# ------------------------------------------------------------------------------------------------ comparison
ATTRS = {
    CIMInstance: ('classname', 'path', 'properties', 'qualifiers'),
    CIMInstanceName: ('classname', 'keybindings', 'namespace', 'host'),
    CIMClassName: ('classname', 'namespace', 'host'),
    CIMClass: ('classname', 'superclass', 'path', 'properties', 'methods', 'qualifiers'),
    CIMProperty: ('name', 'type', 'is_array', 'array_size', 'reference_class', 'embedded_object', 'class_origin',
                  'propagated', 'value', 'qualifiers'),
    CIMMethod: ('name', 'return_type', 'class_origin', 'propagated', 'parameters', 'qualifiers'),
    CIMParameter: ('name', 'type', 'is_array', 'array_size', 'reference_class', 'embedded_object', 'value',
                   'qualifiers'),
    CIMQualifier: ('name', 'type', 'value', 'propagated', 'overridable', 'tosubclass', 'toinstance', 'translatable'),
    CIMQualifierDeclaration: ('name', 'type', 'is_array', 'array_size', 'value', 'scopes', 'overridable',
                              'tosubclass', 'toinstance', 'translatable'),
}
NAME_ATTRS = {'classname', 'superclass', 'name', 'reference_class', 'class_origin', 'namespace', 'host'}


def walk_diff(a, b, slot='result', where=''):
    """first structural difference (slot, a, b, where) or None; value classes must be identical, names compare
    without case where pywbem's == does; the lexical case of namespaces and hosts is covered by the URI comparison.
    slot names the kind of place (stable, used in ids), where the concrete place (names, indexes)"""
    if isinstance(a, tuple) and hasattr(a, '_fields'):
        a, b = tuple(a), tuple(b) if isinstance(b, tuple) else b
    if type(a) is not type(b):
        if isinstance(a, (list, tuple)) and isinstance(b, (list, tuple)):
            pass        # the kind of sequence is not part of the result
        elif {type(a), type(b)} == {str, Char16} and '.keybindings' not in slot:
            # a char16 value is a plain str wherever the CIM type is carried next to the value (property, parameter,
            # qualifier: pywbem's parser hands out str); in keybindings the class of the value is the only type
            pass
        else:
            return slot + ':class', type(a).__name__ + ' ' + short(a, 80), type(b).__name__ + ' ' + short(b, 80), where
    if isinstance(a, (list, tuple)):
        if len(a) != len(b):
            return slot + '#len', len(a), len(b), where
        for i, (x, y) in enumerate(zip(a, b)):
            d = walk_diff(x, y, slot + '[]', '%s[%d]' % (where, i))
            if d:
                return d
        return None
    if type(a) in ATTRS:
        kind = type(a).__name__
        for n in ATTRS[type(a)]:
            x, y = getattr(a, n), getattr(b, n)
            if n in NAME_ATTRS and isinstance(x, str) and isinstance(y, str):
                if x.lower() != y.lower():
                    return '%s/%s.%s' % (slot, kind, n), x, y, where
                continue
            d = walk_diff(x, y, '%s/%s.%s' % (slot, kind, n), '%s.%s' % (where, n))
            if d:
                return d
        return None
    if isinstance(a, Mapping):     # NocaseDict
        ka, kb = [k.lower() for k in a.keys()], [k.lower() for k in b.keys()]
        if sorted(ka) != sorted(kb):
            return slot + '#names', sorted(ka), sorted(kb), where
        for k in a.keys():
            d = walk_diff(a[k], b[k], slot, '%s[%s]' % (where, k))
            if d:
                return d
        return None
    if isinstance(a, float) and a != a and b != b:
        return None
    if a != b:
        return slot, a, b, where
    return None


def uris(o, out):
    """to_wbem_uri() of every path in a result, in order"""
    if isinstance(o, (CIMInstanceName, CIMClassName)):
        try:
            out.append(o.to_wbem_uri())
        except Exception as e:     # pylint: disable=broad-except
            out.append('uri-error ' + type(e).__name__)
        if isinstance(o, CIMInstanceName):
            for v in o.keybindings.values():
                uris(v, out)
    elif isinstance(o, (CIMInstance, CIMClass)):
        uris(o.path, out)
        for p in o.properties.values():
            uris(p.value, out)
    elif isinstance(o, (CIMParameter,)):
        uris(o.value, out)
    elif isinstance(o, Mapping):
        for v in o.values():
            uris(v, out)
    elif isinstance(o, (list, tuple)):
        for e in o:
            uris(e, out)
    return out


def short(v, n=400):
    s = repr(v)
    return s if len(s) <= n else s[:n] + '...'


ALL_SCOPES = ('ASSOCIATION', 'CLASS', 'INDICATION', 'METHOD', 'PARAMETER', 'PROPERTY', 'REFERENCE')
FLAVOR_DEFAULTS = (('propagated', False), ('overridable', True), ('tosubclass', True), ('toinstance', False),
                   ('translatable', False))


def _canon(o):
    if isinstance(o, (list, tuple)):
        for e in o:
            _canon(e)
    elif isinstance(o, Mapping):
        for e in o.values():
            for x in (e if isinstance(e, list) else [e]):
                if isinstance(x, CIMInstance):
                    x.path = None       # an embedded instance as output parameter value: see below
            _canon(e)
    elif type(o) in ATTRS:
        if isinstance(o, (CIMProperty, CIMMethod)) and o.propagated is None:
            o.propagated = False
        elif isinstance(o, CIMQualifier):
            for n, dflt in FLAVOR_DEFAULTS:
                if getattr(o, n) is None:
                    setattr(o, n, dflt)
        elif isinstance(o, CIMQualifierDeclaration):
            for n, dflt in FLAVOR_DEFAULTS[1:]:
                if getattr(o, n) is None:
                    setattr(o, n, dflt)
            # SCOPE has one attribute per scope and none for ANY: "any" is all seven, an absent one is false
            every = bool(o.scopes.get('ANY'))
            o.scopes = NocaseDict([(k, every or bool(o.scopes.get(k))) for k in ALL_SCOPES])
        elif isinstance(o, CIMMethod):
            # PARAMETER / PARAMETER.ARRAY have no EmbeddedObject attribute: in a parameter declaration only the
            # EmbeddedInstance / EmbeddedObject qualifier says so
            for prm in o.parameters.values():
                prm.embedded_object = None
        if isinstance(o, (CIMProperty, CIMParameter)):
            # an embedded instance is an INSTANCE element: its path is not part of the value
            for e in (o.value if isinstance(o.value, list) else [o.value]):
                if isinstance(e, CIMInstance):
                    e.path = None
        for n in ATTRS[type(o)]:
            v = getattr(o, n)
            if not isinstance(v, (str, int, float, type(None))):
                _canon(v)


# _canon: CIM-XML has no way to say "not specified" for PROPAGATED and the qualifier flavors: DSP0201 defines the value
# an absent attribute stands for (PROPAGATED false, OVERRIDABLE true, TOSUBCLASS true, TOINSTANCE false, TRANSLATABLE
# false), and the receiver reads exactly that.  A None in one of these slots and the DSP0201 default are therefore the
# same thing on the wire.  Besides that only what the comments in _canon name is normalised.


def result_diff(ra, rw, owned=True):
    """None, or (slot, direct, wire, where) of the first difference between two results.  owned: the objects belong
    to the harness (results, recorded copies) and are brought to canonical form in place; otherwise copies are"""
    try:
        if ra == rw and walk_diff(ra, rw) is None and uris(ra, []) == uris(rw, []):
            return None
    except Exception:     # pylint: disable=broad-except
        pass
    if not owned:
        ra, rw = copy.deepcopy(ra), copy.deepcopy(rw)
    _canon(ra)
    _canon(rw)
    d = walk_diff(ra, rw)
    if d:
        return d
    ua, uw = uris(ra, []), uris(rw, [])
    if ua != uw:
        for x, y in zip(ua, uw):
            if x != y:
                return 'result:uri', x, y, ''
        return 'result:uri#len', len(ua), len(uw), ''
    try:
        eq = (ra == rw)
    except Exception as e:     # pylint: disable=broad-except
        return 'result:==raises', type(e).__name__, str(e)[:100], ''
    if not eq:
        return 'result:==', short(ra, 150), short(rw, 150), ''
    return None


VIOLS = {}


def violation(vid, **detail):
    """buffered, so that R.violation (which keeps a bounded number of ids) sees the unknown ones first"""
    if vid not in VIOLS:
        VIOLS[vid] = {k: (v if isinstance(v, (int, str, bool, type(None))) else short(v)) for k, v in detail.items()}


def flush():
    import os
    if os.environ.get('C04_DUMP'):
        import json
        with open(os.environ['C04_DUMP'], 'w') as f:
            for vid in sorted(VIOLS):
                f.write(json.dumps(dict(id=vid, **VIOLS[vid]), default=repr) + '\n')
    for vid in sorted(VIOLS, key=lambda v: (v.startswith('known:'), v)):
        R.violation(vid, **VIOLS[vid])
    R.finish()


# ------------------------------------------------------------------------------------------------------ pair
SKIP = ('has_return_value', 'has_out_params', 'response_params_rqd')


class Pair:
    """A: direct; W: real client + facade in front of B; A and B hold identical repositories"""

    def __init__(self, default_ns):
        self.default_ns = default_ns
        self.A = build(default_ns)
        self.B = build(default_ns)
        self.facade = Facade(self.B)
        self.W = pywbem.WBEMConnection(URL, default_namespace=default_ns)
        self.seen_a = None
        a_imeth, a_meth = self.A._mock_imethodcall, self.A._meth_InvokeMethod

        def rec_imeth(methodname, namespace, **params):
            self.seen_a = ('imethod', methodname, namespace,
                           {k: v for k, v in params.items() if v is not None and k not in SKIP})
            return a_imeth(methodname, namespace, **params)

        def rec_meth(methodname, localobject, params):
            self.seen_a = ('method', methodname, localobject.copy(),
                           NocaseDict([(k, v.copy()) for k, v in params.items()]))
            return a_meth(methodname, localobject, params)
        self.A._imethodcall = rec_imeth
        self.A._meth_InvokeMethod = rec_meth
        self.broken = False
        self.same = {}

    def pull_mode(self, mode):
        # the connection attribute behind the use_pull_operations init parameter (None: try pull, fall back)
        self.A._use_pull_operations = mode
        self.W._use_pull_operations = mode

    # --- repositories
    def repo_diff(self, full=False):
        """first difference between the two repositories.  Stored objects are replaced, never changed in place, by
        the object stores (create/update store deep copies), so a pair of stored objects found equal once is skipped
        while both objects are still the stored ones; full=True compares everything again"""
        if full:
            self.same = {}
        ra, rb = self.A.cimrepository, self.B.cimrepository
        na, nb = sorted(ra.namespaces, key=str.lower), sorted(rb.namespaces, key=str.lower)
        if na != nb:
            return 'namespaces', na, nb, ''
        for ns in na:
            for what in ('qualifier', 'class', 'instance'):
                sa = getattr(ra, 'get_%s_store' % what)(ns)
                sb = getattr(rb, 'get_%s_store' % what)(ns)
                va = sorted(sa.iter_values(copy=False), key=sortkey)
                vb = sorted(sb.iter_values(copy=False), key=sortkey)
                ka, kb = [sortkey(o) for o in va], [sortkey(o) for o in vb]
                if ka != kb:
                    return ('%s-store[%s] #names' % (what, ns), [k for k in ka if k not in kb],
                            [k for k in kb if k not in ka], '')
                for x, y in zip(va, vb):
                    hit = self.same.get(id(x))
                    if hit is not None and hit[0] is x and hit[1] is y:
                        continue
                    d = result_diff(x, y, owned=False)
                    if d:
                        return ('%s-store[%s] %s' % (what, ns, d[0]),) + tuple(d[1:])
                    self.same[id(x)] = (x, y)       # holds both objects, so the id cannot be reused
        ca, cb = len(self.A._mainprovider.enumeration_contexts), len(self.B._mainprovider.enumeration_contexts)
        if ca != cb:
            return 'open-enumeration-contexts', ca, cb, ''
        return None


def sortkey(o):
    if isinstance(o, CIMInstance):
        return o.path.to_wbem_uri().lower()
    if isinstance(o, CIMClass):
        return o.classname.lower()
    return o.name.lower()


PAIRS = {}


def pair(default_ns):
    p = PAIRS.get(default_ns)
    if p is None or p.broken:
        p = PAIRS[default_ns] = Pair(default_ns)
    return p


WRITERS = ('CreateInstance', 'ModifyInstance', 'DeleteInstance', 'CreateClass', 'ModifyClass', 'DeleteClass',
           'SetQualifier', 'DeleteQualifier')


def perform(conn, op, args, kwargs):
    try:
        r = getattr(conn, op)(*args, **kwargs)
        if op == 'IterQueryInstances':
            r = (list(r.generator), r.query_result_class)
        elif op.startswith('Iter'):
            r = list(r)
        return ('ok', r)
    except CIMError as e:
        return ('cim', e.status_code, e.status_description)
    except FacadeProblem as e:
        return ('facade', e.kind, str(e))
    except Exception as e:     # pylint: disable=broad-except
        return ('exc', type(e).__name__, str(e)[:300], [f.name for f in traceback.extract_tb(e.__traceback__)][-3:])


def display_key(o):
    if isinstance(o, CIMInstance) and o.path is not None:
        o = o.path
    if isinstance(o, tuple) and o and isinstance(o[0], CIMClassName):
        o = o[0]
    return o.to_wbem_uri() if isinstance(o, (CIMInstanceName, CIMClassName)) else ''


def show(o):
    if o[0] == 'ok':
        r = o[1]
        if isinstance(r, list) and r and isinstance(r[0], (CIMInstance, CIMInstanceName, tuple)):
            # the order in which the mock walks associations depends on the hash seed of the process (it is the same
            # on both paths within one run); shown sorted so that the recorded details are the same in every run
            try:
                r = sorted(r, key=display_key)
            except Exception:     # pylint: disable=broad-except
                pass
        return 'returned ' + short(r)
    if o[0] == 'cim':
        return 'CIMError %s: %s' % (o[1], str(o[2])[:200])
    if o[0] == 'facade':
        return 'facade refused: ' + o[2][:300]
    return '%s: %s (in %s)' % (o[1], o[2], '/'.join(o[3]))


def norm_pull(r):
    """Open.../Pull... results: the enumeration context is an opaque server-chosen string (a fresh uuid in each
    mock), so only its presence and the namespace that the client put next to it are compared"""
    if isinstance(r, tuple) and hasattr(r, '_fields') and 'context' in r._fields:
        c = r.context
        ctx = None if c is None else ('context', isinstance(c[0], str) and c[0] != '', c[1])
        return tuple(ctx if f == 'context' else getattr(r, f) for f in r._fields)
    return r


# ---------------------------------------------------------------------------------------- catalogued defects
SERVERHOST = 'FakedUrl:5988'
K_HOST = 'known:mock-instance-paths-without-host-where-DSP0200-returns-INSTANCEPATH'
K_CLASSPATH = 'known:mock-class-level-Associators-References-class-without-path'
K_BOOL = 'known:InvokeMethod-boolean-FALSE-read-as-True'
K_NULLENTRY = 'known:InvokeMethod-array-parameter-with-NULL-entry-AttributeError'
K_MOCKNULL = 'known:mock-InvokeMethod-NULL-empty-array-or-class-path-parameter-rejected-by-cimtype'
K_EMBPATH = 'known:embedded-instance-with-path-sent-as-VALUE.OBJECTWITHLOCALPATH'
K_SCOPEANY = 'known:qualifier-declaration-scope-ANY-false-sent-as-SCOPE-attribute'
K_CHAR16KEY = 'known:char16-keybinding-arrives-as-string'
WHAT = {
    K_HOST: "FakedWBEMConnection.Associators(CIMInstanceName('C04_Base', {'Id': 'b1'})) - and every Open.../Pull... "
            "operation that returns instances with path or instance paths, and the Iter... operations built on them - "
            "returns instance paths with host=None, whereas the same operation over CIM-XML returns host "
            "'FakedUrl:5988' (VALUE.OBJECTWITHPATH, VALUE.INSTANCEWITHPATH and INSTANCEPATH always carry a host) and "
            "the mock's own AssociatorNames/References/ReferenceNames fill in the host",
    K_CLASSPATH: "FakedWBEMConnection.Associators('C04_Base') and References('C04_Base') return (classpath, class) "
                 "tuples whose class.path is None; WBEMConnection documents ('with its path attribute set to the "
                 "classpath tuple item') and over CIM-XML returns class.path == classpath",
    K_BOOL: "WBEMConnection.InvokeMethod('Echo', 'C04_Sub', p_boolean=False) against a server that echoes the "
            "parameter returns outparams['p_boolean'] == True (also [False] -> [True], and a boolean return value "
            "False -> True): _methodcall() types the response with cimvalue('FALSE', 'boolean'), which is bool('FALSE')",
    K_NULLENTRY: "WBEMConnection.InvokeMethod('Echo', 'C04_Sub', pa_boolean=[False, None]) raises AttributeError "
                 "\"'NoneType' object has no attribute 'nodeType'\" while building the request (paramvalue() in "
                 "_methodcall() returns None for a None entry instead of VALUE.NULL); the same call on "
                 "FakedWBEMConnection succeeds and echoes [False, None]",
    K_MOCKNULL: "FakedWBEMConnection.InvokeMethod('Echo', 'C04_Sub', p_boolean=None) raises TypeError, "
                "InvokeMethod('Echo', 'C04_Sub', pa_boolean=[]) raises ValueError and InvokeMethod('Echo', 'C04_Sub', "
                "p_ref=CIMClassName('C04_Base')) raises TypeError in _mock_methodcall() (cimtype() of the value), "
                "whereas WBEMConnection sends them (PARAMVALUE without PARAMTYPE / PARAMTYPE=\"reference\") and the "
                "call succeeds: _mock_methodcall() does not perform 'the same checks and transformations as "
                "_methodcall()'",
    K_EMBPATH: "WBEMConnection.CreateInstance(CIMInstance('C04_Sub', {'Id': 'w', 'Emb': CIMProperty('Emb', <CIMInstance "
               "C04_Other with path.namespace set>, embedded_object='instance')})) sends the embedded instance as "
               "VALUE.OBJECTWITHLOCALPATH inside the property value, which pywbem's own parser rejects ('Invalid "
               "top-level element'); directly the instance is created",
    K_SCOPEANY: "EnumerateQualifiers() / GetQualifier('Key') on a repository compiled from MOF fail over CIM-XML with "
                "CIMXMLParseError \"Element 'SCOPE' has invalid attribute(s) ANY\": CIMQualifierDeclaration.tocimxml() "
                "writes ANY=\"false\" for scopes={'ANY': False, ...}; directly the declarations are returned",
    K_CHAR16KEY: "GetInstance(CIMInstanceName('C04_Base', {'Id': Char16('b')})): the server receives the key value as "
                 "str 'b' (KEYVALUE TYPE=\"char16\" is read back as string), directly it receives Char16('b')",
}
HOST_OPS = ('Associators', 'OpenEnumerateInstances', 'OpenEnumerateInstancePaths', 'OpenAssociatorInstances',
            'OpenAssociatorInstancePaths', 'OpenReferenceInstances', 'OpenReferenceInstancePaths',
            'PullInstancesWithPath', 'PullInstancePaths', 'IterEnumerateInstances', 'IterEnumerateInstancePaths',
            'IterAssociatorInstances', 'IterAssociatorInstancePaths', 'IterReferenceInstances',
            'IterReferenceInstancePaths')


def has_none_entry(v):
    return isinstance(v, list) and any(e is None for e in v)


def invoke_values(args, kwargs):
    vals = list(kwargs.values())
    for p in (args[2] if len(args) > 2 and isinstance(args[2], (list, tuple)) else []):
        if isinstance(p, CIMParameter):
            vals.append(p.value)
        elif isinstance(p, tuple) and len(p) == 2:
            vals.append(p[1])
    return vals


def embedded_with_path(o, inside=False):
    if isinstance(o, (list, tuple)):
        return any(embedded_with_path(e, inside) for e in o)
    if isinstance(o, CIMInstance):
        return (inside and o.path is not None) or any(embedded_with_path(p.value, True) for p in o.properties.values())
    return False


def classify(op, args, kwargs, oa, ow, d):
    """id of the catalogued defect that explains this divergence, or None.  d: (slot, direct, wire, where) or None"""
    slot = d[0] if d else ''
    if oa[0] == 'ok' and ow[0] == 'ok' and d:
        if op in HOST_OPS and slot.endswith('CIMInstanceName.host:class') and d[1].startswith('NoneType') and \
                d[2] == 'str ' + repr(SERVERHOST) and '.properties' not in d[3] and '.keybindings' not in d[3]:
            return K_HOST
        if op in ('Associators', 'References', 'IterAssociatorInstances', 'IterReferenceInstances') and \
                slot.endswith('[][]/CIMClass.path:class') and d[1].startswith('NoneType'):
            return K_CLASSPATH
        if op == 'InvokeMethod' and d[1] is False and d[2] is True and slot.startswith('result[]') and \
                '/' not in slot:
            return K_BOOL
        if slot.startswith('seen-') and '.keybindings:class' in slot and d[1].startswith('Char16') and \
                d[2].startswith('str'):
            return K_CHAR16KEY
    if oa[0] == 'cim' and ow[0] == 'cim' and d and d[0].startswith('seen-') and '.keybindings:class' in d[0] and \
            d[1].startswith('Char16') and d[2].startswith('str'):
        return K_CHAR16KEY
    if op == 'InvokeMethod' and ow[0] == 'exc' and ow[1] == 'AttributeError' and "'nodeType'" in ow[2] and \
            ow[3][-1] == 'appendChild' and any(has_none_entry(v) for v in invoke_values(args, kwargs)):
        return K_NULLENTRY
    if op == 'InvokeMethod' and oa[0] == 'exc' and oa[1] in ('TypeError', 'ValueError') and 'cimtype' in oa[3] and \
            ow[0] in ('ok', 'cim') and any(v is None or (isinstance(v, list) and not v) or isinstance(v, CIMClassName) or
                                           (isinstance(v, list) and isinstance(v[0], CIMClassName))
                                           for v in invoke_values(args, kwargs)):
        return K_MOCKNULL
    if ow[0] == 'facade' and ow[1] == 'request-not-parsable' and "Invalid top-level element 'VALUE.OBJECTWITH" in ow[2] \
            and embedded_with_path(args):
        return K_EMBPATH
    if op in ('EnumerateQualifiers', 'GetQualifier') and oa[0] == 'ok' and ow[0] == 'exc' and \
            ow[1] == 'CIMXMLParseError' and "Element 'SCOPE' has invalid attribute(s)" in ow[2] and "'ANY'" in ow[2]:
        return K_SCOPEANY
    return None


def fix_host(ra, rw):
    """after K_HOST: leave the host of the returned objects' own paths out of the rest of the comparison"""
    def strip(o):
        if isinstance(o, (list, tuple)):
            for e in o:
                strip(e)
        elif isinstance(o, CIMInstance) and o.path is not None:
            o.path.host = None
        elif isinstance(o, CIMInstanceName):
            o.host = None
    ra, rw = copy.deepcopy(ra), copy.deepcopy(rw)
    strip(ra)
    strip(rw)
    return ra, rw


def fix_classpath(ra, rw):
    rw = copy.deepcopy(rw)
    for x, y in zip(ra, rw):
        if isinstance(x, tuple) and isinstance(y, tuple) and x[1].path is None:
            y[1].path = None
    return ra, rw


def fix_bool(ra, rw):
    def fix(x, y):
        if isinstance(x, list) and isinstance(y, list) and len(x) == len(y):
            return [fix(a, b) for a, b in zip(x, y)]
        return False if (x is False and y is True) else y
    ret = fix(ra[0], rw[0])
    out = NocaseDict([(k, fix(ra[1][k], v) if k in ra[1] else v) for k, v in rw[1].items()])
    return ra, (ret, out)


FIXUPS = {K_HOST: fix_host, K_CLASSPATH: fix_classpath, K_BOOL: fix_bool}


def step(p, fam, op, args, kwargs, label=None, wire_args=None):
    """one operation on both paths; returns (direct outcome, wire outcome)"""
    R.case((p.default_ns, fam, op, label if label is not None else short((args, kwargs), 200)))
    wa, wk = wire_args if wire_args is not None else (args, kwargs)
    p.seen_a = p.facade.seen = None
    old = _ops.wbem_request
    _ops.wbem_request = p.facade
    try:
        oa = perform(p.A, op, *copy.deepcopy((args, kwargs)))
        ow = perform(p.W, op, *copy.deepcopy((wa, wk)))
    finally:
        _ops.wbem_request = old

    def report(vid, d=None, **more):
        """-> id of the catalogued defect, or None after recording vid"""
        k = classify(op, args, kwargs, oa, ow, d)
        vid = k or vid
        if vid not in VIOLS:
            # a pull step is described by its label: the arguments hold the server-chosen (random) context
            desc = dict(op=op, args=short(label if wire_args is not None else (args, kwargs), 500),
                        default_namespace=p.default_ns, direct=show(oa), wire=show(ow))
            if d:
                more = dict(more, direct_value=d[1], wire_value=d[2], where=d[3])
            if k:
                more['what'] = WHAT[k]
            violation(vid, **dict(desc, **more))
        return k
    comparable = True
    if oa[0] != ow[0]:
        names = {'ok': 'returns', 'cim': 'CIMError', 'facade': 'request-or-response-not-DSP0200'}
        report('%s-direct-%s-wire-%s' % (op, names.get(oa[0], oa[1]),
                                         ow[1] if ow[0] in ('exc', 'facade') else names.get(ow[0])))
        comparable = False
    elif oa[0] == 'cim':
        if oa[1] != ow[1]:
            report('%s-status-code-differs' % op)
    elif oa[0] == 'exc':
        if oa[1] != ow[1]:
            report('%s-exception-class-differs[%s->%s]' % (op, oa[1], ow[1]))
            comparable = False
    elif oa[0] == 'ok':
        ra, rw = norm_pull(oa[1]), norm_pull(ow[1])
        for _ in range(4):
            d = result_diff(ra, rw)
            if not d:
                break
            k = report('%s-%s' % (op, d[0]), d)
            if k not in FIXUPS:
                break
            ra, rw = FIXUPS[k](ra, rw)
    # what the server saw
    sa, sw = p.seen_a, p.facade.seen
    if (sa is None) != (sw is None):
        if comparable:
            report('%s-request-%s' % (op, 'not-sent-on-the-wire' if sw is None else 'sent-only-on-the-wire'))
    elif sa is not None:
        if sa[0] != sw[0] or sa[1] != sw[1]:
            report('%s-server-saw-other-operation' % op, server_direct=sa[:2], server_wire=sw[:2])
        elif sa[0] == 'imethod':
            if sa[2] != sw[2]:
                report('%s-server-saw-other-namespace' % op, ('seen-namespace', sa[2], sw[2], ''))
            elif sorted(sa[3]) != sorted(sw[3]):
                report('%s-server-saw-other-parameter-names' % op, ('seen-names', sorted(sa[3]), sorted(sw[3]), ''))
            else:
                for n in sa[3]:
                    va, vw = sa[3][n], sw[3][n]
                    if isinstance(va, tuple) and isinstance(vw, list):
                        va = list(va)       # PropertyList=('a', 'b'): the kind of sequence is not transmitted
                    if n == 'EnumerationContext' and wire_args is not None:
                        continue            # each side was given the context its own server handed out
                    d = result_diff(va, vw)
                    if d:
                        report('%s-server-saw-other-%s-%s' % (op, n, d[0].replace('result', 'value')),
                               ('seen-%s-%s' % (n, d[0]),) + tuple(d[1:]))
                        break
        else:
            d = result_diff(sa[2], sw[2])
            if d:
                report('%s-server-saw-other-target-%s' % (op, d[0]), ('seen-target-' + d[0],) + tuple(d[1:]))
            else:
                d = result_diff(NocaseDict(sa[3]), NocaseDict(sw[3]))
                if d:
                    report('%s-server-saw-other-parameters-%s' % (op, d[0].replace('result', 'value')),
                           ('seen-params-' + d[0],) + tuple(d[1:]))
    if op in WRITERS:
        d = p.repo_diff()
        if d:
            report('%s-repositories-differ-afterwards-%s' % (op, d[0].split(' ')[0]), ('repo-' + d[0],) + tuple(d[1:]))
            p.broken = True
    return oa, ow


# --------------------------------------------------------------------------------------------------- families
THOROUGH = R.tier == 'thorough'
DEFAULTS = ['root/cimv2', 'Ns2/Sub']
OTHERHOST = 'other.example.com:5989'


STATELESS = ('enum', 'get', 'assoc', 'class', 'query', 'local', 'invoke', 'iter', 'qual')
COUNTER = [0, 0]


def sparse(dn, which=0, every=5):
    """quick tier: the non-default default namespace gets every 5th stateless case / every 3rd pull session"""
    if THOROUGH or dn == DEFAULTS[0]:
        return False
    COUNTER[which] += 1
    return COUNTER[which] % every != 0


def do(dn, fam, op, *args, **kwargs):
    if fam.split('-')[0] in STATELESS and not fam.endswith('-write') and sparse(dn):
        return None, None
    return step(pair(dn), fam, op, args, kwargs)


def thin(seq, n):
    """quick tier: every n-th element of a cross product (deterministic)"""
    seq = list(seq)
    return seq if THOROUGH or n <= 1 else seq[::n]


def ns_args(dn):
    return [None, 'root/cimv2', 'Ns2/Sub', '/Ns2/Sub/', '//Ns2/Sub', 'ns2/sub', 'NS2/SUB/', 'third', 'nsX', 'nsX/y', '']


def class_forms(name='C04_Base'):
    return [name, name.lower(), CIMClassName(name), CIMClassName(name, namespace='Ns2/Sub'),
            CIMClassName(name, namespace='root/cimv2', host=OTHERHOST), CIMClassName(name, host=OTHERHOST),
            CIMClassName(name, namespace='/Ns2/Sub/'), CIMClassName(name, namespace='nsX'), 'C04_Nope']


def inst_forms(path):
    """the same instance name without/with namespace and host, differently cased, and broken variants"""
    def mk(ns=None, host=None, cls=None, keys=None):
        return CIMInstanceName(cls or path.classname, keys if keys is not None else list(path.keybindings.items()),
                               namespace=ns, host=host)
    keys = list(path.keybindings.items())
    out = [mk(), mk('root/cimv2'), mk('Ns2/Sub'), mk('Ns2/Sub', OTHERHOST), mk(None, OTHERHOST), mk('ns2/SUB'),
           mk('/Ns2/Sub/'), mk('third'), mk('nsX'),
           mk(cls=path.classname.upper(), keys=[(k.upper(), v) for k, v in reversed(keys)]),
           mk(keys=keys[:-1]), mk(keys=keys + [('Extra', 'x')]), mk(cls='C04_Nope'),
           mk(keys=[(k, 'nope' if isinstance(v, str) else v) for k, v in keys])]
    return out


PLISTS = [None, [], ['Str'], ['str', 'U32'], ('Id',), 'Str', ['Nope'], ['Str', 'Str'], ['Str', 'STR', 'B', 'SA', 'Emb'],
          ['Left'], ['Note', 'Right']]
TRI = (None, True, False)


def fam_enumerate(dn):
    for cn, ns in thin(itertools.product(class_forms(), ns_args(dn)), 3):
        do(dn, 'enum', 'EnumerateInstances', cn, namespace=ns)
        do(dn, 'enum', 'EnumerateInstanceNames', cn, namespace=ns)
    for cls in ('C04_Base', 'C04_Sub'):
        for lo, di, iq, ico in thin(itertools.product(TRI, repeat=4), 1 if cls == 'C04_Base' else 4):
            do(dn, 'enum-flags', 'EnumerateInstances', cls, LocalOnly=lo, DeepInheritance=di, IncludeQualifiers=iq,
               IncludeClassOrigin=ico)
    for cls, pl, di in thin(itertools.product(('C04_Base', 'C04_Sub', 'C04_Assoc', 'C04_Other'), PLISTS, TRI), 2):
        do(dn, 'enum-pl', 'EnumerateInstances', cls, PropertyList=pl, DeepInheritance=di)
    for cls in ('C04_Leaf', 'C04_Other', 'C04_Assoc', CIMClassName('C04_Assoc', namespace='Ns2/Sub')):
        do(dn, 'enum', 'EnumerateInstances', cls)
        do(dn, 'enum', 'EnumerateInstanceNames', cls)


def all_paths(ns=None):
    return [base_path('b1', ns=ns), base_path('b 2', ns=ns), base_path('s1', 'C04_Sub', ns=ns),
            base_path('s2', 'C04_Sub', ns=ns), base_path('l1', 'C04_Leaf', ns=ns), other_path(1, True, 'k 1', ns=ns),
            other_path(2, False, '', ns=ns), other_path(3, True, '<&>', ns=ns)]


def assoc_paths(ns, tns=None):
    out = []
    for i in initial_instances(ns):
        if i.classname == 'C04_Assoc':
            pth = i.path.copy()
            pth.namespace = tns
            out.append(pth)
    return out


def fam_getinstance(dn):
    for pth in all_paths() + assoc_paths(dn) + assoc_paths('Ns2/Sub', 'Ns2/Sub'):
        do(dn, 'get', 'GetInstance', pth)
        do(dn, 'get', 'GetInstance', pth, IncludeQualifiers=True, IncludeClassOrigin=True, LocalOnly=False)
    for pth in thin(inst_forms(base_path('s1', 'C04_Sub')) + inst_forms(other_path(1, True, 'k 1')), 1):
        do(dn, 'get-forms', 'GetInstance', pth)
    for lo, iq, ico in itertools.product(TRI, repeat=3):
        do(dn, 'get-flags', 'GetInstance', base_path('l1', 'C04_Leaf'), LocalOnly=lo, IncludeQualifiers=iq,
           IncludeClassOrigin=ico)
    for pth, pl in thin(itertools.product((base_path('s1', 'C04_Sub', ns='Ns2/Sub'), base_path('s2', 'C04_Sub'),
                                           assoc_paths(dn)[1]), PLISTS), 1):
        do(dn, 'get-pl', 'GetInstance', pth, PropertyList=pl)
    # the same key given with another value class / a value of the wrong class
    do(dn, 'get-keys', 'GetInstance', CIMInstanceName('C04_Other', [('N', 1), ('KB', True), ('KS', 'k 1')]))
    do(dn, 'get-keys', 'GetInstance', CIMInstanceName('C04_Other', [('N', Uint8(1)), ('KB', True), ('KS', 'k 1')]))
    do(dn, 'get-keys', 'GetInstance', CIMInstanceName('C04_Other', [('N', '1'), ('KB', 'true'), ('KS', 'k 1')]))
    do(dn, 'get-keys', 'GetInstance', CIMInstanceName('C04_Base', [('Id', Char16('b'))]))


def fam_assoc(dn):
    sources = [base_path('b1'), base_path('b1', ns='Ns2/Sub'), base_path('b1', ns='root/cimv2', host=OTHERHOST),
               base_path('s1', 'C04_Sub'), base_path('S1', 'c04_sub', ns='ns2/sub'), other_path(1, True, 'k 1'),
               other_path(2, False, '', ns='/Ns2/Sub/'), base_path('nope'), base_path('b1', ns='third'),
               base_path('b1', ns='nsX'), 'C04_Base', 'c04_other', CIMClassName('C04_Sub'),
               CIMClassName('C04_Base', namespace='Ns2/Sub'), CIMClassName('C04_Base', namespace='Ns2/Sub', host=OTHERHOST),
               CIMClassName('C04_Assoc'), 'C04_Nope', CIMClassName('C04_Base', namespace='third')]
    for src in sources:
        do(dn, 'assoc', 'Associators', src)
        do(dn, 'assoc', 'AssociatorNames', src)
        do(dn, 'assoc', 'References', src)
        do(dn, 'assoc', 'ReferenceNames', src)
    classes = [None, 'C04_Assoc', 'c04_assoc', CIMClassName('C04_Assoc'),
               CIMClassName('C04_Assoc', namespace='nsX', host=OTHERHOST), 'C04_Other', 'C04_Nope']
    roles = [None, 'Left', 'left', 'Right', 'Nope', '']
    for src in (base_path('b1'), 'C04_Base', other_path(1, True, 'k 1', ns='Ns2/Sub')):
        for ac, rc in thin(itertools.product(classes, classes), 3):
            do(dn, 'assoc-classes', 'Associators', src, AssocClass=ac, ResultClass=rc)
            do(dn, 'assoc-classes', 'AssociatorNames', src, AssocClass=ac, ResultClass=rc)
        for rc, role in thin(itertools.product(classes, roles), 3):
            do(dn, 'assoc-classes', 'References', src, ResultClass=rc, Role=role)
            do(dn, 'assoc-classes', 'ReferenceNames', src, ResultClass=rc, Role=role)
        for role, rrole in thin(itertools.product(roles, roles), 2):
            do(dn, 'assoc-roles', 'Associators', src, Role=role, ResultRole=rrole)
            do(dn, 'assoc-roles', 'AssociatorNames', src, Role=role, ResultRole=rrole)
        for iq, ico, pl in thin(itertools.product(TRI, TRI, PLISTS), 4):
            do(dn, 'assoc-flags', 'Associators', src, IncludeQualifiers=iq, IncludeClassOrigin=ico, PropertyList=pl)
            do(dn, 'assoc-flags', 'References', src, IncludeQualifiers=iq, IncludeClassOrigin=ico, PropertyList=pl)


def fam_classes(dn):
    for cn, ns in thin(itertools.product([None] + class_forms(), ns_args(dn)), 3):
        do(dn, 'class', 'EnumerateClasses', namespace=ns, ClassName=cn)
        do(dn, 'class', 'EnumerateClassNames', namespace=ns, ClassName=cn)
        if cn is not None:
            do(dn, 'class', 'GetClass', cn, namespace=ns)
    for cn in (None, 'C04_Base', 'C04_Sub'):
        for di, lo, iq, ico in thin(itertools.product(TRI, repeat=4), 1 if cn == 'C04_Base' else 3):
            do(dn, 'class-flags', 'EnumerateClasses', ClassName=cn, DeepInheritance=di, LocalOnly=lo,
               IncludeQualifiers=iq, IncludeClassOrigin=ico)
        for di in TRI:
            do(dn, 'class-flags', 'EnumerateClassNames', ClassName=cn, DeepInheritance=di)
    for cn in ('C04_Base', 'C04_Sub', 'C04_Leaf', 'C04_Other', 'C04_Assoc'):
        for lo, iq, ico in thin(itertools.product(TRI, repeat=3), 1 if cn == 'C04_Leaf' else 3):
            do(dn, 'class-flags', 'GetClass', cn, LocalOnly=lo, IncludeQualifiers=iq, IncludeClassOrigin=ico)
        for pl in PLISTS:
            do(dn, 'class-pl', 'GetClass', cn, PropertyList=pl, LocalOnly=False)


def new_classes():
    """classes for CreateClass / ModifyClass: every property kind, methods with every parameter kind, qualifiers"""
    # flavors are given explicitly and as the qualifier declarations have them: a None flavor is resolved by the
    # server from the declaration on the direct path but arrives as the DSP0201 default on the wire
    flav = {'Key': (False, True, False), 'Association': (False, True, False), 'Static': (False, True, False),
            'In': (False, True, False), 'Out': (False, True, False), 'EmbeddedObject': (False, True, False),
            'Description': (True, True, True), 'Values': (True, True, True), 'Override': (True, False, False)}

    def q(name, value, **kw):
        ov, ts, tr = flav.get(name, (True, True, False))
        kw.pop('translatable', None)
        return CIMQualifier(name, value, overridable=ov, tosubclass=ts, translatable=tr, toinstance=False, **kw)
    props = [CIMProperty('NewKey', None, type='uint64', qualifiers=[q('Key', True)]),
             CIMProperty('Txt', 'dflt <&>', type='string', qualifiers=[q('Description', 'd "q"', translatable=True),
                                                                      q('MaxLen', Uint32(5))]),
             CIMProperty('Arr', [Sint64(-1), Sint64(2)], type='sint64', is_array=True),
             CIMProperty('Fixed', None, type='uint8', is_array=True, array_size=4),
             CIMProperty('When', CIMDateTime(DT2), type='datetime'),
             CIMProperty('Flag', False, type='boolean'), CIMProperty('R', Real32(0.25), type='real32'),
             CIMProperty('Ch', 'z', type='char16'),
             CIMProperty('E', None, type='string', embedded_object='instance',
                         qualifiers=[q('EmbeddedInstance', 'C04_Other')]),
             CIMProperty('EO', None, type='string', embedded_object='object', qualifiers=[q('EmbeddedObject', True)]),
             CIMProperty('VM', None, type='string', is_array=True,
                         qualifiers=[q('ValueMap', ['1', '2'], type='string'), q('Values', ['a', 'b'], type='string')])]
    meths = [CIMMethod('M1', 'uint32', parameters=[
        CIMParameter('a', 'string', qualifiers=[q('In', True)]),
        CIMParameter('b', 'sint8', is_array=True, qualifiers=[q('Out', True)]),
        CIMParameter('c', 'uint16', is_array=True, array_size=3),
        CIMParameter('r', 'reference', reference_class='C04_Base'),
        CIMParameter('ra', 'reference', reference_class='C04_Other', is_array=True),
        # PARAMETER has no EmbeddedObject attribute: only the qualifier says that e is an embedded instance
        CIMParameter('e', 'string', qualifiers=[q('EmbeddedInstance', 'C04_Other')])],
        qualifiers=[q('Static', True), q('Description', 'm')]),
        CIMMethod('M2', 'datetime')]
    plain = CIMClass('C04_New', properties=props, methods=meths, qualifiers=[q('Description', 'new')])
    sub = CIMClass('C04_NewSub', superclass='C04_Sub', properties=[CIMProperty('Extra', None, type='real64'),
                                                                  CIMProperty('Str', 'over', type='string',
                                                                              qualifiers=[q('Override', 'Str')])])
    assoc = CIMClass('C04_NewAssoc', qualifiers=[q('Association', True)], properties=[
        CIMProperty('A', None, type='reference', reference_class='C04_Base', qualifiers=[q('Key', True)]),
        CIMProperty('B', None, type='reference', reference_class='C04_New', qualifiers=[q('Key', True)])])
    return plain, sub, assoc


def fam_class_writes(dn):
    plain, sub, assoc = new_classes()
    withpath = plain.copy()
    withpath.classname = 'C04_NewP'
    withpath.path = CIMClassName('C04_NewP', namespace='Ns2/Sub', host=OTHERHOST)
    badsuper = CIMClass('C04_Orphan', superclass='C04_Nope')
    badqual = CIMClass('C04_BadQ', qualifiers=[CIMQualifier('NoSuchQualifier', True, overridable=True, tosubclass=True)],
                       properties=[CIMProperty('K', None, type='string')])
    for ns in (None, 'Ns2/Sub', '/root/cimv2/', 'third', 'nsX'):
        for c in (plain, sub, assoc, withpath, badsuper, badqual, plain):
            do(dn, 'class-write', 'CreateClass', c, namespace=ns)
            do(dn, 'class-write', 'GetClass', c.classname, namespace=ns, IncludeQualifiers=True, LocalOnly=False,
               IncludeClassOrigin=True)
    mod = plain.copy()
    mod.properties['Txt'].value = 'changed'
    del mod.properties['Arr']
    mod.properties['Added'] = CIMProperty('Added', Uint16(5), type='uint16')
    for ns in (None, 'Ns2/Sub', 'third', 'nsX'):
        do(dn, 'class-write', 'ModifyClass', mod, namespace=ns)
        do(dn, 'class-write', 'GetClass', 'C04_New', namespace=ns, IncludeQualifiers=True, LocalOnly=False)
    do(dn, 'class-write', 'ModifyClass', CIMClass('C04_Nope'))
    do(dn, 'class-write', 'CreateInstance', CIMInstance('C04_New', properties=[CIMProperty('NewKey', Uint64(1))]))
    for ns in (None, 'Ns2/Sub', 'third', 'nsX'):
        for cn in ('C04_Sub', 'C04_NewSub', 'c04_newassoc', CIMClassName('C04_New', namespace='nsX'), 'C04_NewP',
                   'C04_New', 'C04_New', 'C04_Nope'):
            do(dn, 'class-write', 'DeleteClass', cn, namespace=ns)
        do(dn, 'class-write', 'EnumerateClassNames', namespace=ns, DeepInheritance=True)


def new_qualifiers():
    out = [CIMQualifierDeclaration('C04_Q_' + t, t, value=sample_value(t), scopes={'PROPERTY': True, 'METHOD': True},
                                   overridable=(i % 3 == 0) or None, tosubclass=(i % 2 == 0), toinstance=None,
                                   translatable=(t == 'string') or None) for i, t in enumerate(TYPES)]
    out += [CIMQualifierDeclaration('C04_QA_' + t, t, is_array=True, value=[sample_value(t)], scopes={'ANY': True})
            for t in ('string', 'uint8', 'boolean', 'real64', 'datetime', 'char16')]
    out += [CIMQualifierDeclaration('C04_QNull', 'string', scopes={'CLASS': True}),
            CIMQualifierDeclaration('C04_QNullArr', 'sint32', is_array=True, scopes={'ASSOCIATION': True, 'INDICATION': True,
                                                                                    'REFERENCE': True}),
            CIMQualifierDeclaration('C04_QFixed', 'string', is_array=True, array_size=2, value=['a', 'b'],
                                    scopes={'PARAMETER': True}),
            CIMQualifierDeclaration('C04_QEmpty', 'string', is_array=True, value=[], scopes={'CLASS': True}),
            CIMQualifierDeclaration('C04_QFlav', 'boolean', value=False, scopes={'CLASS': True}, overridable=False,
                                    tosubclass=False, toinstance=True, translatable=True),
            CIMQualifierDeclaration('Description', 'string', value='redefined', scopes={'ANY': True})]
    return out


def sample_value(t, alt=0):
    if t == 'boolean':
        return bool(alt % 2)
    if t == 'string':
        return ['s <&> "x" é', '', ' lead', 'TRUE'][alt % 4]
    if t == 'char16':
        return Char16(['c', '<', 'é'][alt % 3])
    if t == 'datetime':
        return CIMDateTime([DT1, DT2][alt % 2])
    if t in ('real32', 'real64'):
        return PYCLASS[t]([0.5, -2.0, 1e10][alt % 3])
    lo = 0 if t.startswith('u') else -(2 ** (int(t[4:]) - 1))
    hi = 2 ** int(t[4:]) - 1 if t.startswith('u') else 2 ** (int(t[4:]) - 1) - 1
    return PYCLASS[t]([hi, lo, 1][alt % 3])


def fam_qualifiers(dn):
    for ns in ns_args(dn):
        do(dn, 'qual', 'EnumerateQualifiers', namespace=ns)
        for qn in ('Key', 'key', 'Values', 'C04_Spare', 'Nope', ''):
            do(dn, 'qual', 'GetQualifier', qn, namespace=ns)
    for ns in (None, 'Ns2/Sub', '/third/', 'nsX'):
        for qd in new_qualifiers():
            do(dn, 'qual-write', 'SetQualifier', qd, namespace=ns)
            do(dn, 'qual-write', 'GetQualifier', qd.name, namespace=ns)
        do(dn, 'qual-write', 'EnumerateQualifiers', namespace=ns)
        for qn in ('C04_Q_string', 'c04_q_uint8', 'C04_Q_string', 'Nope', 'Key'):
            do(dn, 'qual-write', 'DeleteQualifier', qn, namespace=ns)
        do(dn, 'qual-write', 'EnumerateQualifiers', namespace=ns)


def reset(dn):
    if dn in PAIRS:
        PAIRS[dn].broken = True


def prop_of(t, arr, value):
    return CIMProperty(PROPNAME[(t, arr)], value, type=t, is_array=arr)


PROPNAME = {('boolean', False): 'B', ('string', False): 'Str', ('char16', False): 'C16', ('uint8', False): 'U8',
            ('sint8', False): 'S8', ('uint16', False): 'U16', ('sint16', False): 'S16', ('uint32', False): 'U32',
            ('sint32', False): 'S32', ('uint64', False): 'U64', ('sint64', False): 'S64', ('real32', False): 'R32',
            ('real64', False): 'R64', ('datetime', False): 'DT', ('string', True): 'SA', ('boolean', True): 'BA',
            ('uint8', True): 'U8A', ('sint64', True): 'S64A', ('real64', True): 'R64A', ('datetime', True): 'DTA',
            ('char16', True): 'C16A'}


def fam_instance_writes(dn):
    n = [0]

    def fresh(cls='C04_Sub', props=()):
        n[0] += 1
        return CIMInstance(cls, properties=[CIMProperty('Id', 'w%d' % n[0])] + list(props))

    def create_and_get(inst, **kw):
        oa, ow = do(dn, 'create', 'CreateInstance', inst, **kw)
        if oa[0] == 'ok' and ow[0] == 'ok':
            step(pair(dn), 'create', 'GetInstance', (oa[1],), {}, wire_args=((ow[1],), {}))
    # every property type: one value, NULL, and for arrays: empty, two values, with a NULL entry
    for (t, arr), _ in sorted(PROPNAME.items()):
        if arr:
            vals = [None, [], [sample_value(t, 0), sample_value(t, 1)], [sample_value(t, 0), None], [None]]
        else:
            vals = [None] + [sample_value(t, i) for i in range(3 if THOROUGH else 2)]
        for v in vals:
            create_and_get(fresh(props=[prop_of(t, arr, v)]))
    # embedded objects and whole instances
    emb = other_inst(5, True, 'emb <&>', arr=[Sint16(1), Sint16(-1)])
    nested = sub_full('inner')
    for props in ([CIMProperty('Emb', emb, embedded_object='instance')],
                  [CIMProperty('EmbA', [emb, other_inst(6, False, '')], embedded_object='instance')],
                  [CIMProperty('EmbA', [emb, None], embedded_object='instance')],
                  [CIMProperty('EmbO', emb, embedded_object='object')],
                  [CIMProperty('EmbO', nested, embedded_object='object')],
                  [CIMProperty('EmbO', CIMClass('C04_Emb', properties=[CIMProperty('P', 'v', type='string')]),
                               embedded_object='object')],
                  [CIMProperty('Emb', with_path(emb, other_path(5, True, 'emb <&>', ns='Ns2/Sub')),
                               embedded_object='instance')]):
        create_and_get(fresh(props=props))
    full = sub_full('wfull')
    for ns in (None, 'Ns2/Sub', '/root/cimv2/', 'ns2/SUB', 'third', 'nsX'):
        create_and_get(full, namespace=ns)
    create_and_get(sub_full('wleaf', 'C04_Leaf'))
    create_and_get(sub_nulls('wnulls'))
    # namespace taken from the path of the new instance; host and keybindings of that path are ignored
    create_and_get(with_path(fresh(), CIMInstanceName('C04_Sub', [('Id', 'elsewhere')], namespace='Ns2/Sub',
                                                      host=OTHERHOST)))
    create_and_get(with_path(fresh(), base_path('x', 'C04_Sub', ns='Ns2/Sub')), namespace='root/cimv2')
    create_and_get(with_path(fresh(), base_path('x', 'C04_Sub')))
    create_and_get(other_inst(11, False, 'k <&> "11"'))
    # associations: references with namespace / host and namespace / none / to another namespace / dangling
    lefts = [base_path('b1', ns=dn), base_path('b 2', ns=dn, host='FakedUrl:5988'), base_path('b 2'),
             base_path('b 2', ns=dn, host=OTHERHOST), base_path('l1', 'C04_Leaf', ns=dn),
             base_path('b1', ns='Ns2/Sub' if dn != 'Ns2/Sub' else 'root/cimv2'), base_path('nope', ns=dn)]
    for i, left in enumerate(lefts):
        create_and_get(assoc_inst(left, other_path(2, False, '', ns=dn), 'w%d' % i))
    create_and_get(assoc_inst(None, other_path(1, True, 'k 1', ns=dn)))
    # invalid
    for inst in (sub_full('s1'), CIMInstance('C04_Sub', properties=[CIMProperty('Str', 'nokey')]),
                 CIMInstance('C04_Sub', properties=[CIMProperty('Id', None, type='string')]),
                 CIMInstance('C04_Nope', properties=[CIMProperty('Id', 'x')]),
                 fresh(props=[CIMProperty('Nope', 'x')]), fresh(props=[CIMProperty('U8', 'x', type='string')]),
                 fresh(props=[CIMProperty('U8', Uint16(1))]), fresh(props=[CIMProperty('SA', 'x', type='string')]),
                 fresh(props=[CIMProperty('Str', ['x'], type='string')]),
                 CIMInstance('c04_sub', properties=[CIMProperty('ID', 'wcase'), CIMProperty('sTR', 'cased')]),
                 CIMInstance('C04_Sub', properties=[CIMProperty('Id', 'wq', qualifiers=[CIMQualifier('Key', True)])],
                             qualifiers=[CIMQualifier('Description', 'inst q')])):
        create_and_get(inst)
    # ModifyInstance
    target = base_path('s1', 'C04_Sub')

    def modify(inst, pth, **kw):
        do(dn, 'modify', 'ModifyInstance', with_path(inst, pth), **kw)
        do(dn, 'modify', 'GetInstance', pth if pth is not None and pth.namespace not in ('nsX',) else target)
    changes = [[CIMProperty('Str', 'modified <&>')], [CIMProperty('Str', None, type='string')],
               [CIMProperty('U8', Uint8(7)), CIMProperty('SA', ['m', None], type='string')],
               [CIMProperty('B', True), CIMProperty('BA', [False, False], type='boolean')],
               [CIMProperty('Emb', other_inst(77, True, 'm'), embedded_object='instance')],
               [CIMProperty('DT', CIMDateTime(DT2)), CIMProperty('DTA', [], type='datetime')],
               [CIMProperty('Id', 's1'), CIMProperty('R64', Real64(2.5))], [CIMProperty('Id', 'other')],
               [CIMProperty('Nope', 'x')], [CIMProperty('U8', 'x', type='string')], []]
    for props in changes:
        for pl in thin(PLISTS[:9], 1 if len(props) < 2 else 3):
            modify(CIMInstance('C04_Sub', properties=props), target, PropertyList=pl)
    for iq in TRI:
        modify(CIMInstance('C04_Sub', properties=[CIMProperty('U32', Uint32(1))]), target, IncludeQualifiers=iq)
    for pth in inst_forms(base_path('s1', 'C04_Sub')):
        modify(CIMInstance('C04_Sub', properties=[CIMProperty('S8', Sint8(3))]), pth)
    modify(CIMInstance('C04_Base', properties=[CIMProperty('Str', 'class mismatch')]), target)
    modify(CIMInstance('C04_Leaf', properties=[CIMProperty('LeafProp', 'x')]), base_path('l1', 'C04_Leaf'))
    modify(sub_full('s2'), base_path('s2', 'C04_Sub'))
    modify(sub_nulls('s1'), target)
    a = assoc_paths(dn)[0]
    modify(CIMInstance('C04_Assoc', properties=[CIMProperty('Note', 'changed')]), a)
    modify(assoc_inst(base_path('b 2', ns=dn), other_path(1, True, 'k 1', ns=dn)), a)
    do(dn, 'modify', 'ModifyInstance', CIMInstance('C04_Sub', properties=[CIMProperty('Str', 'nopath')]))
    # DeleteInstance
    for pth in inst_forms(base_path('wfull', 'C04_Sub')) + [base_path('wfull', 'C04_Sub'), base_path('wleaf', 'C04_Leaf'),
                                                            base_path('wleaf', 'C04_Leaf'), base_path('b1'),
                                                            other_path(11, False, 'k <&> "11"'), a, a]:
        do(dn, 'delete', 'DeleteInstance', pth)
        do(dn, 'delete', 'EnumerateInstanceNames', pth.classname if pth.classname != 'C04_Nope' else 'C04_Base',
           namespace=pth.namespace if pth.namespace != 'nsX' else None)
    do(dn, 'delete', 'ReferenceNames', base_path('b1'))
    reset(dn)


OPENS = {
    'OpenEnumerateInstances': ('PullInstancesWithPath', lambda: ('C04_Base',)),
    'OpenEnumerateInstancePaths': ('PullInstancePaths', lambda: ('C04_Base',)),
    'OpenAssociatorInstances': ('PullInstancesWithPath', lambda: (base_path('b1'),)),
    'OpenAssociatorInstancePaths': ('PullInstancePaths', lambda: (base_path('b1'),)),
    'OpenReferenceInstances': ('PullInstancesWithPath', lambda: (base_path('b1'),)),
    'OpenReferenceInstancePaths': ('PullInstancePaths', lambda: (base_path('b1'),)),
    'OpenQueryInstances': ('PullInstances', lambda: ('DMTF:CQL', 'SELECT * FROM C04_Base')),
}
PULLS = ('PullInstancesWithPath', 'PullInstancePaths', 'PullInstances')


def session(dn, openop, args, kwargs, script):
    """Open, then the script of ('pull', op, MaxObjectCount) / ('close',) / ('drain', op, MaxObjectCount) steps; each
    side uses the context its own Open/Pull returned"""
    if sparse(dn, 1, 3):
        return
    p = pair(dn)
    oa, ow = step(p, 'pull', openop, args, kwargs)
    ctx = [oa[1].context if oa[0] == 'ok' else None, ow[1].context if ow[0] == 'ok' else None]
    last = list(ctx)        # kept for the reuse of a finished context

    def one(op, *rest):
        a = (ctx[0] if ctx[0] is not None else last[0],) + rest
        w = (ctx[1] if ctx[1] is not None else last[1],) + rest
        ra, rw = step(p, 'pull', op, a, {}, label=(openop, short((args, kwargs), 150), short(script, 100), op, rest),
                      wire_args=(w, {}))
        if op != 'CloseEnumeration':
            for i, r in enumerate((ra, rw)):
                if r[0] == 'ok':
                    if ctx[i] is not None:
                        last[i] = ctx[i]
                    ctx[i] = r[1].context
        else:
            for i in (0, 1):
                if ctx[i] is not None:
                    last[i] = ctx[i]
                ctx[i] = None
        return ra, rw
    for s in script:
        if s[0] == 'pull':
            one(s[1], s[2])
        elif s[0] == 'close':
            one('CloseEnumeration')
        else:
            for _ in range(12):
                if ctx[0] is None and ctx[1] is None:
                    break
                one(s[1], s[2])


def fam_pull(dn):
    counts = [None, 0, 1, 2, 3, 100]
    for openop, (pullop, mkargs) in OPENS.items():
        target_sets = [mkargs()]
        if openop.startswith('OpenEnumerate'):
            target_sets += [(c,) for c in ('C04_Sub', 'C04_Other', CIMClassName('C04_Assoc', namespace='Ns2/Sub'),
                                           'C04_Nope')]
        elif openop != 'OpenQueryInstances':
            target_sets += [(base_path('s1', 'C04_Sub', ns='Ns2/Sub', host=OTHERHOST),), (other_path(1, True, 'k 1'),),
                            (base_path('nope'),), ('C04_Base',)]
        for ti, args in enumerate(target_sets):
            for moc, pmoc in thin(itertools.product(counts, (1, 2, 100)), 1 if ti == 0 else 5):
                session(dn, openop, args, dict(MaxObjectCount=moc), [('drain', pullop, pmoc)])
        args = mkargs()
        others = [q for q in PULLS if q != pullop]
        session(dn, openop, args, dict(MaxObjectCount=1), [('close',), ('pull', pullop, 1), ('close',)])
        session(dn, openop, args, dict(MaxObjectCount=1), [('pull', others[0], 1), ('pull', pullop, 0),
                                                           ('drain', pullop, 1),
                                                           ('pull', pullop, 1), ('close',)])
        session(dn, openop, args, dict(MaxObjectCount=0), [('pull', pullop, 0), ('pull', others[1], 5), ('close',)])
        session(dn, openop, args, dict(MaxObjectCount=100), [('pull', pullop, 1), ('close',)])
        if openop == 'OpenQueryInstances':
            for rq in TRI:
                session(dn, openop, args, dict(ReturnQueryResultClass=rq, MaxObjectCount=1), [('drain', pullop, 1)])
            for ql, q in (('WQL', 'SELECT * FROM C04_Base'), ('DMTF:CQL', 'nonsense'), ('', ''),
                          ('DMTF:CQL', 'SELECT Id FROM C04_Nope')):
                session(dn, openop, (ql, q), dict(MaxObjectCount=1), [('drain', pullop, 1)])
            for ns in ('Ns2/Sub', '/root/cimv2/', 'nsX'):
                session(dn, openop, args, dict(namespace=ns, MaxObjectCount=1), [('drain', pullop, 2)])
            continue
        for kw in (dict(FilterQueryLanguage='DMTF:FQL', FilterQuery='Str = \'s-b1\''), dict(FilterQuery='x = 1'),
                   dict(FilterQueryLanguage='WQL', FilterQuery='x'), dict(FilterQueryLanguage='DMTF:FQL'),
                   dict(OperationTimeout=0), dict(OperationTimeout=40), dict(OperationTimeout=41),
                   dict(OperationTimeout=2**32 - 1), dict(ContinueOnError=True), dict(ContinueOnError=False)):
            session(dn, openop, args, dict(kw, MaxObjectCount=1), [('drain', pullop, 1)])
        if openop.startswith('OpenEnumerate'):
            for ns in ns_args(dn):
                session(dn, openop, args, dict(namespace=ns, MaxObjectCount=2), [('drain', pullop, 2)])
        if openop.endswith('Instances'):
            for pl, ico in thin(itertools.product(PLISTS, TRI), 3):
                session(dn, openop, args, dict(PropertyList=pl, IncludeClassOrigin=ico, MaxObjectCount=1),
                        [('drain', pullop, 3)])
        if openop == 'OpenEnumerateInstances':
            for di in TRI:
                session(dn, openop, args, dict(DeepInheritance=di, MaxObjectCount=100), [])
        if 'Associator' in openop:
            for kw in (dict(AssocClass='C04_Assoc', ResultClass=CIMClassName('C04_Other', namespace='x', host='h')),
                       dict(Role='Left', ResultRole='right'), dict(Role='Right'), dict(ResultClass='C04_Base')):
                session(dn, openop, args, dict(kw, MaxObjectCount=1), [('drain', pullop, 1)])
        if 'Reference' in openop:
            for kw in (dict(ResultClass='C04_Assoc', Role='left'), dict(Role='Right'), dict(ResultClass='C04_Other')):
                session(dn, openop, args, dict(kw, MaxObjectCount=1), [('drain', pullop, 1)])
    # contexts that no server handed out
    for op in PULLS:
        do(dn, 'pull-bad', op, ('no-such-context', dn), 1)
        do(dn, 'pull-bad', op, ('no-such-context', 'nsX'), 1)
    do(dn, 'pull-bad', 'CloseEnumeration', ('no-such-context', dn))
    do(dn, 'pull-bad', 'CloseEnumeration', ('', 'Ns2/Sub'))


ITERS = {
    'IterEnumerateInstances': lambda: ('C04_Base',), 'IterEnumerateInstancePaths': lambda: ('C04_Base',),
    'IterAssociatorInstances': lambda: (base_path('b1'),), 'IterAssociatorInstancePaths': lambda: (base_path('b1'),),
    'IterReferenceInstances': lambda: (base_path('b1'),), 'IterReferenceInstancePaths': lambda: (base_path('b1'),),
    'IterQueryInstances': lambda: ('DMTF:CQL', 'SELECT * FROM C04_Base'),
}


def fam_iter(dn):
    for mode in (None, True, False):
        for disabled in (False, True):
            for op, mkargs in ITERS.items():
                variants = [dict(), dict(MaxObjectCount=1), dict(MaxObjectCount=2), dict(MaxObjectCount=1000),
                            dict(MaxObjectCount=0), dict(MaxObjectCount=None), dict(OperationTimeout=5),
                            dict(ContinueOnError=False), dict(FilterQueryLanguage='DMTF:FQL', FilterQuery='a = 1')]
                if op != 'IterQueryInstances':
                    if 'Enumerate' in op:
                        variants += [dict(namespace=ns) for ns in ('Ns2/Sub', '/root/cimv2/', 'nsX')]
                    if op.endswith('Instances'):
                        variants += [dict(PropertyList=pl, MaxObjectCount=2) for pl in PLISTS[:6]]
                        variants += [dict(IncludeQualifiers=a, IncludeClassOrigin=b)
                                     for a, b in ((True, True), (False, None))]
                    if op == 'IterEnumerateInstances':
                        variants += [dict(DeepInheritance=d, LocalOnly=lo) for d in TRI for lo in TRI]
                    if 'Associator' in op:
                        variants += [dict(AssocClass='C04_Assoc', ResultClass='C04_Other', Role='Left', ResultRole='Right')]
                    if 'Reference' in op:
                        variants += [dict(ResultClass='C04_Assoc', Role='left')]
                else:
                    variants = [dict(), dict(MaxObjectCount=1), dict(ReturnQueryResultClass=True),
                                dict(namespace='Ns2/Sub'), dict(MaxObjectCount=0)]
                for kw in thin(variants, 1 if (mode is None and not disabled) else 3):
                    if sparse(dn):
                        continue
                    p = pair(dn)
                    p.pull_mode(mode)
                    p.A.disable_pull_operations = p.B.disable_pull_operations = disabled
                    step(p, 'iter', op, mkargs(), kw, label=(op, mode, disabled, short(kw, 150)))
                for args in ([('C04_Nope',), (CIMClassName('C04_Sub', namespace='Ns2/Sub'),)] if 'Enumerate' in op else
                             [(base_path('nope'),), ('C04_Base',),
                              (base_path('s1', 'C04_Sub', ns='Ns2/Sub', host=OTHERHOST),)]
                             if op != 'IterQueryInstances' else [('WQL', 'x')]):
                    p = pair(dn)
                    p.pull_mode(mode)
                    p.A.disable_pull_operations = p.B.disable_pull_operations = disabled
                    step(p, 'iter', op, args, dict(MaxObjectCount=2), label=(op, mode, disabled, short(args, 150)))
    p = pair(dn)
    p.pull_mode(None)
    p.A.disable_pull_operations = p.B.disable_pull_operations = False


def invoke_targets():
    return ['C04_Sub', 'c04_sub', CIMClassName('C04_Sub'), CIMClassName('C04_Sub', namespace='Ns2/Sub'),
            CIMClassName('C04_Sub', namespace='root/cimv2', host=OTHERHOST), CIMClassName('C04_Sub', host=OTHERHOST),
            CIMClassName('C04_Leaf', namespace='/Ns2/Sub/'), base_path('s1', 'C04_Sub'),
            base_path('s1', 'C04_Sub', ns='Ns2/Sub'), base_path('l1', 'C04_Leaf', ns='root/cimv2', host=OTHERHOST),
            base_path('S1', 'c04_SUB', ns='ns2/sub'), base_path('nope', 'C04_Sub'), 'C04_Base', 'C04_Nope',
            CIMClassName('C04_Sub', namespace='third'), CIMClassName('C04_Sub', namespace='nsX'),
            base_path('b1'), base_path('s1', 'C04_Sub', ns='nsX')]


def values_for(t, arr):
    if not arr:
        return [sample_value(t, i) for i in range(3)]
    a, b = sample_value(t, 0), sample_value(t, 1)
    return [[a], [a, b], [b, b, a], [a, None], [None, a], [None]]


def fam_invoke(dn):
    for tgt in invoke_targets():
        do(dn, 'invoke-target', 'InvokeMethod', 'Echo', tgt, p_string='x')
        do(dn, 'invoke-target', 'InvokeMethod', 'InstEcho', tgt, p_string='x <&>', p_uint32=Uint32(0))
        do(dn, 'invoke-target', 'InvokeMethod', 'echo', tgt)
        do(dn, 'invoke-target', 'InvokeMethod', 'Ret_boolean', tgt, v=True)
    # every parameter type, in each of the three ways a parameter can be given
    for t, name, arr in ECHO_PARAMS:
        for v in values_for(t, arr):
            do(dn, 'invoke-kw', 'InvokeMethod', 'Echo', 'C04_Sub', **{name: v})
            do(dn, 'invoke-tuple', 'InvokeMethod', 'Echo', CIMClassName('C04_Sub'), [(name, v)])
            do(dn, 'invoke-param', 'InvokeMethod', 'Echo', base_path('s1', 'C04_Sub'),
               [CIMParameter(name, t, value=v, is_array=arr)])
        for v in ([None, []] if arr else [None]):
            do(dn, 'invoke-param', 'InvokeMethod', 'Echo', 'C04_Sub', [CIMParameter(name, t, value=v, is_array=arr)])
            do(dn, 'invoke-kw', 'InvokeMethod', 'Echo', 'C04_Sub', **{name: v})
        if not arr:
            for v in values_for(t, False) + [None]:
                do(dn, 'invoke-ret', 'InvokeMethod', 'Ret_' + t, 'C04_Sub', [CIMParameter('v', t, value=v)])
    # references and embedded objects
    refs = [base_path('b1'), base_path('b1', ns='Ns2/Sub'), base_path('s1', 'C04_Sub', ns='root/cimv2', host=OTHERHOST),
            other_path(1, True, 'k <&>', ns='a/b/c'), CIMClassName('C04_Base'),
            CIMClassName('C04_Base', namespace='Ns2/Sub'), CIMClassName('C04_Base', namespace='n', host=OTHERHOST),
            CIMInstanceName('C04_Assoc', [('Left', base_path('b1', ns='n1', host='h1')),
                                          ('Right', other_path(1, True, '', ns='n2'))], namespace='n3')]
    emb = other_inst(5, True, 'emb <&> "q"', arr=[Sint16(1)])
    embs = [emb, sub_full('e1'), sub_nulls('e2'), with_path(emb, other_path(5, True, 'x', ns='Ns2/Sub'))]
    klass = CIMClass('C04_Emb', properties=[CIMProperty('P', 'v <&>', type='string')],
                     methods=[CIMMethod('M', 'uint8')], qualifiers=[CIMQualifier('Description', 'd')])
    for r in refs:
        do(dn, 'invoke-ref', 'InvokeMethod', 'Echo', 'C04_Sub', p_ref=r)
        do(dn, 'invoke-ref', 'InvokeMethod', 'Echo', 'C04_Sub', [('p_ref', r)])
        do(dn, 'invoke-ref', 'InvokeMethod', 'Echo', 'C04_Sub', [CIMParameter('p_ref', 'reference', value=r)])
    for ra in ([refs[0]], refs[:4], [refs[1], None], [None], []):
        do(dn, 'invoke-ref', 'InvokeMethod', 'Echo', 'C04_Sub', pa_ref=ra)
        do(dn, 'invoke-ref', 'InvokeMethod', 'Echo', 'C04_Sub', [CIMParameter('pa_ref', 'reference', value=ra,
                                                                               is_array=True)])
    for e in embs:
        do(dn, 'invoke-emb', 'InvokeMethod', 'Echo', 'C04_Sub', p_emb=e)
        do(dn, 'invoke-emb', 'InvokeMethod', 'Echo', 'C04_Sub', p_embo=e)
        do(dn, 'invoke-emb', 'InvokeMethod', 'Echo', 'C04_Sub',
           [CIMParameter('p_emb', 'string', value=e, embedded_object='instance')])
        do(dn, 'invoke-emb', 'InvokeMethod', 'Echo', 'C04_Sub',
           [CIMParameter('p_embo', 'string', value=e, embedded_object='object')])
    do(dn, 'invoke-emb', 'InvokeMethod', 'Echo', 'C04_Sub', p_embo=klass)
    do(dn, 'invoke-emb', 'InvokeMethod', 'Echo', 'C04_Sub', [CIMParameter('p_embo', 'string', value=klass,
                                                                           embedded_object='object')])
    for ea in ([emb], [emb, embs[1]], [emb, None], []):
        do(dn, 'invoke-emb', 'InvokeMethod', 'Echo', 'C04_Sub', pa_emb=ea)
        do(dn, 'invoke-emb', 'InvokeMethod', 'Echo', 'C04_Sub',
           [CIMParameter('pa_emb', 'string', value=ea, is_array=True, embedded_object='instance')])
        do(dn, 'invoke-emb', 'InvokeMethod', 'Echo', 'C04_Sub',
           [CIMParameter('pa_embo', 'string', value=ea, is_array=True, embedded_object='object')])
    do(dn, 'invoke-emb', 'InvokeMethod', 'Echo', 'C04_Sub', pa_embo=[klass, klass])
    # everything at once, Params and keywords mixed, names in another case
    everything = [CIMParameter(n, t, value=values_for(t, arr)[1], is_array=arr) for t, n, arr in ECHO_PARAMS]
    do(dn, 'invoke-all', 'InvokeMethod', 'Echo', 'C04_Sub', everything, p_ref=refs[1], p_emb=emb)
    do(dn, 'invoke-all', 'InvokeMethod', 'Echo', base_path('s1', 'C04_Sub'), everything[:5], P_REAL64=Real64(2.5))
    do(dn, 'invoke-all', 'InvokeMethod', 'Echo', 'C04_Sub', [('P_UINT8', Uint8(1)), ('p_sint8', Sint8(1))],
       P_Uint16=Uint16(2))
    # server-side errors
    for m, tgt, params in (('Nope', 'C04_Sub', {}), ('InstEcho', 'C04_Sub', {}), ('Echo', 'C04_Sub', dict(nope='x')),
                           ('Echo', 'C04_Sub', dict(p_uint8='x')), ('Echo', 'C04_Sub', dict(p_uint8=Uint16(1))),
                           ('Echo', 'C04_Sub', dict(p_string=['x'])), ('Echo', 'C04_Sub', dict(pa_string='x')),
                           ('Echo', 'C04_Sub', dict(p_string=emb)), ('Echo', 'C04_Sub', dict(p_emb='x')),
                           ('InstEcho', base_path('s1', 'C04_Sub'), dict(p_outonly='x')),
                           ('Echo', 'C04_Other', {}), ('', 'C04_Sub', {})):
        do(dn, 'invoke-error', 'InvokeMethod', m, tgt, **params)
    # local argument errors
    for args, kw in ((('Echo', 5), {}), (('Echo', None), {}), (('Echo', 'C04_Sub', 5), {}),
                     (('Echo', 'C04_Sub', [5]), {}), (('Echo', 'C04_Sub', [('p_uint8', 1)]), {}),
                     (('Echo', 'C04_Sub'), dict(p_uint8=1)), (('Echo', 'C04_Sub'), dict(p_real32=1.5)),
                     (('Echo', 'C04_Sub'), dict(p_string=object())), (('Echo', 'C04_Sub'), dict(pa_uint8=[1])),
                     (('Echo', 'C04_Sub', [('p_string',)]), {})):
        do(dn, 'invoke-local', 'InvokeMethod', *args, **kw)


def fam_query(dn):
    for ql, q in (('WQL', 'SELECT * FROM C04_Base'), ('DMTF:CQL', 'SELECT * FROM C04_Base'), ('DMTF:CQL', 'x'),
                  ('', ''), ('Nope', 'SELECT')):
        for ns in (None, 'Ns2/Sub', '/root/cimv2/', 'nsX'):
            do(dn, 'query', 'ExecQuery', ql, q, namespace=ns)


def fam_local_errors(dn):
    """arguments the client refuses (or passes on) before anything is sent: the same kind of exception on both paths"""
    ip, inst = base_path('b1'), CIMInstance('C04_Base', properties=[CIMProperty('Id', 'le')])
    bad = [5, 1.5, b'C04_Base', ['C04_Base'], object]
    for v in bad + [None]:
        for op, args, kw in (
                ('EnumerateInstances', (v,), {}), ('EnumerateInstances', ('C04_Base',), dict(namespace=v)),
                ('EnumerateInstances', ('C04_Base',), dict(LocalOnly=v)),
                ('EnumerateInstances', ('C04_Base',), dict(PropertyList=v)),
                ('EnumerateInstanceNames', (v,), {}), ('EnumerateInstanceNames', ('C04_Base',), dict(namespace=v)),
                ('GetInstance', (v,), {}), ('GetInstance', (ip,), dict(IncludeQualifiers=v)),
                ('GetInstance', (ip,), dict(PropertyList=v)), ('ModifyInstance', (v,), {}),
                ('ModifyInstance', (with_path(inst, ip),), dict(PropertyList=v)),
                ('ModifyInstance', (with_path(inst, ip),), dict(IncludeQualifiers=v)),
                ('CreateInstance', (v,), {}), ('CreateInstance', (inst,), dict(namespace=v)),
                ('DeleteInstance', (v,), {}), ('Associators', (v,), {}), ('Associators', (ip,), dict(AssocClass=v)),
                ('Associators', (ip,), dict(Role=v)), ('Associators', (ip,), dict(IncludeClassOrigin=v)),
                ('AssociatorNames', (v,), {}), ('AssociatorNames', (ip,), dict(ResultClass=v)),
                ('AssociatorNames', (ip,), dict(ResultRole=v)), ('References', (v,), {}),
                ('References', (ip,), dict(ResultClass=v)), ('References', (ip,), dict(PropertyList=v)),
                ('ReferenceNames', (v,), {}), ('ReferenceNames', (ip,), dict(Role=v)),
                ('ExecQuery', (v, 'q'), {}), ('ExecQuery', ('WQL', v), {}), ('ExecQuery', ('WQL', 'q'), dict(namespace=v)),
                ('EnumerateClasses', (), dict(ClassName=v)) if v is not None else
                ('EnumerateClasses', (), dict(namespace=5)),
                ('EnumerateClasses', (), dict(DeepInheritance=v)), ('EnumerateClassNames', (), dict(namespace=v)),
                ('EnumerateClassNames', (), dict(DeepInheritance=v)), ('GetClass', (v,), {}),
                ('GetClass', ('C04_Base',), dict(PropertyList=v)), ('GetClass', ('C04_Base',), dict(LocalOnly=v)),
                ('ModifyClass', (v,), {}), ('CreateClass', (v,), {}),
                ('CreateClass', (CIMClass('C04_LE'),), dict(namespace=v))
                if v is not None else ('CreateClass', (5,), {}),
                ('DeleteClass', (v,), {}), ('EnumerateQualifiers', (), dict(namespace=v)) if v is not None else
                ('GetQualifier', (None,), {}), ('GetQualifier', (v,), {}), ('SetQualifier', (v,), {}),
                ('DeleteQualifier', (v,), {}), ('OpenEnumerateInstances', (v,), {}),
                ('OpenEnumerateInstances', ('C04_Base',), dict(MaxObjectCount=v)),
                ('OpenEnumerateInstances', ('C04_Base',), dict(OperationTimeout=v)),
                ('OpenEnumerateInstances', ('C04_Base',), dict(ContinueOnError=v)),
                ('OpenEnumerateInstances', ('C04_Base',), dict(FilterQuery=v)),
                ('OpenEnumerateInstancePaths', (v,), {}), ('OpenEnumerateInstancePaths', ('C04_Base',), dict(namespace=v)),
                ('OpenAssociatorInstances', (v,), {}), ('OpenAssociatorInstances', (ip,), dict(ResultRole=v)),
                ('OpenAssociatorInstancePaths', (v,), {}), ('OpenAssociatorInstancePaths', (ip,), dict(AssocClass=v)),
                ('OpenReferenceInstances', (v,), {}), ('OpenReferenceInstances', (ip,), dict(PropertyList=v)),
                ('OpenReferenceInstancePaths', (v,), {}), ('OpenReferenceInstancePaths', (ip,), dict(FilterQueryLanguage=v)),
                ('OpenQueryInstances', (v, 'q'), {}), ('OpenQueryInstances', ('DMTF:CQL', v), {}),
                ('OpenQueryInstances', ('DMTF:CQL', 'q'), dict(ReturnQueryResultClass=v)),
                ('PullInstancesWithPath', (v, 1), {}), ('PullInstancesWithPath', (('c', dn), v), {}),
                ('PullInstancePaths', (v, 1), {}), ('PullInstancePaths', (('c', dn), v), {}),
                ('PullInstances', (v, 1), {}), ('PullInstances', (('c', dn), v), {}), ('CloseEnumeration', (v,), {}),
                ('IterEnumerateInstances', (v,), {}), ('IterEnumerateInstances', ('C04_Base',), dict(MaxObjectCount=v)),
                ('IterEnumerateInstancePaths', (v,), {}), ('IterAssociatorInstances', (v,), {}),
                ('IterAssociatorInstancePaths', (v,), {}), ('IterReferenceInstances', (v,), {}),
                ('IterReferenceInstancePaths', (v,), {}), ('IterQueryInstances', (v, 'q'), {}),
                ('IterQueryInstances', ('DMTF:CQL', 'q'), dict(OperationTimeout=v))):
            if v is None and (op in ('ModifyClass', 'CreateClass') or (op in PULLS and args[0] is not None) or
                              (op in ('OpenQueryInstances', 'IterQueryInstances') and None in args)):
                continue        # the client passes a missing required argument on; what then happens is the server's
            do(dn, 'local', op, *args, **kw)
    for op, args, kw in (('OpenEnumerateInstances', ('C04_Base',), dict(MaxObjectCount=-1)),
                         ('OpenEnumerateInstances', ('C04_Base',), dict(OperationTimeout=-1)),
                         ('PullInstancesWithPath', (('c',), 1), {}), ('PullInstancesWithPath', (('c', dn, 'x'), 1), {}),
                         ('PullInstancePaths', (['c', dn], -1), {}),
                         ('IterEnumerateInstances', ('C04_Base',), dict(MaxObjectCount=-1)),
                         ('ModifyInstance', (inst,), {}), ('GetInstance', ('C04_Base',), {}),
                         ('DeleteInstance', ('C04_Base',), {}), ('CreateInstance', (ip,), {}),
                         ('GetInstance', (CIMClassName('C04_Base'),), {}),
                         ('EnumerateInstances', (ip,), {}), ('GetClass', (ip,), {}),
                         ('EnumerateInstances', ('C04_Base',), dict(LocalOnly=1)),
                         ('EnumerateInstances', ('C04_Base',), dict(LocalOnly='true')),
                         ('GetQualifier', ('Key',), dict(namespace=CIMClassName('x')))):
        do(dn, 'local', op, *args, **kw)


POOL = []
_step = step


def step(p, fam, op, args, kwargs, label=None, wire_args=None):     # noqa: F811
    if wire_args is None and len(POOL) < 40000:
        POOL.append((op, args, kwargs))
    return _step(p, fam, op, args, kwargs, label, wire_args)


def random_sequences(rnd, count, length):
    """seeded sequences over everything the families issued, on fresh repositories: reads see the state left by
    arbitrary earlier writes"""
    pool = list(POOL)
    for i in range(count):
        dn = DEFAULTS[i % 2]
        reset(dn)
        for j in range(length):
            op, args, kwargs = pool[rnd.randrange(len(pool))]
            p = pair(dn)
            _step(p, 'random', op, args, kwargs, label=('seq', i, j, op, short((args, kwargs), 150)))
        d = pair(dn).repo_diff()
        if d:
            violation('random-sequence-repositories-differ-%s' % d[0].split(' ')[0], sequence=i, direct_value=d[1],
                      wire_value=d[2])


FAMILIES = [fam_enumerate, fam_getinstance, fam_assoc, fam_classes, fam_query, fam_local_errors, fam_invoke, fam_pull,
            fam_iter, fam_instance_writes, fam_class_writes, fam_qualifiers]


def main():
    import os
    import time
    only = os.environ.get('C04_ONLY')
    timing = os.environ.get('C04_TIMING')
    for dn in DEFAULTS:
        for fam in FAMILIES:
            if only and fam.__name__ not in only.split(','):
                continue
            t0, c0 = time.time(), R.cases
            try:
                fam(dn)
            except Exception as e:     # pylint: disable=broad-except
                violation('harness-%s-%s' % (fam.__name__, type(e).__name__), error=str(e)[:300],
                          trace=traceback.format_exc()[-1500:])
            if dn in PAIRS and not PAIRS[dn].broken:
                d = PAIRS[dn].repo_diff(full=True)
                if d:
                    violation('%s-repositories-differ-at-the-end-%s' % (fam.__name__, d[0].split(' ')[0]),
                              repository_slot=d[0], direct_value=d[1], wire_value=d[2], where=d[3])
                    reset(dn)
            if fam in (fam_class_writes, fam_qualifiers):
                reset(dn)
            if timing:
                print('#', dn, fam.__name__, R.cases - c0, round(time.time() - t0, 2), flush=True)
    if THOROUGH and not only:
        random_sequences(random.Random(R.seed), 300, 40)
    flush()


main()
