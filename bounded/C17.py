"""Bounded stand-in for C17: the WBEM listener answers any HTTP request with one well-formed response and survives.

Raw request bytes are sent over a loopback socket to a real WBEMListener (HTTP port).  The oracle is independent of
pywbem: an own HTTP response parser (RFC 9110/9112 syntax), an own reference model of the DSP0200 header / version /
parameter rules giving the set of acceptable outcomes per request, xml.etree for the response body, an own CIM-XML
serialiser for the indications, and the callback log compared against the instances that were sent."""
import codecs
import os
import logging
import random
import re
import socket
import sys
import threading
import time
import warnings
import xml.etree.ElementTree as ET

from bounded.common import Run
from pywbem import WBEMListener, CIMInstance, CIMInstanceName

R = Run('loopback HTTP listener: 9 verbs + unknown verbs; Accept/Accept-Charset/Content-Type/Content-Encoding value '
        'tables (pass/grey/reject) singly and crossed; Content-Length absent/garbage/negative/short/long/huge; '
        'export-message mutations (versions, elements, attributes, method, parameters, instance values), every '
        'truncation and byte substitution/deletion of a reference message (quick: seeded sample); request-line '
        'garbage; pipelining/Expect/chunked; 8-thread mix; queue-full sequence; a valid indication (30-instance pool '
        'x 12 HTTP variants, rotating) checked for delivery after every hostile request')

warnings.simplefilter('ignore')
logging.getLogger('pywbem').addHandler(logging.NullHandler())
TIMEOUT = 10.0 * float(os.environ.get('PYVC_BOUNDED_SLOW', '1'))     # confirmation run: x4 (runner)
TIMEOUTS = [0]


class Abort(Exception):
    pass
QUICK = R.tier == 'quick'
RND = random.Random(R.seed)


# ----------------------------------------------------------------------------------------------------------------
# own CIM-XML serialiser for indication instances (spec -> XML) and comparison of a delivered instance with the spec
# spec: ('inst', classname, [prop...]); prop: (name, type, is_array, value, extra) ; extra: dict(emb=..., raw=...)
# ----------------------------------------------------------------------------------------------------------------
def esc(s, attr=False):
    s = s.replace('&', '&amp;').replace('<', '&lt;').replace('>', '&gt;').replace('\r', '&#13;')
    if attr:
        s = s.replace('"', '&quot;').replace('\n', '&#10;').replace('\t', '&#9;')
    return s


def scalar_text(typ, v, extra):
    if extra.get('emb'):
        return esc(inst_xml(v))
    if typ == 'boolean':
        return extra.get('booltext', {True: 'true', False: 'false'})[v] if 'booltext' in extra else ('true' if v else 'false')
    if typ in ('string', 'char16', 'datetime'):
        return esc(v)
    if typ.startswith('real'):
        return repr(float(v))
    return extra.get('inttext', str(v))


def ref_xml(ref):
    cn, keys, ns, host = ref
    kb = ''.join('<KEYBINDING NAME="%s"><KEYVALUE VALUETYPE="%s">%s</KEYVALUE></KEYBINDING>' % (
        esc(k, True), 'boolean' if isinstance(v, bool) else 'numeric' if isinstance(v, int) else 'string',
        ('TRUE' if v else 'FALSE') if isinstance(v, bool) else esc(str(v))) for k, v in keys)
    iname = '<INSTANCENAME CLASSNAME="%s">%s</INSTANCENAME>' % (esc(cn, True), kb)
    if ns is None:
        return iname
    lns = '<LOCALNAMESPACEPATH>%s</LOCALNAMESPACEPATH>' % ''.join(
        '<NAMESPACE NAME="%s"/>' % esc(x, True) for x in ns.split('/'))
    if host is None:
        return '<LOCALINSTANCEPATH>%s%s</LOCALINSTANCEPATH>' % (lns, iname)
    return '<INSTANCEPATH><NAMESPACEPATH><HOST>%s</HOST>%s</NAMESPACEPATH>%s</INSTANCEPATH>' % (esc(host), lns, iname)


def prop_xml(p):
    name, typ, arr, v, extra = p
    attrs = ' NAME="%s"' % esc(name, True)
    if typ == 'reference':
        if extra.get('refclass'):
            attrs += ' REFERENCECLASS="%s"' % esc(extra['refclass'], True)
        body = '' if v is None else '<VALUE.REFERENCE>%s</VALUE.REFERENCE>' % ref_xml(v)
        return '<PROPERTY.REFERENCE%s>%s</PROPERTY.REFERENCE>' % (attrs, body)
    attrs += ' TYPE="%s"' % typ
    if extra.get('emb'):
        attrs += ' %s="%s"' % (extra.get('embattr', 'EmbeddedObject'), extra['emb'])
    attrs += extra.get('attrs', '')
    quals = extra.get('quals', '')
    if arr:
        if v is None:
            body = ''
        else:
            body = '<VALUE.ARRAY>%s</VALUE.ARRAY>' % ''.join(
                '<VALUE.NULL/>' if x is None else '<VALUE>%s</VALUE>' % scalar_text(typ, x, extra) for x in v)
        return '<PROPERTY.ARRAY%s>%s%s</PROPERTY.ARRAY>' % (attrs, quals, body)
    if v is None:
        body = ''
    elif extra.get('cdata'):
        body = '<VALUE><![CDATA[%s]]></VALUE>' % v
    else:
        body = '<VALUE>%s</VALUE>' % scalar_text(typ, v, extra)
    return '<PROPERTY%s>%s%s</PROPERTY>' % (attrs, quals, body)


def inst_xml(spec, sep=''):
    _, cn, props = spec
    return '<INSTANCE CLASSNAME="%s">%s%s</INSTANCE>' % (esc(cn, True), sep, ''.join(prop_xml(p) + sep for p in props))


def same_scalar(typ, want, got, extra):
    if want is None or got is None:
        return want is None and got is None
    if extra.get('emb'):
        return isinstance(got, CIMInstance) and not diff_inst(want, got)
    if typ == 'boolean':
        return isinstance(got, bool) and got == want
    if typ in ('string', 'char16'):
        return isinstance(got, str) and got == want
    if typ == 'datetime':
        return str(got) == want
    if typ.startswith('real'):
        return float(got) == float(want)
    return not isinstance(got, bool) and int(got) == want and getattr(got, 'cimtype', typ) == typ


def diff_inst(spec, inst):
    """'' when the delivered CIMInstance equals the spec, else a short description of the first difference."""
    _, cn, props = spec
    if not isinstance(inst, CIMInstance):
        return 'not a CIMInstance: %r' % type(inst)
    if inst.classname != cn:
        return 'classname %r != %r' % (inst.classname, cn)
    want_names = sorted(p[0].lower() for p in props)
    got_names = sorted(k.lower() for k in inst.properties.keys())
    if want_names != got_names:
        return 'property names %r != %r' % (got_names, want_names)
    for name, typ, arr, v, extra in props:
        p = inst.properties[name]
        if p.type != typ or bool(p.is_array) != arr:
            return 'property %r: type/is_array %r/%r != %r/%r' % (name, p.type, p.is_array, typ, arr)
        if typ == 'reference':
            if v is None:
                ok = p.value is None
            else:
                cn2, keys, ns, host = v
                g = p.value
                ok = isinstance(g, CIMInstanceName) and g.classname == cn2 and g.namespace == ns and g.host == host \
                    and sorted((k.lower(), type(x).__name__ if isinstance(x, (bool, str)) else 'int', x if isinstance(x, (bool, str)) else int(x))
                               for k, x in g.keybindings.items()) \
                    == sorted((k.lower(), type(x).__name__, x) for k, x in keys)
            if ok and extra.get('refclass') is not None:
                ok = p.reference_class == extra['refclass']
        elif arr:
            ok = (v is None and p.value is None) or (
                v is not None and isinstance(p.value, list) and len(p.value) == len(v)
                and all(same_scalar(typ, a, b, extra) for a, b in zip(v, p.value)))
        else:
            ok = same_scalar(typ, v, p.value, extra)
        if ok and extra.get('emb'):
            ok = p.embedded_object == extra['emb']
        if not ok:
            return 'property %r: value %.120r != %.120r' % (name, p.value, v)
    return ''


def P(name, typ, v, arr=False, **extra):
    return (name, typ, arr, v, extra)


def instance_pool():
    U = {'uint8': 2**8 - 1, 'uint16': 2**16 - 1, 'uint32': 2**32 - 1, 'uint64': 2**64 - 1}
    S = {'sint8': 2**7, 'sint16': 2**15, 'sint32': 2**31, 'sint64': 2**63}
    sub = ('inst', 'CIM_Sub', [P('x', 'uint8', 5), P('t', 'string', 'a<b>&"c\'')])
    sub2 = ('inst', 'CIM_Outer', [P('inner', 'string', sub, emb='instance'), P('n', 'sint16', -3)])
    pool = [
        ('inst', 'CIM_AlertIndication', [P('Description', 'string', 'fan failed'), P('AlertType', 'uint16', 5),
                                          P('PerceivedSeverity', 'uint16', 7)]),
        ('inst', 'C', []),
        ('inst', 'C_UMax', [P(t, t, m) for t, m in U.items()]),
        ('inst', 'C_UMin', [P(t, t, 0) for t in U]),
        ('inst', 'C_SMax', [P(t, t, m - 1) for t, m in S.items()]),
        ('inst', 'C_SMin', [P(t, t, -m) for t, m in S.items()]),
        ('inst', 'C_Hex', [P('h', 'uint8', 255, inttext='0xFF'), P('g', 'sint16', -128, inttext='-0x80'),
                           P('p', 'uint32', 12, inttext='+12')]),
        ('inst', 'C_Bool', [P('t', 'boolean', True), P('f', 'boolean', False),
                            P('up', 'boolean', True, booltext={True: 'TRUE', False: 'FALSE'})]),
        ('inst', 'C_Real', [P('a', 'real32', 1.5), P('b', 'real64', -0.25), P('c', 'real64', 1e300), P('d', 'real32', 0.0)]),
        ('inst', 'C_Char', [P('c', 'char16', 'x'), P('d', 'char16', '中'), P('e', 'char16', '&')]),
        ('inst', 'C_DT', [P('ts', 'datetime', '20260925120000.000000+000'), P('iv', 'datetime', '00000012131415.123456:000'),
                          P('tz', 'datetime', '19991231235959.999999-720')]),
        ('inst', 'C_Null', [P('s', 'string', None), P('u', 'uint8', None), P('b', 'boolean', None), P('d', 'datetime', None),
                            P('r', 'real32', None), P('c', 'char16', None), P('a', 'string', None, arr=True),
                            P('ref', 'reference', None)]),
        ('inst', 'C_Arr', [P('s', 'string', ['a', '', 'c'], arr=True), P('u', 'uint8', [0, 255], arr=True),
                           P('i', 'sint64', [-2**63, 2**63 - 1], arr=True), P('b', 'boolean', [True, False, True], arr=True),
                           P('d', 'datetime', ['20260925120000.000000+000'], arr=True), P('r', 'real64', [1.5, -2.0], arr=True),
                           P('c', 'char16', ['a', 'b'], arr=True)]),
        ('inst', 'C_ArrEmpty', [P('s', 'string', [], arr=True), P('u', 'uint16', [], arr=True), P('b', 'boolean', [], arr=True)]),
        ('inst', 'C_ArrNullItem', [P('s', 'string', ['a', None, 'b'], arr=True), P('u', 'uint8', [1, None], arr=True),
                                   P('b', 'boolean', [None, True], arr=True), P('d', 'datetime', [None], arr=True),
                                   P('r', 'real32', [None, 1.5, None], arr=True), P('c', 'char16', ['x', None], arr=True)]),
        ('inst', 'C_ArrSize', [P('s', 'string', ['a', 'b'], arr=True, attrs=' ARRAYSIZE="2"')]),
        ('inst', 'C_Special', [P('a', 'string', '& < > " \' ]]> &amp; <!-- -->'), P('b', 'string', '  lead and trail  '),
                               P('c', 'string', 'line1\nline2\ttab'), P('d', 'string', 'cr\rlf\r\n'), P('e', 'string', '')]),
        ('inst', 'C_Unicode', [P('a', 'string', 'héllo 中文 \U0001F600 é'), P('ünïcöde', 'string', 'x'),
                               P('nel', 'string', 'a\u0085b c')]),
        ('inst', '中_Class', [P('p', 'uint8', 1)]),
        ('inst', 'C_CData', [P('a', 'string', 'a<b>&c', cdata=True)]),
        ('inst', 'C_Emb', [P('e', 'string', sub, emb='instance')]),
        ('inst', 'C_EmbObj', [P('e', 'string', sub, emb='object')]),
        ('inst', 'C_EmbUpper', [P('e', 'string', sub, emb='instance', embattr='EMBEDDEDOBJECT')]),
        ('inst', 'C_EmbArr', [P('e', 'string', [sub, sub2], arr=True, emb='instance')]),
        ('inst', 'C_EmbNested', [P('e', 'string', sub2, emb='instance')]),
        ('inst', 'C_Ref', [P('r', 'reference', ('X', [('k1', 'v'), ('k2', 7), ('k3', True)], None, None)),
                           P('l', 'reference', ('X', [('k', 'a&b')], 'root/cimv2', None), refclass='RC'),
                           P('f', 'reference', ('X', [('k', 1)], 'interop', 'h.example:5989'))]),
        ('inst', 'C_Many', [P('p%03d' % i, 'uint32', i) for i in range(150)]),
        ('inst', 'C_Long', [P('s', 'string', 'abcdefgh' * 8192)]),
        ('inst', 'C_Attrs', [P('s', 'string', 'v', attrs=' CLASSORIGIN="C_Base" PROPAGATED="true"'),
                             P('q', 'uint8', 1, quals='<QUALIFIER NAME="Key" TYPE="boolean"><VALUE>true</VALUE></QUALIFIER>')]),
        ('inst', 'C_Case', [P('ABC', 'string', 'x'), P('def', 'string', 'y'), P('GhI', 'string', 'z')]),
    ]
    return pool


POOL = instance_pool()
SEQ = [0]


def with_seq(spec):
    """Copy of the instance spec with a unique string property 'Seq9' identifying the delivery."""
    SEQ[0] += 1
    tag = 'S%d' % SEQ[0]
    return ('inst', spec[1], list(spec[2]) + [P('Seq9', 'string', tag)]), tag


def export_body(inst, msgid='4711', meth='ExportIndication', pname='NewIndication', cimv='2.0', dtdv='2.0', pv='1.0',
                decl='<?xml version="1.0" encoding="utf-8" ?>', sep=''):
    """inst: already serialised XML text of the EXPPARAMVALUE content."""
    return (decl + sep + '<CIM CIMVERSION="%s" DTDVERSION="%s">%s<MESSAGE ID="%s" PROTOCOLVERSION="%s">%s<SIMPLEEXPREQ>%s'
            '<EXPMETHODCALL NAME="%s">%s<EXPPARAMVALUE NAME="%s">%s%s%s</EXPPARAMVALUE>%s</EXPMETHODCALL>%s</SIMPLEEXPREQ>%s'
            '</MESSAGE>%s</CIM>' % (cimv, dtdv, sep, msgid, pv, sep, sep, meth, sep, pname, sep, inst, sep, sep, sep, sep, sep))


# ----------------------------------------------------------------------------------------------------------------
# HTTP request construction, transport and an own response parser
# ----------------------------------------------------------------------------------------------------------------
def b(x):
    return x if isinstance(x, bytes) else x.encode('latin-1')


def http_request(body=b'', method='POST', path='/', ver='HTTP/1.1', repl=None, add=(), cl='auto', names=None):
    """repl: {header name: value | None (drop)}; add: extra (name, value) pairs appended; cl: 'auto' | None | text."""
    hdrs = [('Host', 'localhost'), ('Content-Type', 'application/xml; charset="utf-8"'),
            ('CIMExport', 'MethodRequest'), ('CIMExportMethod', 'ExportIndication')]
    repl = dict(repl or {})
    out = []
    for k, v in hdrs:
        if k in repl:
            v = repl.pop(k)
            if v is None:
                continue
        out.append((k, v))
    out += [(k, v) for k, v in repl.items() if v is not None]
    if cl == 'auto':
        cl = str(len(body))
    if cl is not None:
        out.append(('Content-Length', cl))
    out += list(add)
    if names:
        out = [(names(k), v) for k, v in out]
    head = b(method) + b' ' + b(path) + b' ' + b(ver) + b'\r\n' + b''.join(b(k) + b': ' + b(v) + b'\r\n' for k, v in out)
    return head + b'\r\n' + body


class Listener:
    def __init__(self, **kw):
        s = socket.socket()
        s.bind(('127.0.0.1', 0))
        self.port = s.getsockname()[1]
        s.close()
        self.L = WBEMListener('127.0.0.1', http_port=self.port, **kw)
        self.L.logger.disabled = True
        self.log = []           # (seq tag | None, indication, host)
        self.cond = threading.Condition()
        self.gate = None        # optional threading.Event the callback waits on
        self.entered = threading.Event()
        self.errs = {}          # client port -> exception class name raised in the handler thread
        self.L.add_callback(self.callback)
        self.L.start()
        srv = getattr(self.L, '_http_server', None)
        if srv is not None:     # diagnostics only: which exception killed a handler thread (stdlib hook)
            def handle_error(request, client_address):
                self.errs[client_address[1]] = sys.exc_info()[0].__name__ + ': ' + str(sys.exc_info()[1])[:150]
            srv.handle_error = handle_error

    def callback(self, indication, host):
        self.entered.set()
        if self.gate is not None:
            self.gate.wait(TIMEOUT)
        try:
            tag = indication.properties['Seq9'].value
        except Exception:
            tag = None
        with self.cond:
            self.log.append((tag, indication, host))
            self.cond.notify_all()

    def wait_for(self, tag, timeout=TIMEOUT):
        end = time.time() + timeout
        with self.cond:
            while not any(t == tag for t, _, _ in self.log):
                left = end - time.time()
                if left <= 0:
                    TIMEOUTS[0] += 1
                    return False
                self.cond.wait(left)
        return True

    def take_log(self):
        with self.cond:
            out, self.log = self.log, []
        return out

    def exchange(self, raw, half_close=True, pieces=None):
        """-> (response bytes, handler exception text | None, transport note)."""
        note = ''
        s = socket.create_connection(('127.0.0.1', self.port), timeout=TIMEOUT)
        lport = s.getsockname()[1]
        try:
            try:
                if pieces:
                    s.setsockopt(socket.IPPROTO_TCP, socket.TCP_NODELAY, 1)
                    pos = 0
                    for cut in list(pieces) + [len(raw)]:
                        if cut > pos:
                            s.sendall(raw[pos:cut])
                            pos = cut
                else:
                    s.sendall(raw)
                if half_close:
                    s.shutdown(socket.SHUT_WR)
            except OSError:
                note = 'send-interrupted'
            data = b''
            try:
                while True:
                    d = s.recv(65536)
                    if not d:
                        break
                    data += d
            except socket.timeout:
                note = 'timeout'
                TIMEOUTS[0] += 1
            except OSError:
                pass        # reset after the response (request body left unread by the server)
        finally:
            s.close()
        return data, self.errs.pop(lport, None), note

    def stop(self):
        self.L.stop()


TOKEN = re.compile(rb"^[!#$%&'*+\-.^_`|~0-9A-Za-z]+$")
STATUS = re.compile(rb'^HTTP/1\.[01] ([0-9]{3}) ([\t\x20-\x7e\x80-\xff]*)$')
CTL = re.compile(rb'[\x00-\x08\x0a-\x1f\x7f]')
RESP_HEADERS = {'server', 'date', 'content-type', 'content-length', 'cimexport', 'cimerror', 'cimerrordetails', 'allow',
                'connection'}


def parse_responses(data):
    """Own HTTP/1.x response-stream parser -> (list of dict(status, headers, body), list of (problem id, detail))."""
    out, probs = [], []
    pos = 0
    while pos < len(data):
        end = data.find(b'\r\n\r\n', pos)
        if end < 0:
            probs.append(('response-head-unterminated', repr(data[pos:pos + 200])))
            break
        lines = data[pos:end].split(b'\r\n')
        m = STATUS.match(lines[0])
        if not m or b'\n' in lines[0]:
            probs.append(('response-status-line-malformed', repr(lines[0][:200])))
            break
        status = int(m.group(1))
        headers = []
        for ln in lines[1:]:
            if b'\n' in ln:
                probs.append(('response-header-raw-LF', repr(ln[:300])))
                continue
            if b'\r' in ln:
                probs.append(('response-header-raw-CR', repr(ln[:300])))
                continue
            name, colon, value = ln.partition(b':')
            if not colon or not TOKEN.match(name):
                probs.append(('response-header-line-malformed', repr(ln[:300])))
                continue
            value = value.strip(b' \t')
            if CTL.search(value):
                probs.append(('response-header-control-char', repr(ln[:300])))
            lname = name.decode('latin-1').lower()
            if lname not in RESP_HEADERS:
                probs.append(('response-header-unexpected-name', repr(ln[:300])))
            headers.append((lname, value.decode('latin-1')))
        rest = data[end + 4:]
        if 100 <= status < 200:
            out.append(dict(status=status, headers=headers, body=b''))
            pos = end + 4
            continue
        cls = [v for k, v in headers if k == 'content-length']
        if len(cls) > 1 or (cls and not re.fullmatch(r'[0-9]+', cls[0])):
            probs.append(('response-content-length-malformed', repr(cls)))
            break
        if cls:
            n = int(cls[0])
            if len(rest) < n:
                probs.append(('response-body-shorter-than-content-length', '%d < %d' % (len(rest), n)))
            out.append(dict(status=status, headers=headers, body=rest[:n]))
            pos = end + 4 + n
        else:
            if b'HTTP/1.' in rest:
                probs.append(('response-second-status-line-in-body', repr(rest[:200])))
            out.append(dict(status=status, headers=headers, body=rest))
            pos = len(data)
    return out, probs


CIMERR = {
    'nwf': {'request-not-well-formed'},
    'inv': {'request-not-well-formed', 'request-not-valid', 'request-not-loosely-valid'},
    'hm': {'header-mismatch'},
    'cimver': {'unsupported-version', 'unsupported-cim-version'},
    'dtdver': {'unsupported-dtd-version'},
    'protover': {'unsupported-protocol-version'},
    'multi': {'multiple-requests-unsupported', 'request-not-well-formed', 'request-not-valid', 'request-not-loosely-valid'},
}
CIMERR_ALL = set().union(*CIMERR.values()) | {'unsupported-operation'}


def classify(resp):
    """One final response -> (outcome tuple, problems).  Outcome: ('ok', id, name) | ('err', code, id, name) |
    ('http', status, cimerror | None)."""
    probs = []
    h = {}
    for k, v in resp['headers']:
        h.setdefault(k, v)
    st = resp['status']
    if st == 200:
        ct = h.get('content-type', '')
        if not re.fullmatch(r'(text|application)/xml(\s*;\s*charset="?utf-8"?)?', ct, re.I):
            probs.append(('response-200-content-type-not-xml', ct))
        if 'content-length' not in h:
            probs.append(('response-200-without-content-length', ''))
        if h.get('cimexport', '').lower() != 'methodresponse':
            probs.append(('response-200-without-CIMExport-MethodResponse', repr(h.get('cimexport'))))
        try:
            root = ET.fromstring(resp['body'])
        except Exception as e:
            probs.append(('response-body-not-well-formed-xml', '%s: %r' % (e, resp['body'][:300])))
            return ('badxml',), probs
        try:
            assert root.tag == 'CIM' and set(root.attrib) == {'CIMVERSION', 'DTDVERSION'} and len(root) == 1
            msg = root[0]
            assert msg.tag == 'MESSAGE' and set(msg.attrib) == {'ID', 'PROTOCOLVERSION'} and len(msg) == 1
            assert msg[0].tag == 'SIMPLEEXPRSP' and not msg[0].attrib and len(msg[0]) == 1
            er = msg[0][0]
            assert er.tag == 'EXPMETHODRESPONSE' and set(er.attrib) == {'NAME'} and len(er) <= 1
            assert re.fullmatch(r'2\.[0-9]+', root.get('CIMVERSION')) and re.fullmatch(r'2\.[0-9]+', root.get('DTDVERSION'))
            assert re.fullmatch(r'1\.[0-9]+', msg.get('PROTOCOLVERSION'))
            if len(er) == 0 or er[0].tag == 'IRETURNVALUE':
                return ('ok', msg.get('ID'), er.get('NAME')), probs
            err = er[0]
            assert err.tag == 'ERROR' and 'CODE' in err.attrib and set(err.attrib) <= {'CODE', 'DESCRIPTION'}
            assert re.fullmatch(r'[1-9][0-9]{0,2}', err.get('CODE')) and all(c.tag == 'INSTANCE' for c in err)
            return ('err', int(err.get('CODE')), msg.get('ID'), er.get('NAME')), probs
        except (AssertionError, IndexError):
            probs.append(('response-body-not-an-export-response', repr(resp['body'][:400])))
            return ('badxml',), probs
    if 400 <= st <= 599:
        ce = h.get('cimerror')
        if ce is not None and ce not in CIMERR_ALL:
            probs.append(('response-CIMError-value-unknown', ce))
        if 'cimexport' in h and 'content-length' not in h and resp['body']:
            probs.append(('response-error-with-unannounced-body', repr(resp['body'][:200])))
        return ('http', st, ce), probs
    probs.append(('response-status-unexpected', str(st)))
    return ('http', st, None), probs


def matches(outcome, pat):
    kind = outcome[0]
    if pat == 'ok':
        return kind == 'ok'
    if pat.startswith('err:'):
        return kind == 'err' and (pat == 'err:*' or outcome[1] == int(pat[4:]))
    if pat == 'none':
        return kind == 'none'
    if pat.startswith('http:'):
        if kind != 'http':
            return False
        _, st, cat = (pat.split(':') + [''])[:3]
        status, ce = outcome[1], outcome[2]
        if st == '4xx':
            if not 400 <= status <= 499:
                return False
        elif st == 'any':
            if not 400 <= status <= 599:
                return False
        elif '|' in st or st.isdigit():
            if str(status) not in st.split('|'):
                return False
        if cat == '':
            return True
        if cat == 'ce':
            return ce in CIMERR_ALL
        return ce in CIMERR[cat]
    raise ValueError(pat)


def show(outcome):
    if outcome[0] == 'http':
        return 'http%d-%s' % (outcome[1], outcome[2])
    if outcome[0] == 'err':
        return 'err%d' % outcome[1]
    return outcome[0]


GENERIC = ['ok', 'err:*', 'http:400|413|501:ce']


# ----------------------------------------------------------------------------------------------------------------
# case runner: one hostile (or valid) request, its oracle, then a valid indication that must be delivered
# ----------------------------------------------------------------------------------------------------------------
LSN = None
MSGIDS = [('4711', '4711'), ('', ''), ('1', '1'), ('a&amp;b&lt;&quot;&apos;', 'a&b<"\''), ('id-中', 'id-中'), ('x' * 1000, 'x' * 1000)]
NVARIANTS = 12
PROBE_NO = [0]


def valid_request(vi, pi, mi=0):
    """A request every conforming listener must accept -> dict(raw, spec, tag, msgid, pieces, head_has_expect)."""
    spec, tag = with_seq(POOL[pi % len(POOL)])
    mtext, mval = MSGIDS[mi % len(MSGIDS)]
    vi %= NVARIANTS
    kw = dict(msgid=mtext)
    if vi == 6:
        kw['sep'] = '\n  '
    if vi == 7:
        kw['decl'] = ''
    if vi == 2:
        kw['decl'] = "<?xml version='1.0' encoding='UTF-8' standalone='yes'?>"
    body = export_body(inst_xml(spec, kw.get('sep', '')), **kw).encode('utf-8')
    if vi == 6:
        body += b'\n'
    h = dict(body=body)
    if vi == 1:
        h.update(ver='HTTP/1.0')
    elif vi == 2:
        h.update(path='/cimom?x=1&y=%20', names=str.lower)
    elif vi == 3:
        h.update(names=str.upper, repl={'Content-Type': 'text/xml'})
    elif vi == 4:
        h.update(repl={'Accept': '*/*', 'Accept-Charset': 'utf-8', 'Accept-Encoding': 'gzip, deflate', 'Accept-Language': 'de, en;q=0.5'})
    elif vi == 5:
        h.update(repl={'Accept': 'application/xml', 'Accept-Charset': 'iso-8859-1;q=0.5, UTF-8;q=0.9', 'Content-Encoding': 'identity',
                       'Content-Language': 'en'})
    elif vi == 7:
        h.update(repl={'Content-Type': 'text/xml;charset=UTF-8', 'Accept': 'text/xml', 'Accept-Charset': '*'})
    elif vi == 9:
        h.update(repl={'Connection': 'keep-alive', 'User-Agent': 'bounded/C17 (é)', 'Authorization': 'Basic dTpw', 'Cookie': 'a=b',
                       'Range': 'bytes=0-5', 'Expires': '0', 'Cache-Control': 'no-cache', 'Pragma': 'no-cache'})
    elif vi == 10:
        h.update(path='http://localhost/cimlistener/x', repl={'Content-Type': 'application/xml', 'Content-Encoding': 'IDENTITY'})
    elif vi == 11:
        h.update(repl={'Expect': '100-continue'})
    raw = http_request(**h)
    pieces = None
    if vi == 8:
        hl = raw.find(b'\r\n\r\n')
        pieces = [3, hl // 2, hl + 2, hl + 4 + len(body) // 2]
    return dict(raw=raw, spec=spec, tag=tag, msgid=mval, pieces=pieces)


def head_body(raw):
    i = raw.find(b'\r\n\r\n')
    return (raw, b'') if i < 0 else (raw[:i + 2], raw[i + 4:])


def nesting_depth(text):
    d = m = 0
    for t in re.finditer(r'<(/?)[A-Za-z][^<>]*?(/?)>', text):
        if t.group(1):
            d -= 1
        elif not t.group(2):
            d += 1
            m = max(m, d)
    return m


def known_drop(raw, exc):
    """Narrow identification of the dropped-connection defects reproduced on the unchanged tree."""
    cls = exc.split(':')[0] if exc else None
    head, body = head_body(raw)
    text = body.decode('utf-8', 'replace')
    cl = [len(x.lstrip(b'0')) for x in re.findall(rb'(?im)^content-length:[ \t]*([0-9]+)[ \t]*\r?$', head)]
    if cls in (None, 'OverflowError', 'MemoryError') and cl and max(cl) >= 16:      # announced length >= 10**15
        return 'known:huge-content-length-drops-connection'
    if cls in (None, 'UnicodeEncodeError') and any(ord(c) > 255 for c in text):
        return 'known:non-latin1-text-in-error-details-drops-connection'
    if cls in (None, 'ValueError'):
        for val in re.findall(r'ARRAYSIZE\s*=\s*(?:"([^"]*)"|\'([^\']*)\')', text):
            val = val[0] or val[1]
            if not re.fullmatch(r'\s*[+-]?[0-9]+(_[0-9]+)*\s*', val) or len(val) > 4300:
                return 'known:non-integer-arraysize-drops-connection'
        if re.search(r'0[xX][0-9a-fA-F]{3600,}', text):
            return 'known:huge-hex-integer-value-drops-connection'
    if cls in (None, 'RecursionError') and nesting_depth(text) > 150:
        return 'known:deeply-nested-reference-drops-connection'
    if cls in (None, 'LookupError'):
        m = re.match(r'\s*<\?xml[^>]*encoding\s*=\s*["\']([^"\']*)["\']', body.decode('latin-1'))
        if m:
            try:
                codecs.lookup(m.group(1))
            except LookupError:
                return 'known:unknown-xml-encoding-drops-connection'
    return None


def rq(raw):
    return repr(raw if len(raw) <= 3000 else raw[:1500] + b' ...[%d bytes]... ' % (len(raw) - 3000) + raw[-1500:])


def check_wire(family, raw, data, exc, note, nreq=1):
    """Wire-level oracle -> outcome tuple (or None when a violation made the outcome meaningless)."""
    if note == 'timeout':
        R.violation('no-complete-response-within-timeout:' + family, request=rq(raw), received=repr(data[:300]))
        return None
    if not data:
        return ('none', exc)
    resps, probs = parse_responses(data)
    head, _ = head_body(raw)
    for pid, det in probs:
        if pid == 'response-header-control-char' and re.search(rb'[\x00-\x08\x0b\x0c\x0e-\x1f\x7f]', raw) \
                and det.lower().startswith(("b'cimerrordetails:", 'b"cimerrordetails:')):
            R.violation('known:request-control-char-echoed-in-CIMErrorDetails', request=rq(raw), header_line=det)
        else:
            R.violation(pid, family=family, request=rq(raw), detail=det, response=repr(data[:600]))
    if any(pid != 'response-header-control-char' for pid, _ in probs):
        return None
    interim = [r for r in resps if r['status'] < 200]
    finals = [r for r in resps if r['status'] >= 200]
    if interim and (b'\nexpect:' not in head.lower() or any(r['status'] != 100 for r in interim)):
        R.violation('response-interim-unexpected', family=family, request=rq(raw), response=repr(data[:300]))
    if not 1 <= len(finals) <= nreq:
        R.violation('response-count-not-one', family=family, count=len(finals), request=rq(raw), response=repr(data[:600]))
        return None
    outcome, probs = classify(finals[0])
    for pid, det in probs:
        R.violation(pid, family=family, request=rq(raw), detail=det, response=repr(data[:600]))
    if probs and outcome[0] == 'badxml':
        return None
    if exc:
        R.violation('handler-exception-after-response:' + exc.split(':')[0], family=family, request=rq(raw), exception=exc)
    return outcome


def check_outcome(family, raw, outcome, expect, msgid=None, meth=None):
    """Compare with the reference model's acceptable set; returns True when an indication was accepted."""
    if outcome[0] == 'none':
        exc = outcome[1]
        if exc or 'none' not in expect:
            kid = known_drop(raw, exc)
            if kid:
                R.violation(kid, request=rq(raw), handler_exception=exc, observed='connection closed without any response')
            else:
                R.violation('connection-dropped-without-response:%s' % (exc.split(':')[0] if exc else 'no-exception-seen'),
                            family=family, request=rq(raw), handler_exception=exc)
        return False
    if not any(matches(outcome, p) for p in expect):
        R.violation('wrong-outcome:%s:%s' % (family, show(outcome)), request=rq(raw), observed=repr(outcome)[:300],
                    acceptable=expect)
    if outcome[0] in ('ok', 'err'):
        if msgid is not None and outcome[-2] != msgid:
            R.violation('response-message-id-not-echoed', family=family, request=rq(raw), observed=outcome[-2], expected=msgid)
        if meth is not None and outcome[-1] != meth:
            R.violation('response-method-name-not-echoed', family=family, request=rq(raw), observed=outcome[-1], expected=meth)
    return outcome[0] == 'ok'


def check_deliveries(family, raw, expected):
    """expected: list of (tag | None, spec | None) in order; compares with the callback log since the last check."""
    log = LSN.take_log()
    if len(log) != len(expected):
        R.violation('accepted-indications-and-deliveries-differ:' + ('more' if len(log) > len(expected) else 'fewer'),
                    family=family, request=rq(raw), delivered=[t for t, _, _ in log], expected=[t for t, _ in expected])
        return
    for (tag, ind, host), (xtag, spec) in zip(log, expected):
        if xtag is not None and tag != xtag:
            R.violation('delivery-order-or-identity-differs', family=family, request=rq(raw), delivered=tag, expected=xtag)
        elif spec is not None:
            d = diff_inst(spec, ind)
            if d:
                R.violation('delivered-indication-differs-from-sent', family=family, request=rq(raw), difference=d)
        if host != '127.0.0.1':
            R.violation('delivered-host-wrong', family=family, host=host)


def probe(family, raw, pending):
    """A valid indication after the hostile request: accepted, delivered, and nothing else delivered."""
    n = PROBE_NO[0]
    PROBE_NO[0] += 1
    v = valid_request(n, n // NVARIANTS + n, n // 7)
    data, exc, note = LSN.exchange(v['raw'], half_close=False, pieces=v['pieces'])
    outcome = check_wire('valid-after:' + family, v['raw'], data, exc, note)
    ok = outcome is not None and outcome[0] == 'ok'
    if outcome is not None and not ok:
        if outcome[0] == 'none':
            check_outcome('valid-after:' + family, v['raw'], outcome, ['ok'])
        else:
            R.violation('valid-indication-rejected', after_family=family, after_request=rq(raw), request=rq(v['raw']),
                        observed=repr(outcome)[:200])
    if ok:
        check_outcome('valid', v['raw'], outcome, ['ok'], msgid=v['msgid'], meth='ExportIndication')
        if not LSN.wait_for(v['tag']):
            R.violation('valid-indication-not-delivered', after_family=family, after_request=rq(raw), request=rq(v['raw']))
        if pending == 'any':        # earlier exchange not judged: only the probe itself (delivered last) is checked
            log = LSN.take_log()
            if not log or log[-1][0] != v['tag'] or diff_inst(v['spec'], log[-1][1]):
                R.violation('delivered-indication-differs-from-sent', family=family, request=rq(v['raw']),
                            difference=diff_inst(v['spec'], log[-1][1]) if log else 'nothing delivered')
        else:
            check_deliveries(family, raw, pending + [(v['tag'], v['spec'])])
    else:
        LSN.take_log()


def run_case(family, key, raw, expect, half_close=True, pieces=None, deliver=None, msgid=None, meth=None, nreq=1):
    """expect: list of acceptable outcome patterns, or 'survive' (wire format not judged: HTTP/0.9 style exchanges)."""
    if TIMEOUTS[0] >= 3:
        raise Abort()       # the listener stopped answering (already reported): do not wait out every remaining case
    R.case((family, key))
    data, exc, note = LSN.exchange(raw, half_close=half_close, pieces=pieces)
    pending = []
    if expect == 'survive':
        pending = 'any'
        if exc:
            R.violation('handler-exception:' + exc.split(':')[0], family=family, request=rq(raw), exception=exc)
        if note == 'timeout':
            R.violation('no-complete-response-within-timeout:' + family, request=rq(raw))
    else:
        outcome = check_wire(family, raw, data, exc, note, nreq)
        if outcome is not None and check_outcome(family, raw, outcome, expect, msgid, meth):
            pending.append(deliver if deliver else (None, None))
    probe(family, raw, pending)


def post(body, **kw):
    return http_request(body=body, **kw)


# ----------------------------------------------------------------------------------------------------------------
# phases
# ----------------------------------------------------------------------------------------------------------------
REJECT_HM = ['http:4xx:hm']
REF_SPEC = POOL[0]


def simple_body(**kw):
    spec, tag = with_seq(REF_SPEC)
    return export_body(inst_xml(spec), **kw).encode('utf-8'), (tag, spec)


def phase_valid():
    """Every pool instance x every HTTP variant x message ids (quick: each instance and each variant at least twice)."""
    combos = [(vi, pi, mi) for pi in range(len(POOL)) for vi in range(NVARIANTS) for mi in range(len(MSGIDS))]
    if QUICK:
        combos = [c for c in combos if (c[0] + c[1]) % NVARIANTS in (0, 5) and c[2] == (c[0] + c[1]) % len(MSGIDS)]
    else:
        combos = [c for c in combos if c[2] in ((c[0] + c[1]) % len(MSGIDS), (c[0] * 5 + c[1] + 1) % len(MSGIDS))]
    for vi, pi, mi in combos:
        v = valid_request(vi, pi, mi)
        run_case('valid', (vi, pi, mi), v['raw'], ['ok'], half_close=False, pieces=v['pieces'], deliver=(v['tag'], v['spec']),
                 msgid=v['msgid'], meth='ExportIndication')


def phase_methods():
    verbs = ['GET', 'HEAD', 'PUT', 'DELETE', 'OPTIONS', 'TRACE', 'CONNECT', 'PATCH']
    others = ['M-POST', 'FOO', 'post', 'Post', 'POSTX', 'PROPFIND', 'M_POST', 'P\xd6ST', 'X' * 300, 'invalid_method', 'POST:', '__init__']
    for m in verbs + others:
        exp = ['http:405'] if m in verbs else ['http:405|501|400']
        for variant in ('nobody', 'body', 'badhdr', 'http10'):
            body, _ = simple_body()
            if variant == 'nobody':
                raw = http_request(method=m, cl=None, repl={'Content-Type': None})
            elif variant == 'body':
                raw = http_request(body=body, method=m)
            elif variant == 'badhdr':
                raw = http_request(body=body, method=m, cl='abc', repl={'Accept': 'text/html', 'Content-Type': 'text/plain'})
            else:
                raw = http_request(method=m, cl='0', ver='HTTP/1.0', path='*')
            run_case('method-not-POST', (m, variant), raw, exp)


ACCEPT = dict(
    ok=[None, 'text/xml', 'application/xml', '*/*'],
    grey=['text/xml, application/xml', 'application/xml, text/xml, */*', 'TEXT/XML', 'text/*', 'application/*', 'text/xml;q=0.9',
          'text/html, */*;q=0.1', 'text/xml; charset=utf-8', '', '*'],
    bad=['text/html', 'application/json', 'text/plain', 'image/*', 'xml', 'text', 'application/soap+xml', 'text/xmlx', 'x' * 5000,
         'text/\xe9\xff', 'text/html\r\n X-Injected: yes', 'text/html\r\n\tX-Injected: yes', 'text/html\r\n \r\n X-Injected: yes',
         'text/html, application/json;q=0.5'])
ACCEPT_CHARSET = dict(
    ok=[None, 'utf-8', 'UTF-8', 'Utf-8', '*', 'utf-8, iso-8859-1', 'iso-8859-1, utf-8', 'iso-8859-1;q=0.5, utf-8;q=0.9',
        'iso-8859-5, *;q=0.1', 'utf-8;q=1', 'utf-8;q=0.001', 'iso-8859-1,utf-8'],
    grey=['utf-8;q=0', '*;q=0', '', 'iso-8859-1;q=1, utf-8;q=0', 'utf8', '"utf-8"'],
    bad=['iso-8859-1', 'us-ascii', 'utf-16', 'utf-7', 'iso-8859-1, us-ascii;q=0.5', 'x-utf-8', 'utf-8x', 'utf', '8',
         'latin1\r\n X-Injected: yes', 'iso-8859-1;q=0.' + '9' * 3000])
CONTENT_TYPE = dict(
    ok=['text/xml', 'application/xml', 'application/xml; charset=utf-8', 'text/xml; charset=utf-8', 'text/xml;charset=UTF-8',
        'text/xml; charset="utf-8"', 'TEXT/XML', 'Application/Xml; charset=Utf-8', 'application/xml;  charset=utf-8'],
    grey=['text/xml; charset=', 'text/xml; charset=utf8', 'text/html, text/xml', 'text/xml; boundary=x', '',
          'text/xml;charset=utf-8;charset=iso-8859-1', 'text/xml; version=1.0; charset=iso-8859-1', 'text/xml; Charset=utf-16'],
    bad=[None, 'text/plain', 'text/html', 'application/json', 'application/soap+xml', 'application/x-www-form-urlencoded',
         'multipart/form-data; boundary=x', 'text/xml; charset=iso-8859-1', 'text/xml; charset=utf-16',
         'application/xml;charset=us-ascii', 'xml', 'text', 'text/xmlx', 'text/plain\r\n X-Injected: yes', 'y' * 5000,
         'text/plain; charset=utf-8'])
CONTENT_ENCODING = dict(
    ok=[None, 'identity', 'IDENTITY', 'Identity'],
    grey=['', 'identity, identity', 'identity;q=1'],
    bad=['gzip', 'deflate', 'compress', 'br', 'x-gzip', 'gzip, identity', 'identityx', 'zstd', 'gzip\r\n X-Injected: yes'])
TABLES = [('Accept', ACCEPT), ('Accept-Charset', ACCEPT_CHARSET), ('Content-Type', CONTENT_TYPE), ('Content-Encoding', CONTENT_ENCODING)]
IGNORED = [('Accept-Encoding', 'gzip, deflate'), ('Accept-Encoding', 'identity;q=0'), ('Accept-Encoding', ''), ('Accept-Language', 'de'),
           ('Accept-Language', '*'), ('Content-Language', 'fr'), ('Content-Range', 'bytes 0-5/10'), ('Range', 'bytes=0-1'),
           ('If-Range', 'x'), ('Expires', '0'), ('Connection', 'close'), ('Connection', 'keep-alive'), ('Transfer-Encoding', 'identity'),
           ('Man', 'http://www.dmtf.org/cim/mapping/http/v1.0; ns=73'), ('X-Long', 'z' * 60000), ('X-Latin', '\xe9\xff\x80'),
           ('Content-MD5', 'xxx'), ('Date', 'garbage'), ('Host', ''), ('Authorization', 'Basic !!!'), ('Upgrade', 'h2c'),
           ('Content-Type-X', 'text/plain'), ('X-Accept', 'text/html')]
GREY_HDRS = [('Accept-Range', 'bytes'), ('Accept-Range', ''), ('Accept-Ranges', 'none'), ('CIMExport', 'MethodResponse'),
             ('CIMExportMethod', 'Other'), ('CIMExport', None), ('CIMOperation', 'MethodCall'), ('CIMProtocolVersion', '9.9')]
CTL_VALUES = ['text/html\x00', 'a\x01b', 'text/html\x0bfoo', 'text/html\x0cfoo', 'a\x1cb', 'a\x1fb', 'text/html\x7f', 'a\x08b']


def phase_headers():
    for name, tab in TABLES:
        for cls, exp in (('ok', ['ok']), ('grey', ['ok'] + REJECT_HM), ('bad', REJECT_HM)):
            for val in tab[cls]:
                body, dl = simple_body()
                run_case('header-%s-%s' % (name, cls), (name, val), post(body, repl={name: val}), exp,
                         half_close=(cls != 'ok'), deliver=dl, msgid='4711', meth='ExportIndication')
        # the same header twice: first pass / second bad and vice versa -> anything well formed
        for v1, v2 in ((tab['ok'][1], tab['bad'][1]), (tab['bad'][1], tab['ok'][1])):
            body, dl = simple_body()
            raw = post(body, repl={name: v1}, add=[(name, v2)])
            run_case('header-%s-duplicated' % name, (name, v1, v2), raw, ['ok'] + REJECT_HM, deliver=dl)
        for val in CTL_VALUES:
            body, dl = simple_body()
            run_case('header-%s-control-char' % name, (name, val), post(body, repl={name: val}), REJECT_HM)
    for name, val in IGNORED:
        body, dl = simple_body()
        run_case('header-ignored', (name, val), post(body, repl={name: val}), ['ok'], half_close=False, deliver=dl)
    for name, val in GREY_HDRS:
        body, dl = simple_body()
        run_case('header-grey', (name, val), post(body, repl={name: val}), ['ok', 'http:4xx:hm'], deliver=dl)
    # header syntax oddities handled by the HTTP layer: any single well-formed answer
    odd = [b'Content-Type:text/xml', b'Content-Type :text/xml', b'Content-Type:\ttext/xml\t', b': novalue', b'NoColonLine',
           b' leading-space: x', b'X-A: 1\r\nX-A: 2\r\nX-A: 3', b'Content-Type: text/xml\r\nContent-Type: text/plain',
           b'X-Bare-CR: a\rContent-Type: text/plain', b'X-Bare-LF: a\nAccept: text/html', b'X-Nul: \x00', b'\xe9\xff: x',
           b'Content-Length: 5\r\nContent-Length: 7', b'Content-Length: 5, 5', b'content-length: 0\r\nCONTENT-LENGTH: 99']
    for i, line in enumerate(odd):
        body, dl = simple_body()
        head = b'POST / HTTP/1.1\r\nHost: x\r\n' + line + b'\r\nContent-Type: application/xml\r\nContent-Length: %d\r\n\r\n' % len(body)
        run_case('header-syntax-odd', i, head + body, ['ok', 'err:*', 'http:any'], deliver=dl)
    for n in (50, 99, 101, 150, 1000):
        body, dl = simple_body()
        raw = post(body, add=[('X-%d' % i, 'v') for i in range(n)])
        run_case('header-count', n, raw, ['ok'] if n < 90 else ['ok', 'http:any'], deliver=dl)
    for n in (60000, 65530, 65537, 70000, 200000):
        body, dl = simple_body()
        run_case('header-length', n, post(body, repl={'X-Big': 'v' * n}), ['ok'] if n < 65000 else ['ok', 'http:any'], deliver=dl)
    # crossed tables
    cross = [(a, c, t, e) for a in (None, '*/*', 'text/html', 'image/*') for c in (None, 'UTF-8', 'utf-16', 'us-ascii')
             for t in ('text/xml', 'application/xml; charset="utf-8"', 'text/plain', None, 'text/xml; charset=utf-16')
             for e in (None, 'identity', 'gzip')]
    if QUICK:
        cross = RND.sample(cross, 60)
    for a, c, t, e in cross:
        good = a in (None, '*/*') and c in (None, 'UTF-8') and t in ('text/xml', 'application/xml; charset="utf-8"') \
            and e in (None, 'identity')
        body, dl = simple_body()
        raw = post(body, repl={'Accept': a, 'Accept-Charset': c, 'Content-Type': t, 'Content-Encoding': e})
        run_case('header-cross', (a, c, t, e), raw, ['ok'] if good else REJECT_HM, half_close=not good, deliver=dl)


def phase_content_length():
    body, dl = simple_body()
    n = len(body)
    nwf = ['http:400:nwf']
    for val in ['abc', '-1', '-0x1', '', '1.5', '0x10', '12abc', '1e3', '- 5', '--5', '\xb2', '5;5', 'NaN', 'inf', '-' + '9' * 30,
                '1' * 4400 + 'x', '9' * 5000, 'None', '12\r\n X-Injected: yes', '4 2']:
        body, dl = simple_body()
        run_case('content-length-invalid', val[:40], post(body, cl=val), ['http:4xx:ce'])
    for val in ['-5\x00', 'abc\x0b', '\x7f']:
        run_case('content-length-invalid-control-char', val, post(body, cl=val), ['http:4xx:ce'])
    body, dl = simple_body()
    run_case('content-length-absent', 0, post(body, cl=None), ['http:400:nwf', 'http:411'])
    run_case('content-length-zero', 0, post(body, cl='0'), nwf)
    run_case('content-length-zero', 1, post(b'', cl='0'), nwf, half_close=False)
    for k in (1, 5, 38, 39, 40, n // 2, n - 20, n - 6, n - 1):
        body, dl = simple_body()
        run_case('content-length-short', k, post(body, cl=str(k)), nwf, half_close=False)
    for extra in (1, 2, 100, 10**4, 10**6, 10**8):
        body, dl = simple_body()
        run_case('content-length-long-then-eof', extra, post(body, cl=str(len(body) + extra)), ['ok', 'http:400:ce'], deliver=dl)
    for txt in ('+%d', '%d ', ' %d', '0000%d', '%d\t', '0%d'):
        body, dl = simple_body()
        val = txt % len(body)
        run_case('content-length-spelling', txt, post(body, cl=val), ['ok', 'http:400:ce'], deliver=dl)
    body, dl = simple_body()
    run_case('content-length-spelling', 'underscore', post(body, cl='1_0'), ['ok', 'http:400:ce'])
    # body longer than announced: only the announced part counts (here: the complete message, then junk)
    body, dl = simple_body()
    run_case('content-length-exact-then-junk', 0, post(body + b'<junk/>' * 50, cl=str(len(body))), ['ok'], half_close=False, deliver=dl)
    for val in (2**62, 10**18, 2**63 - 1, 2**63, 2**64, 10**30, 10**100):
        body, dl = simple_body()
        run_case('content-length-huge', val, post(body, cl=str(val)), ['ok', 'http:400|413:ce', 'http:413'], deliver=dl)


INV = ['http:400:inv']
NWF = ['http:400:nwf']
ERR4 = ['err:4', 'err:1']
ERR7 = ['err:7', 'err:1']


def versions():
    out = []
    for attr, kw, cat in (('CIMVERSION', 'cimv', 'cimver'), ('DTDVERSION', 'dtdv', 'dtdver'), ('PROTOCOLVERSION', 'pv', 'protover')):
        major = '1' if kw == 'pv' else '2'
        other = '2' if kw == 'pv' else '1'
        for v in (major + '.0', major + '.1', major + '.4', major + '.10', major + '.99'):
            out.append((kw, v, ['ok']))
        for v in (other + '.0', '3.0', '0.9', '', 'x', major * 2, '9' + major + '.0', '-' + major + '.0', major + '0.0', '.'+ major,
                  'v' + major + '.0', '\xe9.0', other + '\x7f0', '&#10;' + other + '.0&#10;X-Injected: yes', 'a' * 3000,
                  # every way a line break can be smuggled into text the listener echoes in CIMErrorDetails:
                  # lone CR in the middle of a line, CR at both ends, CR LF, LF CR, tab + CR
                  other + '.0&#13;X-Injected: cr', '&#13;' + other + '.0&#13;', other + '.0&#13;&#10;X-Injected: crlf',
                  other + '.0&#10;&#13;X-Injected: lfcr', other + '.0&#9;&#13;X-Injected: tabcr'):
            out.append((kw, v, ['http:400|501:' + cat]))
        for v in (major, major + '.', major + '.x', ' ' + major + '.0', major + '.0.1', '0' + major + '.0', major + '.0 '):
            out.append((kw, v, ['ok', 'http:400|501:' + cat]))
        for v in ('中.0', other + '.中', 'Ā'):
            out.append((kw + '-nonlatin1', v, ['http:400|501:' + cat]))
    return out


def I(props, cn='C'):
    return '<INSTANCE CLASSNAME="%s">%s</INSTANCE>' % (cn, props)


def structure_mutations():
    """(key, function(reference text) -> mutated text, acceptable outcomes).  Reference = compact message, instance I0."""
    M = []

    def rep(key, old, new, exp, count=1):
        def f(t):
            assert t.count(old) >= 1, (key, old)
            return t.replace(old, new, count)
        M.append((key, f, exp))
    M.append(('root-renamed', lambda t: t.replace('<CIM ', '<CIMX ').replace('</CIM>', '</CIMX>'), INV))
    M.append(('root-lowercase', lambda t: t.replace('<CIM ', '<cim ').replace('</CIM>', '</cim>'), INV))
    rep('cim-no-cimversion', ' CIMVERSION="2.0"', '', INV)
    rep('cim-no-dtdversion', ' DTDVERSION="2.0"', '', INV)
    rep('cim-extra-attr', '<CIM ', '<CIM X="1" ', ['ok'] + INV)
    rep('cim-xmlns', '<CIM ', '<CIM xmlns="urn:x" ', ['ok'] + INV)
    rep('cim-dup-attr', '<CIM ', '<CIM CIMVERSION="2.0" ', NWF)
    M.append(('cim-declaration-child', lambda t: re.sub(r'<MESSAGE.*</MESSAGE>', '<DECLARATION><DECLGROUP/></DECLARATION>', t), INV))
    M.append(('cim-no-child', lambda t: re.sub(r'<MESSAGE.*</MESSAGE>', '', t), INV))
    M.append(('cim-text-child', lambda t: re.sub(r'<MESSAGE.*</MESSAGE>', 'text', t), INV))
    M.append(('cim-two-messages', lambda t: re.sub(r'(<MESSAGE.*</MESSAGE>)', r'\1\1', t), INV))
    rep('message-no-id', ' ID="4711"', '', INV)
    rep('message-no-protocolversion', ' PROTOCOLVERSION="1.0"', '', INV)
    rep('message-extra-attr', '<MESSAGE ', '<MESSAGE X="1" ', ['ok'] + INV)
    M.append(('message-simplereq', lambda t: re.sub(r'<SIMPLEEXPREQ>.*</SIMPLEEXPREQ>', '<SIMPLEREQ><IMETHODCALL NAME="EnumerateClasses">'
              '<LOCALNAMESPACEPATH><NAMESPACE NAME="root"/></LOCALNAMESPACEPATH></IMETHODCALL></SIMPLEREQ>', t), INV))
    M.append(('message-simpleexprsp', lambda t: re.sub(r'<SIMPLEEXPREQ>.*</SIMPLEEXPREQ>', '<SIMPLEEXPRSP><EXPMETHODRESPONSE '
              'NAME="ExportIndication"/></SIMPLEEXPRSP>', t), INV))
    M.append(('message-simplersp', lambda t: re.sub(r'<SIMPLEEXPREQ>.*</SIMPLEEXPREQ>', '<SIMPLERSP><IMETHODRESPONSE NAME="X"/>'
              '</SIMPLERSP>', t), INV))
    M.append(('message-multiexpreq', lambda t: t.replace('<SIMPLEEXPREQ>', '<MULTIEXPREQ><SIMPLEEXPREQ>').replace(
        '</SIMPLEEXPREQ>', '</SIMPLEEXPREQ></MULTIEXPREQ>'), ['http:400|501:multi']))
    M.append(('message-multireq', lambda t: t.replace('SIMPLEEXPREQ>', 'MULTIREQ>'), ['http:400|501:multi']))
    M.append(('message-no-child', lambda t: re.sub(r'<SIMPLEEXPREQ>.*</SIMPLEEXPREQ>', '', t), INV))
    M.append(('message-two-children', lambda t: re.sub(r'(<SIMPLEEXPREQ>.*</SIMPLEEXPREQ>)', r'\1\1', t), INV))
    M.append(('message-unknown-child', lambda t: t.replace('SIMPLEEXPREQ>', 'SIMPLEFOO>'), INV))
    rep('simpleexpreq-attr', '<SIMPLEEXPREQ>', '<SIMPLEEXPREQ X="1">', ['ok'] + INV)
    rep('simpleexpreq-text', '<SIMPLEEXPREQ>', '<SIMPLEEXPREQ>text', INV)
    M.append(('simpleexpreq-no-child', lambda t: re.sub(r'<EXPMETHODCALL.*</EXPMETHODCALL>', '', t), INV))
    M.append(('simpleexpreq-two-calls', lambda t: re.sub(r'(<EXPMETHODCALL.*</EXPMETHODCALL>)', r'\1\1', t), INV))
    M.append(('simpleexpreq-response-child', lambda t: re.sub(r'<EXPMETHODCALL.*</EXPMETHODCALL>',
                                                             '<EXPMETHODRESPONSE NAME="ExportIndication"/>', t), INV))
    M.append(('simpleexpreq-methodcall-child', lambda t: t.replace('EXPMETHODCALL', 'METHODCALL'), INV))
    rep('call-no-name', ' NAME="ExportIndication"', '', INV)
    rep('call-extra-attr', '<EXPMETHODCALL ', '<EXPMETHODCALL X="1" ', ['ok'] + INV)
    rep('call-text', '<EXPPARAMVALUE', 'text<EXPPARAMVALUE', INV)
    M.append(('call-paramvalue-child', lambda t: t.replace('EXPPARAMVALUE', 'PARAMVALUE'), INV))
    M.append(('call-unknown-child', lambda t: t.replace('</EXPMETHODCALL>', '<FOO/></EXPMETHODCALL>'), INV))
    rep('param-no-name', '<EXPPARAMVALUE NAME="NewIndication">', '<EXPPARAMVALUE>', INV)
    rep('param-extra-attr', '<EXPPARAMVALUE ', '<EXPPARAMVALUE X="1" ', ['ok'] + INV)
    M.append(('param-none', lambda t: re.sub(r'<EXPPARAMVALUE.*</EXPPARAMVALUE>', '', t), ERR4))
    M.append(('param-empty', lambda t: re.sub(r'(<EXPPARAMVALUE[^>]*>).*(</EXPPARAMVALUE>)', r'\1\2', t), ERR4 + INV))
    M.append(('param-selfclosed', lambda t: re.sub(r'<EXPPARAMVALUE.*</EXPPARAMVALUE>', '<EXPPARAMVALUE NAME="NewIndication"/>', t), ERR4 + INV))
    M.append(('param-value-not-instance', lambda t: re.sub(r'<INSTANCE.*</INSTANCE>', '<VALUE>x</VALUE>', t), ERR4 + INV))
    M.append(('param-class-not-instance', lambda t: re.sub(r'<INSTANCE.*</INSTANCE>', '<CLASS NAME="C"/>', t), ERR4 + INV))
    M.append(('param-two-instances', lambda t: re.sub(r'(<INSTANCE.*</INSTANCE>)', r'\1\1', t), ERR4 + INV))
    M.append(('param-text', lambda t: t.replace('</EXPPARAMVALUE>', 'text</EXPPARAMVALUE>'), ERR4 + INV))
    M.append(('param-extra-after', lambda t: t.replace('</EXPPARAMVALUE>', '</EXPPARAMVALUE><EXPPARAMVALUE NAME="Other">' + I('') + '</EXPPARAMVALUE>'), ERR4))
    M.append(('param-extra-before', lambda t: t.replace('<EXPPARAMVALUE ', '<EXPPARAMVALUE NAME="Other">' + I('') + '</EXPPARAMVALUE><EXPPARAMVALUE ', 1), ERR4))
    M.append(('param-extra-empty', lambda t: t.replace('</EXPPARAMVALUE>', '</EXPPARAMVALUE><EXPPARAMVALUE NAME="Other"/>'), ERR4))
    M.append(('param-duplicate', lambda t: re.sub(r'(<EXPPARAMVALUE.*</EXPPARAMVALUE>)', r'\1\1', t), ['ok'] + ERR4 + INV))
    M.append(('param-duplicate-empty-last', lambda t: t.replace('</EXPPARAMVALUE>', '</EXPPARAMVALUE><EXPPARAMVALUE NAME="NewIndication"/>'),
              ['ok'] + ERR4 + INV))
    M.append(('param-three', lambda t: t.replace('</EXPPARAMVALUE>', '</EXPPARAMVALUE><EXPPARAMVALUE NAME="A"/><EXPPARAMVALUE NAME="B"/>'), ERR4))
    for nm, exp in (('Other', ERR4), ('', ERR4 + INV), ('NewIndication ', ERR4 + ['ok']), ('newindication', ERR4 + ['ok']),
                    ('NEWINDICATION', ERR4 + ['ok']), ('NewIndication2', ERR4), ('NewIndicatio', ERR4), ('中&#10;X-Injected: yes', ERR4),
                    ('N' * 5000, ERR4), ('&lt;&amp;&quot;]]&gt;', ERR4)):
        rep(('param-name', nm[:30]), 'NAME="NewIndication"', 'NAME="%s"' % nm, exp)
    for nm, val, exp in (('Foo', 'Foo', ERR7), ('', '', ERR7 + INV), ('exportindication', 'exportindication', ERR7 + ['ok']),
                         ('EXPORTINDICATION', 'EXPORTINDICATION', ERR7 + ['ok']), ('ExportIndication ', None, ERR7 + ['ok']),
                         ('ExportIndications', 'ExportIndications', ERR7), ('DeliverIndication', 'DeliverIndication', ERR7),
                         ('a&amp;b&lt;&quot;&apos;&gt;', 'a&b<"\'>', ERR7), ('中\U0001F600é', '中\U0001F600é', ERR7),
                         ('M' * 5000, 'M' * 5000, ERR7), ('a&#10;X-Injected: yes', None, ERR7), ('a\u0085b c\x7f', None, ERR7),
                         ('GetInstance', 'GetInstance', ERR7), ('--&gt;', '-->', ERR7), (']]&gt;', ']]>', ERR7)):
        M.append((('method-name', nm[:30]), (lambda t, nm=nm: t.replace('NAME="ExportIndication"', 'NAME="%s"' % nm)), exp, val))
    rep('instance-no-classname', ' CLASSNAME="CIM_AlertIndication"', '', INV)
    rep('instance-extra-attr', '<INSTANCE ', '<INSTANCE X="1" ', ['ok'] + INV)
    rep('instance-unknown-child', '<PROPERTY ', '<FOO/><PROPERTY ', INV)
    rep('instance-text', '<PROPERTY ', 'text<PROPERTY ', INV)
    rep('instance-method-child', '<PROPERTY ', '<METHOD NAME="m" TYPE="uint8"/><PROPERTY ', INV)
    rep('property-no-name', '<PROPERTY NAME="Description"', '<PROPERTY', INV)
    rep('property-no-type', 'NAME="AlertType" TYPE="uint16"', 'NAME="AlertType"', INV)
    rep('property-bad-type', 'NAME="AlertType" TYPE="uint16"', 'NAME="AlertType" TYPE="uint128"', INV)
    rep('property-type-case', 'NAME="AlertType" TYPE="uint16"', 'NAME="AlertType" TYPE="UINT16"', ['ok'] + INV)
    rep('property-type-reference', 'NAME="AlertType" TYPE="uint16"', 'NAME="AlertType" TYPE="reference"', INV)
    rep('property-two-values', '<VALUE>5</VALUE>', '<VALUE>5</VALUE><VALUE>6</VALUE>', INV)
    rep('property-value-array', '<VALUE>5</VALUE>', '<VALUE.ARRAY><VALUE>5</VALUE></VALUE.ARRAY>', INV)
    rep('property-value-null', '<VALUE>5</VALUE>', '<VALUE.NULL/>', INV)
    rep('property-value-child', '<VALUE>5</VALUE>', '<VALUE>5<b/></VALUE>', INV)
    rep('property-value-reference', '<VALUE>5</VALUE>', '<VALUE.REFERENCE><CLASSNAME NAME="X"/></VALUE.REFERENCE>', INV)
    for v, exp in (('65535', ['ok']), ('65536', INV), ('-1', INV), ('', INV), ('abc', INV), ('1.5', ['ok'] + INV), ('5 5', INV),
                   ('0x10', ['ok']), ('0x1G', INV), ('1e2', ['ok'] + INV), ('nan', INV), ('--5', INV), ('٥', ['ok'] + INV),
                   ('5&#10;X-Injected: yes', INV), ('1_0', ['ok'] + INV), ('中', INV), ('true', INV)):
        rep(('uint16-value', v[:20]), '<VALUE>5</VALUE>', '<VALUE>%s</VALUE>' % v, exp)
    for v in ('inf', '-inf', 'Infinity', '1e999', '9' * 5000):
        rep(('uint16-value-infinite', v[:20]), '<VALUE>5</VALUE>', '<VALUE>%s</VALUE>' % v, INV)
    rep(('uint16-value-huge-hex', 0), '<VALUE>5</VALUE>', '<VALUE>0x%s</VALUE>' % ('F' * 5000), INV)
    newp = '<PROPERTY NAME="Description"'
    for key, xml, exp in (
            ('boolean-bad', '<PROPERTY NAME="b" TYPE="boolean"><VALUE>yes</VALUE></PROPERTY>', INV),
            ('boolean-empty', '<PROPERTY NAME="b" TYPE="boolean"><VALUE></VALUE></PROPERTY>', ['ok'] + INV),
            ('char16-two', '<PROPERTY NAME="c" TYPE="char16"><VALUE>ab</VALUE></PROPERTY>', INV),
            ('char16-empty', '<PROPERTY NAME="c" TYPE="char16"><VALUE></VALUE></PROPERTY>', INV),
            ('datetime-bad', '<PROPERTY NAME="d" TYPE="datetime"><VALUE>yesterday</VALUE></PROPERTY>', INV),
            ('datetime-month13', '<PROPERTY NAME="d" TYPE="datetime"><VALUE>20261399999999.999999+000</VALUE></PROPERTY>', INV),
            ('datetime-short', '<PROPERTY NAME="d" TYPE="datetime"><VALUE>2026</VALUE></PROPERTY>', INV),
            ('datetime-nonlatin1', '<PROPERTY NAME="d" TYPE="datetime"><VALUE>中</VALUE></PROPERTY>', INV),
            ('real-bad', '<PROPERTY NAME="r" TYPE="real32"><VALUE>1,5</VALUE></PROPERTY>', INV),
            ('real-inf', '<PROPERTY NAME="r" TYPE="real64"><VALUE>INF</VALUE></PROPERTY>', ['ok'] + INV),
            ('real-nan', '<PROPERTY NAME="r" TYPE="real64"><VALUE>NaN</VALUE></PROPERTY>', ['ok'] + INV),
            ('real-huge', '<PROPERTY NAME="r" TYPE="real32"><VALUE>1e39</VALUE></PROPERTY>', ['ok'] + INV),
            ('sint8-range', '<PROPERTY NAME="i" TYPE="sint8"><VALUE>128</VALUE></PROPERTY>', INV),
            ('sint8-range-neg', '<PROPERTY NAME="i" TYPE="sint8"><VALUE>-129</VALUE></PROPERTY>', INV),
            ('uint64-range', '<PROPERTY NAME="i" TYPE="uint64"><VALUE>18446744073709551616</VALUE></PROPERTY>', INV),
            ('sint64-range', '<PROPERTY NAME="i" TYPE="sint64"><VALUE>-9223372036854775809</VALUE></PROPERTY>', INV),
            ('array-in-scalar', '<PROPERTY NAME="a" TYPE="string"><VALUE.ARRAY/></PROPERTY>', INV),
            ('scalar-in-array', '<PROPERTY.ARRAY NAME="a" TYPE="string"><VALUE>a</VALUE></PROPERTY.ARRAY>', INV),
            ('array-bad-item', '<PROPERTY.ARRAY NAME="a" TYPE="uint8"><VALUE.ARRAY><VALUE>1</VALUE><VALUE>x</VALUE></VALUE.ARRAY></PROPERTY.ARRAY>', INV),
            ('array-refarray', '<PROPERTY.ARRAY NAME="a" TYPE="string"><VALUE.REFARRAY/></PROPERTY.ARRAY>', INV),
            ('arraysize-ok', '<PROPERTY.ARRAY NAME="a" TYPE="string" ARRAYSIZE="2"><VALUE.ARRAY><VALUE>a</VALUE></VALUE.ARRAY></PROPERTY.ARRAY>', ['ok']),
            ('arraysize-zero', '<PROPERTY.ARRAY NAME="a" TYPE="string" ARRAYSIZE="0"><VALUE.ARRAY><VALUE>a</VALUE></VALUE.ARRAY></PROPERTY.ARRAY>', ['ok'] + INV),
            ('arraysize-negative', '<PROPERTY.ARRAY NAME="a" TYPE="string" ARRAYSIZE="-1"><VALUE.ARRAY/></PROPERTY.ARRAY>', ['ok'] + INV),
            ('embedded-bad-kind', '<PROPERTY NAME="e" TYPE="string" EmbeddedObject="thing"><VALUE>&lt;INSTANCE CLASSNAME="X"/&gt;</VALUE></PROPERTY>', ['ok'] + INV),
            ('embedded-bad-kind-nonlatin1', '<PROPERTY NAME="e" TYPE="string" EmbeddedObject="中"><VALUE>&lt;INSTANCE CLASSNAME="X"/&gt;</VALUE></PROPERTY>', ['ok'] + INV),
            ('embedded-not-xml', '<PROPERTY NAME="e" TYPE="string" EmbeddedObject="instance"><VALUE>not xml</VALUE></PROPERTY>', INV),
            ('embedded-illformed', '<PROPERTY NAME="e" TYPE="string" EmbeddedObject="instance"><VALUE>&lt;INSTANCE CLASSNAME="X"&gt;</VALUE></PROPERTY>', INV),
            ('embedded-wrong-root', '<PROPERTY NAME="e" TYPE="string" EmbeddedObject="object"><VALUE>&lt;VALUE&gt;x&lt;/VALUE&gt;</VALUE></PROPERTY>', INV),
            ('embedded-empty', '<PROPERTY NAME="e" TYPE="string" EmbeddedObject="instance"><VALUE></VALUE></PROPERTY>', ['ok'] + INV),
            ('embedded-class', '<PROPERTY NAME="e" TYPE="string" EmbeddedObject="object"><VALUE>&lt;CLASS NAME="K"/&gt;</VALUE></PROPERTY>', ['ok'] + INV),
            ('embedded-on-uint', '<PROPERTY NAME="e" TYPE="uint8" EmbeddedObject="instance"><VALUE>&lt;INSTANCE CLASSNAME="X"/&gt;</VALUE></PROPERTY>', INV),
            ('embedded-inner-invalid', '<PROPERTY NAME="e" TYPE="string" EmbeddedObject="instance"><VALUE>&lt;INSTANCE CLASSNAME="X"&gt;&lt;PROPERTY NAME="p" TYPE="uint8"&gt;&lt;VALUE&gt;300&lt;/VALUE&gt;&lt;/PROPERTY&gt;&lt;/INSTANCE&gt;</VALUE></PROPERTY>', INV),
            ('reference-no-name', '<PROPERTY.REFERENCE><VALUE.REFERENCE><INSTANCENAME CLASSNAME="X"/></VALUE.REFERENCE></PROPERTY.REFERENCE>', INV),
            ('reference-classname', '<PROPERTY.REFERENCE NAME="r"><VALUE.REFERENCE><CLASSNAME NAME="X"/></VALUE.REFERENCE></PROPERTY.REFERENCE>', ['ok'] + INV),
            ('reference-empty', '<PROPERTY.REFERENCE NAME="r"><VALUE.REFERENCE/></PROPERTY.REFERENCE>', INV),
            ('reference-two', '<PROPERTY.REFERENCE NAME="r"><VALUE.REFERENCE><INSTANCENAME CLASSNAME="X"/></VALUE.REFERENCE><VALUE.REFERENCE><INSTANCENAME CLASSNAME="X"/></VALUE.REFERENCE></PROPERTY.REFERENCE>', INV),
            ('reference-bad-valuetype', '<PROPERTY.REFERENCE NAME="r"><VALUE.REFERENCE><INSTANCENAME CLASSNAME="X"><KEYBINDING NAME="k"><KEYVALUE VALUETYPE="thing">1</KEYVALUE></KEYBINDING></INSTANCENAME></VALUE.REFERENCE></PROPERTY.REFERENCE>', INV),
            ('reference-bad-numeric', '<PROPERTY.REFERENCE NAME="r"><VALUE.REFERENCE><INSTANCENAME CLASSNAME="X"><KEYBINDING NAME="k"><KEYVALUE VALUETYPE="numeric">x</KEYVALUE></KEYBINDING></INSTANCENAME></VALUE.REFERENCE></PROPERTY.REFERENCE>', INV),
            ('reference-bad-boolean', '<PROPERTY.REFERENCE NAME="r"><VALUE.REFERENCE><INSTANCENAME CLASSNAME="X"><KEYBINDING NAME="k"><KEYVALUE VALUETYPE="boolean">x</KEYVALUE></KEYBINDING></INSTANCENAME></VALUE.REFERENCE></PROPERTY.REFERENCE>', INV),
            ('reference-keybinding-no-name', '<PROPERTY.REFERENCE NAME="r"><VALUE.REFERENCE><INSTANCENAME CLASSNAME="X"><KEYBINDING><KEYVALUE>1</KEYVALUE></KEYBINDING></INSTANCENAME></VALUE.REFERENCE></PROPERTY.REFERENCE>', INV),
            ('reference-empty-namespace', '<PROPERTY.REFERENCE NAME="r"><VALUE.REFERENCE><LOCALINSTANCEPATH><LOCALNAMESPACEPATH/><INSTANCENAME CLASSNAME="X"/></LOCALINSTANCEPATH></VALUE.REFERENCE></PROPERTY.REFERENCE>', INV),
            ('reference-typed-key-range', '<PROPERTY.REFERENCE NAME="r"><VALUE.REFERENCE><INSTANCENAME CLASSNAME="X"><KEYBINDING NAME="k"><KEYVALUE VALUETYPE="numeric" TYPE="uint8">999</KEYVALUE></KEYBINDING></INSTANCENAME></VALUE.REFERENCE></PROPERTY.REFERENCE>', INV),
            ('reference-typed-key-infinite', '<PROPERTY.REFERENCE NAME="r"><VALUE.REFERENCE><INSTANCENAME CLASSNAME="X"><KEYBINDING NAME="k"><KEYVALUE VALUETYPE="numeric" TYPE="uint8">inf</KEYVALUE></KEYBINDING></INSTANCENAME></VALUE.REFERENCE></PROPERTY.REFERENCE>', INV),
            ('qualifier-bad-type', '<QUALIFIER NAME="q" TYPE="thing"><VALUE>1</VALUE></QUALIFIER>', INV),
            ('qualifier-bad-flavor', '<QUALIFIER NAME="q" TYPE="boolean" OVERRIDABLE="maybe"><VALUE>true</VALUE></QUALIFIER>', INV),
            ('qualifier-no-name', '<QUALIFIER TYPE="boolean"><VALUE>true</VALUE></QUALIFIER>', INV),
            ('propagated-bad', '<PROPERTY NAME="p" TYPE="string" PROPAGATED="maybe"><VALUE>a</VALUE></PROPERTY>', INV),
            ('property-duplicate', '<PROPERTY NAME="description" TYPE="string"><VALUE>again</VALUE></PROPERTY>', ['ok'] + INV),
            ('property-empty-name', '<PROPERTY NAME="" TYPE="string"><VALUE>a</VALUE></PROPERTY>', ['ok'] + INV)):
        rep(('instance-child', key), newp, xml + newp, exp)
    for v in ('abc', '', '1.5', '中', '9' * 5000, '0x10', '1e1'):
        rep(('arraysize-not-integer', v[:10]), newp, '<PROPERTY.ARRAY NAME="a" TYPE="string" ARRAYSIZE="%s"><VALUE.ARRAY><VALUE>a</VALUE>'
            '</VALUE.ARRAY></PROPERTY.ARRAY>' % v + newp, INV)
    for typ, v in (('char16', 'a'), ('boolean', 'true'), ('uint8', '1'), ('sint64', '-1'), ('real32', '1.5'),
                   ('datetime', '20260925120000.000000+000')):
        rep(('array-null-item', typ), newp, '<PROPERTY.ARRAY NAME="a" TYPE="%s"><VALUE.ARRAY><VALUE>%s</VALUE><VALUE.NULL/></VALUE.ARRAY>'
            '</PROPERTY.ARRAY>' % (typ, v) + newp, ['ok'] + INV)
    rep(('array-null-item', 'qualifier'), newp, '<QUALIFIER NAME="q" TYPE="uint8"><VALUE.ARRAY><VALUE.NULL/></VALUE.ARRAY></QUALIFIER>' + newp,
        ['ok'] + INV)

    def nest(d):
        s = '<KEYVALUE>1</KEYVALUE>'
        for _ in range(d):
            s = '<KEYBINDING NAME="k"><VALUE.REFERENCE><INSTANCENAME CLASSNAME="C">%s</INSTANCENAME></VALUE.REFERENCE></KEYBINDING>' % s
        return '<PROPERTY.REFERENCE NAME="r"><VALUE.REFERENCE><INSTANCENAME CLASSNAME="C">%s</INSTANCENAME></VALUE.REFERENCE></PROPERTY.REFERENCE>' % s
    for d in (1, 5, 30):
        rep(('reference-nesting', d), newp, nest(d) + newp, ['ok'])
    for d in (1000, 3000):
        rep(('reference-nesting-deep', d), newp, nest(d) + newp, ['ok'] + INV)
    # XML-level
    rep('xml-unclosed', '</MESSAGE>', '', NWF)
    rep('xml-mismatched-tag', '</MESSAGE>', '</MESSAGES>', NWF)
    rep('xml-unquoted-attr', 'ID="4711"', 'ID=4711', NWF)
    rep('xml-bad-entity', 'fan failed', 'fan &failed;', NWF)
    rep('xml-bare-amp', 'fan failed', 'fan & failed', NWF)
    rep('xml-bare-lt', 'fan failed', 'fan < failed', NWF)
    rep('xml-charref-nul', 'fan failed', 'fan &#0; failed', NWF)
    rep('xml-charref-ctl', 'fan failed', 'fan &#1; failed', NWF)
    rep('xml-charref-fffe', 'fan failed', 'fan &#xFFFE; failed', NWF)
    rep('xml-charref-surrogate', 'fan failed', 'fan &#xD800; failed', NWF)
    rep('xml-raw-ctl', 'fan failed', 'fan \x01 failed', NWF)
    rep('xml-raw-ffff', 'fan failed', 'fan \uffff failed', NWF)
    M.append(('xml-trailing-junk', lambda t: t + 'x', NWF))
    M.append(('xml-trailing-element', lambda t: t + '<a/>', NWF))
    M.append(('xml-leading-junk', lambda t: 'x' + t, NWF))
    M.append(('xml-leading-space-before-decl', lambda t: ' ' + t, NWF))
    M.append(('xml-only-decl', lambda t: '<?xml version="1.0"?>', NWF))
    M.append(('xml-empty', lambda t: '', NWF))
    M.append(('xml-spaces', lambda t: '   \n', NWF))
    M.append(('xml-json', lambda t: '{"a": 1}', NWF))
    M.append(('xml-comment-unclosed', lambda t: t.replace('<MESSAGE', '<!-- <MESSAGE'), NWF))
    M.append(('xml-cdata-unclosed', lambda t: t.replace('fan failed', '<![CDATA[fan failed'), NWF))
    M.append(('xml-pi-unclosed', lambda t: t.replace('<MESSAGE', '<?pi <MESSAGE'), NWF))
    M.append(('xml-double-decl', lambda t: '<?xml version="1.0"?>' + t, NWF))
    M.append(('xml-trailing-ws', lambda t: t + '\n\n  ', ['ok']))
    M.append(('xml-trailing-comment', lambda t: t + '<!-- bye -->', ['ok']))
    M.append(('xml-comments-pis', lambda t: t.replace('<MESSAGE', '<!-- c --><?pi x?><MESSAGE'), ['ok']))
    M.append(('xml-version-1.1', lambda t: t.replace('version="1.0"', 'version="1.1"'), ['ok'] + NWF))
    M.append(('xml-version-2.0', lambda t: t.replace('version="1.0"', 'version="2.0"'), ['ok'] + NWF))
    M.append(('xml-doctype', lambda t: t.replace('<CIM ', '<!DOCTYPE CIM><CIM '), ['ok'] + NWF + INV))
    M.append(('xml-internal-entity', lambda t: t.replace('<CIM ', '<!DOCTYPE CIM [<!ENTITY e "expanded">]><CIM ').replace('fan failed', '&e;'),
              ['ok'] + NWF + INV))
    M.append(('xml-external-entity', lambda t: t.replace('<CIM ', '<!DOCTYPE CIM [<!ENTITY e SYSTEM "file:///etc/hostname">]><CIM ')
              .replace('fan failed', '&e;'), ['ok'] + NWF + INV))
    M.append(('xml-nested-entities', lambda t: t.replace('<CIM ', '<!DOCTYPE CIM [<!ENTITY a "aaaaaaaaaa"><!ENTITY b "&a;&a;&a;&a;&a;&a;&a;&a;&a;&a;">'
              '<!ENTITY c "&b;&b;&b;&b;&b;&b;&b;&b;&b;&b;">]><CIM ').replace('fan failed', '&c;'), ['ok'] + NWF + INV))
    M.append(('xml-prefixed', lambda t: t.replace('<CIM ', '<c:CIM xmlns:c="urn:c" ').replace('</CIM>', '</c:CIM>'), INV))
    for enc in ('bogus', 'x-none', '', 'utf-99'):
        M.append((('xml-encoding-unknown', enc), lambda t, enc=enc: t.replace('encoding="utf-8"', 'encoding="%s"' % enc), ['ok'] + NWF))
    for enc in ('UTF-8', 'us-ascii', 'iso-8859-1', 'utf-16'):
        M.append((('xml-encoding-declared', enc), lambda t, enc=enc: t.replace('encoding="utf-8"', 'encoding="%s"' % enc), ['ok'] + NWF))
    return M


def phase_body():
    for kw, v, exp in versions():
        spec, tag = with_seq(REF_SPEC)
        body = export_body(inst_xml(spec), **{kw.split('-')[0]: v}).encode('utf-8')
        run_case('version-' + kw, v[:40], post(body), exp, half_close=False, deliver=(tag, spec), msgid='4711', meth='ExportIndication')
    for a, b_, c in (('1.0', '1.0', '2.0'), ('3.0', '2.0', '2.0'), ('2.0', '9.9', '0.1'), ('x', 'y', 'z')):
        body, dl = simple_body(cimv=a, dtdv=b_, pv=c)
        cats = [n for n, bad in (('cimver', not a.startswith('2.')), ('dtdver', not b_.startswith('2.')), ('protover', not c.startswith('1.'))) if bad]
        run_case('version-several', (a, b_, c), post(body), ['http:400|501:' + x for x in cats], half_close=False)
    for m in structure_mutations():
        key, f, exp = m[:3]
        spec, tag = with_seq(REF_SPEC)
        text = f(export_body(inst_xml(spec)))
        meth = m[3] if len(m) > 3 else (None if str(key[0] if isinstance(key, tuple) else key).startswith('method') else 'ExportIndication')
        msgid = '4711' if 'ID="4711"' in text else None
        run_case('body-' + (key[0] if isinstance(key, tuple) else key), key, post(text.encode('utf-8')), exp, half_close=False,
                 deliver=(tag, None), msgid=msgid, meth=meth)
    # byte-level encodings
    spec, tag = with_seq(REF_SPEC)
    ref = export_body(inst_xml(spec))
    enc_cases = [
        ('utf8-bom', b'\xef\xbb\xbf' + ref.encode('utf-8'), ['ok'] + NWF),
        ('invalid-utf8-ff', ref.encode('utf-8').replace(b'fan', b'f\xffn'), NWF),
        ('invalid-utf8-truncated-seq', ref.encode('utf-8').replace(b'fan', b'f\xe4\xb8n'), NWF),
        ('invalid-utf8-overlong', ref.encode('utf-8').replace(b'fan', b'f\xc0\xafn'), NWF),
        ('invalid-utf8-surrogate', ref.encode('utf-8').replace(b'fan', b'f\xed\xa0\x80n'), NWF),
        ('invalid-utf8-5byte', ref.encode('utf-8').replace(b'fan', b'f\xf8\x88\x80\x80\x80n'), NWF),
        ('invalid-utf8-in-name', ref.encode('utf-8').replace(b'<MESSAGE', b'<MESS\xffAGE'), NWF),
        ('invalid-utf8-in-attr', ref.encode('utf-8').replace(b'4711', b'47\xfe11'), NWF),
        ('latin1-bytes', ref.replace('fan', 'fän').encode('latin-1'), NWF),
        ('nul-byte', ref.encode('utf-8').replace(b'fan', b'f\x00n'), NWF),
        ('utf16-with-decl', ref.replace('utf-8', 'utf-16').encode('utf-16'), ['ok'] + NWF),
        ('utf16-undeclared', ref.encode('utf-16'), ['ok'] + NWF),
        ('utf16le-no-bom', ref.encode('utf-16-le'), ['ok'] + NWF),
        ('utf32', ref.encode('utf-32'), ['ok'] + NWF),
        ('latin1-declared', ref.replace('utf-8', 'iso-8859-1').replace('fan', 'fän').encode('latin-1'), ['ok'] + NWF),
        ('binary-junk', bytes(range(256)) * 4, NWF),
        ('gzip-magic', b'\x1f\x8b\x08\x00' + b'\x00' * 60, NWF),
        ('all-ff', b'\xff' * 500, NWF),
        ('lt-flood', b'<' * 5000, NWF),
        ('deep-unknown-elements', ('<a>' * 20000).encode(), NWF),
        ('deep-closed-unknown-elements', ('<a>' * 5000 + '</a>' * 5000).encode(), INV + NWF),
        ('long-attr', ref.replace('4711', 'i' * 200000).encode(), ['ok']),
        ('many-attrs', ref.replace('<CIM ', '<CIM ' + ' '.join('a%d="1"' % i for i in range(3000)) + ' ').encode(), INV + ['ok']),
    ]
    for key, body, exp in enc_cases:
        run_case('body-encoding', key, post(body), exp, half_close=False)


def fuzz_reference():
    """A message exercising most element kinds, used for the byte-level enumeration."""
    spec = ('inst', 'CIM_X', [P('s', 'string', 'a&b é'), P('u', 'uint8', 7), P('b', 'boolean', True),
                              P('d', 'datetime', '20260925120000.000000+000'), P('a', 'sint16', [-1, 2], arr=True, attrs=' ARRAYSIZE="2"'),
                              P('e', 'string', ('inst', 'E', [P('x', 'uint8', 1)]), emb='instance'),
                              P('r', 'reference', ('K', [('k', 'v'), ('n', 3)], 'root/a', None)), P('Seq9', 'string', 'FZ')])
    return export_body(inst_xml(spec), msgid='77').encode('utf-8')


SUBST = [0x00, 0x09, 0x0a, 0x20, 0x22, 0x26, 0x27, 0x2f, 0x3b, 0x3c, 0x3d, 0x3e, 0x30, 0x41, 0x5d, 0x7f, 0x80, 0xc3, 0xff]


def phase_fuzz():
    body, _ = simple_body()
    n = len(body)
    cuts = list(range(0, n))
    ref = fuzz_reference()
    cuts2 = list(range(0, len(ref)))
    if QUICK:
        cuts = cuts[::9]
        cuts2 = cuts2[5::23]
    for k in cuts:
        body, _ = simple_body()
        run_case('truncated-message', ('simple', k), post(body[:k]), NWF, half_close=False)
    for k in cuts2:
        run_case('truncated-message', ('rich', k), post(ref[:k]), NWF, half_close=False)
    muts = [('sub', k, c) for k in range(len(ref)) for c in SUBST if ref[k] != c]
    muts += [('del', k, 0) for k in range(len(ref))]
    muts += [('dup', k, 0) for k in range(len(ref))]
    muts += [('swap', k, 0) for k in range(len(ref) - 1) if ref[k] != ref[k + 1]]
    if QUICK:
        muts = RND.sample(muts, 450)
    for kind, k, c in muts:
        if kind == 'sub':
            m = ref[:k] + bytes([c]) + ref[k + 1:]
        elif kind == 'del':
            m = ref[:k] + ref[k + 1:]
        elif kind == 'dup':
            m = ref[:k] + ref[k:k + 1] + ref[k:]
        else:
            m = ref[:k] + ref[k + 1:k + 2] + ref[k:k + 1] + ref[k + 2:]
        run_case('byte-mutated-message', (kind, k, c), post(m), GENERIC, half_close=False)


def phase_request_line():
    body, _ = simple_body()
    cl = b'Content-Type: text/xml\r\nContent-Length: %d\r\n\r\n' % len(body)
    raws = [b'', b'\r\n', b'\r\n\r\n', b'POST', b'POST /', b'POST / HTTP/1.1', b'POST / HTTP/1.1\r\n', b'POST / HTTP/1.1\r\nContent-Type: text/xml',
            b'POST / HTTP/1.1\r\nContent-Type: text/xml\r\n', b'GET /\r\n', b'POST /\r\n\r\n', b'POST / HTTP/0.9\r\n' + cl + body,
            b'POST / HTTP/x.y\r\n' + cl + body, b'POST / HTTP/1\r\n' + cl + body, b'POST / HTTP/1.1.1\r\n' + cl + body,
            b'POST / HTTP/-1.1\r\n' + cl + body, b'POST / HTTP/1.' + b'9' * 5000 + b'\r\n' + cl + body, b'POST / HTTP/2.0\r\n' + cl + body,
            b'POST / HTTP/3.0\r\n' + cl + body, b'POST / FTP/1.1\r\n' + cl + body, b'POST / x HTTP/1.1\r\n' + cl + body,
            b'POST  /  HTTP/1.1\r\n' + cl + body, b'POST\t/\tHTTP/1.1\r\n' + cl + body, b' POST / HTTP/1.1\r\n' + cl + body,
            b'\x16\x03\x01\x02\x00\x01\x00\x01\xfc\x03\x03' + bytes(range(200)), b'\x00' * 300, b'\xff' * 70000, b'A' * 70000,
            b'POST /' + b'a' * 70000 + b' HTTP/1.1\r\n' + cl + body, b'\r\n\r\nPOST / HTTP/1.1\r\n' + cl + body, body,
            b'PRI * HTTP/2.0\r\n\r\nSM\r\n\r\n', b'POST / HTTP/1.1\n' + cl.replace(b'\r\n', b'\n') + body,
            b'POST / HTTP/1.1\r' + cl.replace(b'\r\n', b'\r') + body, b'POST \xe4\xb8\xad HTTP/1.1\r\n' + cl + body]
    for i, raw in enumerate(raws):
        run_case('request-line-or-connection-odd', i, raw, 'survive')
    for ver, exp in (('HTTP/1.0', ['ok']), ('HTTP/1.1', ['ok']), ('HTTP/1.2', ['ok', 'http:any']), ('HTTP/1.9', ['ok', 'http:any']),
                     ('HTTP/1.10', ['ok', 'http:any']), ('HTTP/01.1', ['ok', 'http:any'])):
        body, dl = simple_body()
        run_case('http-version', ver, post(body, ver=ver), exp, half_close=False, deliver=dl)
    for path in ('/', '*', '/a/b?c=d#e', 'http://127.0.0.1/x', '/' + 'p' * 60000, '/%00%ff', '/\xe9', '//', '/..//../etc/passwd', '?'):
        body, dl = simple_body()
        run_case('request-path', path[:30], post(body, path=path), ['ok'], half_close=False, deliver=dl)


def phase_connection():
    # two pipelined requests on one connection: one or two well-formed responses, no more
    for first_ok in (True, False):
        b1, d1 = simple_body()
        b2, d2 = simple_body()
        r1 = post(b1, repl={'Connection': 'keep-alive'}) if first_ok else post(b1, repl={'Connection': 'keep-alive', 'Accept': 'text/html'})
        raw = r1 + post(b2, repl={'Connection': 'keep-alive'})
        R.case(('pipelined', first_ok))
        data, exc, note = LSN.exchange(raw)
        outcome = check_wire('pipelined', raw, data, exc, note, nreq=2)
        pend = []
        if outcome is not None and check_outcome('pipelined', raw, outcome, ['ok'] if first_ok else REJECT_HM):
            pend.append(d1)
        resps, _ = parse_responses(data)
        finals = [r for r in resps if r['status'] >= 200]
        if len(finals) == 2:
            o2, pr = classify(finals[1])
            for pid, det in pr:
                R.violation(pid, family='pipelined', request=rq(raw), detail=det)
            if o2[0] == 'ok':
                pend.append(d2)
        probe('pipelined', raw, pend)
    for val, exp in (('100-continue', ['ok']), ('100-Continue', ['ok']), ('200-ok', ['ok', 'http:417']), ('', ['ok', 'http:417'])):
        body, dl = simple_body()
        run_case('expect-header', val, post(body, repl={'Expect': val}), exp, half_close=False, deliver=dl)
    body, dl = simple_body()
    run_case('expect-header', 'http10', post(body, ver='HTTP/1.0', repl={'Expect': '100-continue'}), ['ok', 'http:417'], deliver=dl)
    body, dl = simple_body()
    chunked = b'%x\r\n' % len(body) + body + b'\r\n0\r\n\r\n'
    run_case('transfer-encoding-chunked', 'no-cl', post(chunked, cl=None, repl={'Transfer-Encoding': 'chunked'}),
             ['ok', 'http:any'], deliver=dl)
    body, dl = simple_body()
    run_case('transfer-encoding-chunked', 'with-cl', post(body, repl={'Transfer-Encoding': 'chunked'}), ['ok', 'http:any'], deliver=dl)
    # a request delivered in many small pieces
    for step in (1, 7, 64):
        body, dl = simple_body()
        raw = post(body)
        if step == 1:
            raw = post(body[:0] + body)
            pieces = list(range(1, min(len(raw), 400)))
        else:
            pieces = list(range(step, len(raw), step))
        run_case('fragmented-send', step, raw, ['ok'], half_close=False, pieces=pieces, deliver=dl)
    # bad requests in pieces
    body, dl = simple_body()
    raw = post(body[:100], cl=str(len(body)))
    run_case('body-shorter-than-content-length-then-eof', 0, raw, NWF)


def phase_stalled():
    """A sender that stalls (idle connection, half a request line, half the headers, a body shorter than its
    Content-Length - all left OPEN) must not keep a later valid indication from being accepted and delivered."""
    body0, _ = simple_body()
    full = post(body0)
    head_end = full.index(b'\r\n\r\n') + 4
    stalls = [('idle-connection', b''), ('half-request-line', full[:7]), ('half-headers', full[:head_end - 6]),
              ('headers-only', full[:head_end]), ('short-body', full[:head_end + 40])]
    for kind, sent in stalls:
        for n_stalled in (1, 3):
            socks = []
            try:
                for _ in range(n_stalled):
                    s = socket.create_connection(('127.0.0.1', LSN.port), timeout=TIMEOUT)
                    if sent:
                        s.sendall(sent)
                    socks.append(s)
                time.sleep(0.05)
                body, dl = simple_body()
                run_case('valid-while-another-sender-stalls', (kind, n_stalled), post(body), ['ok'], half_close=False,
                         deliver=dl)
            finally:
                for s in socks:
                    try:
                        s.close()
                    except OSError:
                        pass


def phase_concurrent():
    """8 client threads, each a fixed mix of valid and hostile requests, all at once."""
    if TIMEOUTS[0] >= 3:
        raise Abort()
    plans = []
    for t in range(8):
        plan = []
        for j in range(12 if QUICK else 40):
            kind = (t + j) % 6
            if kind in (0, 3):
                v = valid_request(t + j, t * 7 + j, j)
                plan.append((v['raw'], ['ok'], False, v))
            elif kind == 1:
                body, _ = simple_body()
                plan.append((post(body, repl={'Accept': 'text/html'}), REJECT_HM, True, None))
            elif kind == 2:
                body, _ = simple_body()
                plan.append((post(body[:len(body) // 2]), NWF, False, None))
            elif kind == 4:
                plan.append((http_request(method='GET', cl=None), ['http:405'], True, None))
            else:
                body, _ = simple_body(meth='Foo')
                plan.append((post(body), ERR7, False, None))
        plans.append(plan)
    results = [[] for _ in plans]

    def worker(i):
        for raw, exp, hc, v in plans[i]:
            if TIMEOUTS[0] >= 3:
                results[i].append((b'', None, 'timeout'))
                continue
            try:
                results[i].append(LSN.exchange(raw, half_close=hc, pieces=v['pieces'] if v else None))
            except Exception as e:          # transport failure of the client itself
                results[i].append((b'', 'client: %r' % e, 'timeout'))
    threads = [threading.Thread(target=worker, args=(i,)) for i in range(len(plans))]
    for t in threads:
        t.start()
    for t in threads:
        t.join()
    want = {}
    for i, plan in enumerate(plans):
        for j, (raw, exp, hc, v) in enumerate(plan):
            R.case(('concurrent', i, j))
            data, exc, note = results[i][j]
            outcome = check_wire('concurrent', raw, data, exc, note)
            if outcome is not None and check_outcome('concurrent', raw, outcome, exp) and v:
                want[v['tag']] = v['spec']
    for tag in want:
        if not LSN.wait_for(tag):
            R.violation('valid-indication-not-delivered', after_family='concurrent', tag=tag)
    log = LSN.take_log()
    got = [t for t, _, _ in log]
    if sorted(got) != sorted(want):
        R.violation('accepted-indications-and-deliveries-differ:concurrent', delivered=sorted(got), expected=sorted(want))
    for tag, ind, host in log:
        if tag in want and diff_inst(want[tag], ind):
            R.violation('delivered-indication-differs-from-sent', family='concurrent', difference=diff_inst(want[tag], ind))


def phase_queue_full():
    """Second listener with a 2-entry queue and a callback that blocks: accepted / refused / accepted again."""
    global LSN
    if TIMEOUTS[0] >= 3:
        raise Abort()
    main = LSN
    q = Listener(max_ind_queue_size=2)
    LSN = q
    try:
        q.gate = threading.Event()
        sent = []

        def send(name, expect):
            R.case(('queue-full', name))
            v = valid_request(0, 0)
            data, exc, note = q.exchange(v['raw'], half_close=False)
            outcome = check_wire('queue-full', v['raw'], data, exc, note)
            ok = outcome is not None and check_outcome('queue-full:' + name, v['raw'], outcome, expect, msgid=v['msgid'],
                                                       meth='ExportIndication')
            if ok:
                sent.append((v['tag'], v['spec']))
            return v
        send('first', ['ok'])
        if not q.entered.wait(TIMEOUT):
            R.violation('valid-indication-not-delivered', after_family='queue-full', detail='callback never entered')
        send('second', ['ok'])
        send('third', ['ok'])
        for i in range(3):
            send('overflow-%d' % i, ['err:1', 'http:503'])
        # hostile requests while the queue is full still get their answers
        body, _ = simple_body()
        raw = post(body, repl={'Accept': 'text/html'})
        data, exc, note = q.exchange(raw)
        R.case(('queue-full', 'hostile'))
        o = check_wire('queue-full', raw, data, exc, note)
        if o is not None:
            check_outcome('queue-full:hostile', raw, o, REJECT_HM)
        q.gate.set()
        q.gate = None
        for tag, _ in sent:
            if not q.wait_for(tag):
                R.violation('valid-indication-not-delivered', after_family='queue-full', tag=tag)
        check_deliveries('queue-full', b'(sequence first,second,third,3 x overflow)', sent)
        v = send('after-drain', ['ok'])
        if not q.wait_for(v['tag']):
            R.violation('valid-indication-not-delivered', after_family='queue-full-drained', tag=v['tag'])
        check_deliveries('queue-full-drained', v['raw'], sent[-1:])
    finally:
        LSN = main
        q.gate = None
        stop_and_check(q)


HUNG = []


def stop_and_check(lsn):
    srv_threads = [t for t in (getattr(lsn.L, '_http_thread', None), getattr(lsn.L, '_callback_thread', None)) if t is not None]
    if any(not t.is_alive() for t in srv_threads):
        R.violation('listener-thread-died', threads=[t.name for t in srv_threads if not t.is_alive()])
    t = threading.Thread(target=lsn.stop, daemon=True)
    t.start()
    t.join(15)
    if t.is_alive():
        HUNG.append(lsn.port)
        R.violation('listener-stop-did-not-return', port=lsn.port)
        return
    try:
        s = socket.create_connection(('127.0.0.1', lsn.port), timeout=2)
        s.close()
        R.violation('listener-port-still-open-after-stop', port=lsn.port)
    except OSError:
        pass


def main():
    global LSN
    LSN = Listener()
    try:
        for ph in (phase_valid, phase_methods, phase_headers, phase_content_length, phase_body, phase_request_line, phase_connection,
                   phase_stalled, phase_fuzz, phase_concurrent, phase_queue_full):
            t0 = time.time()
            try:
                ph()
            except Abort:
                break
            except Exception as e:      # a defect of this script, never of pywbem: visible, but the run still finishes
                import traceback
                R.violation('standin-internal-error:' + ph.__name__, error=repr(e), traceback=traceback.format_exc()[-1500:])
            if R.cfg.get('verbose'):
                sys.stderr.write('%s %.1fs cases=%d\n' % (ph.__name__, time.time() - t0, R.cases))
        # final: the listener that took all of the above still accepts and delivers
        if TIMEOUTS[0] < 3:
            v = valid_request(0, 0)
            run_case('final-valid', 0, v['raw'], ['ok'], half_close=False, deliver=(v['tag'], v['spec']), msgid=v['msgid'],
                     meth='ExportIndication')
    finally:
        stop_and_check(LSN)
    left = [t.name for t in threading.enumerate() if t is not threading.main_thread()]
    if left and not HUNG:
        R.violation('threads-left-behind', threads=left)
    R.finish()
    if left:                # never leave a process behind because of non-daemon listener threads that cannot be stopped
        sys.stdout.flush()
        import os
        os._exit(0)


main()
