"""Bounded stand-in for C19: logging, recorders, statistics and debug never change what an operation returns.

Every WBEMConnection operation is driven through a scripted requests transport adapter (no pywbem code is
mocked).  For each operation x scripted response the outcome under an observer configuration (pywbem loggers,
TestClientRecorder, statistics, debug) must equal the outcome under the bare configuration *and* a hand-written
expectation (result predicate / exception class).  Independent references: the bytes the adapter saw and served
(last_raw_request/last_raw_reply, request headers unchanged by observers), a counting model of the statistics
(one count per finished operation, failed ones included), bytes.decode as the model of which reply prefixes are
valid UTF-8 (classification of the known truncation defect), and substring search for the password (plain,
escaped and base64) in every captured log record, log file, stderr stream, recorder file, str() and repr()."""
import atexit
import base64
import datetime
import io
import logging
import os
import random
import shutil
import sys
import tempfile
import warnings
from collections import namedtuple

import requests
import urllib3
from requests.adapters import BaseAdapter
from requests.structures import CaseInsensitiveDict

from bounded.common import Run
import pywbem
from pywbem import (WBEMConnection, configure_logger, CIMInstance, CIMInstanceName, CIMClass, CIMClassName,
                    CIMProperty, CIMQualifierDeclaration, CIMParameter, Uint32, CIMDateTime)
from pywbem._recorder import TestClientRecorder, LogOperationRecorder

warnings.simplefilter('ignore')
logging.raiseExceptions = False     # logging's own error reports (e.g. ASCII-only stream) are not under test

R = Run('50 operation scenarios (all 40 WBEMConnection operations incl. 7 Iter*, InvokeMethod parameter variants, '
        'class-level and empty results, pull fallback, abandoned iterator) x 20 steps (3 non-ASCII successes, '
        '2 CIM errors, 6 parse errors, 3 HTTP errors, 3 connection errors, 2 bad parameters, closed connection) x '
        'observer configurations {api,http,all} x {all,paths,summary,None,ints 0..1000} x dest {stderr,ascii-stderr,'
        'file,None,off} x activation {conn,global,copy()} x TestClientRecorder x recorders enabled/disabled x stats x '
        'debug x creds tuple/list (quick: 67 configs, rotating subset of 9 per operation, all for 4 core operations; '
        'thorough: 127 configs, all) + http/api max-length sweep over every byte offset of 3 replies (quick: around '
        'multi-byte characters) + direct LogOperationRecorder.stage_http_request Authorization masking + rejected '
        'logger configurations')

URL = 'http://wbem.example:5988'
USER = 'usr_Ab'
NS = 'root/cimv2'
S = 'abé€\U0001d11e'          # 2-, 3- and 4-byte UTF-8 characters
XMLDECL = b'<?xml version="1.0" encoding="utf-8" ?>\n'
OKH = {'Content-type': 'application/xml; charset="utf-8"', 'CIMOperation': 'MethodResponse'}
LOGGERS = ('pywbem.api', 'pywbem.http')
SHM = '/dev/shm' if os.path.isdir('/dev/shm') else None
TMPDIR = tempfile.mkdtemp(prefix='c19_', dir=SHM)
atexit.register(shutil.rmtree, TMPDIR, ignore_errors=True)
REAL_STDERR = sys.stderr


# ---------------------------------------------------------------------------------------------- transport

class _Raw:
    version = 11


class Scripted(BaseAdapter):
    """requests transport adapter serving a script; remembers what was sent and what was served."""

    def __init__(self):
        super().__init__()
        self.script = []
        self.seen = []      # (body bytes, headers dict)
        self.served = []    # ('reply', status, body) | ('raise', typename)

    def send(self, request, **kw):
        body = request.body
        if isinstance(body, str):
            body = body.encode('utf-8')
        self.seen.append((body, dict(request.headers)))
        if not self.script:
            self.served.append(('raise', 'script-exhausted'))
            raise requests.exceptions.ConnectionError('script exhausted')
        step = self.script.pop(0)
        if step[0] == 'raise':
            exc = step[1]()
            self.served.append(('raise', type(exc).__name__))
            raise exc
        _, status, reason, headers, data = step
        resp = requests.Response()
        resp.status_code = status
        resp.reason = reason
        resp.headers = CaseInsensitiveDict(headers)
        resp._content = data
        resp._content_consumed = True
        resp.raw = _Raw()
        resp.url = request.url
        resp.request = request
        resp.encoding = 'utf-8'
        self.served.append(('reply', status, data))
        return resp

    def close(self):
        pass


# ---------------------------------------------------------------------------------------------- CIM-XML

HDR = ('<?xml version="1.0" encoding="utf-8" ?>\n<CIM CIMVERSION="2.0" DTDVERSION="2.0">'
       '<MESSAGE ID="1001" PROTOCOLVERSION="1.0">')
TRL = '</MESSAGE></CIM>\r\n'


def imr(name):
    return lambda inner: (HDR + '<SIMPLERSP><IMETHODRESPONSE NAME="%s">%s</IMETHODRESPONSE></SIMPLERSP>' % (
        name, inner) + TRL)


def mr(name):
    return lambda inner: (HDR + '<SIMPLERSP><METHODRESPONSE NAME="%s">%s</METHODRESPONSE></SIMPLERSP>' % (
        name, inner) + TRL)


def emr(name):
    return lambda inner: (HDR + '<SIMPLEEXPRSP><EXPMETHODRESPONSE NAME="%s">%s</EXPMETHODRESPONSE></SIMPLEEXPRSP>' % (
        name, inner) + TRL)


def irv(inner):
    return '<IRETURNVALUE>' + inner + '</IRETURNVALUE>'


def iname(key):
    return ('<INSTANCENAME CLASSNAME="CIM_Foo"><KEYBINDING NAME="Name"><KEYVALUE VALUETYPE="string">%s</KEYVALUE>'
            '</KEYBINDING></INSTANCENAME>' % key)


def inst(val):
    return ('<INSTANCE CLASSNAME="CIM_Foo"><PROPERTY NAME="Name" TYPE="string"><VALUE>%s</VALUE></PROPERTY>'
            '<PROPERTY NAME="N" TYPE="uint32"><VALUE>42</VALUE></PROPERTY></INSTANCE>' % val)


NSPATH = ('<NAMESPACEPATH><HOST>srv.example</HOST><LOCALNAMESPACEPATH><NAMESPACE NAME="root"/>'
          '<NAMESPACE NAME="cimv2"/></LOCALNAMESPACEPATH></NAMESPACEPATH>')


def ipath(key):
    return '<INSTANCEPATH>' + NSPATH + iname(key) + '</INSTANCEPATH>'


CLASS = ('<CLASS NAME="CIM_Foo" SUPERCLASS="CIM_Bar"><QUALIFIER NAME="Description" TYPE="string"><VALUE>Bär ' + S +
         '</VALUE></QUALIFIER><PROPERTY NAME="Name" TYPE="string"><QUALIFIER NAME="Key" TYPE="boolean">'
         '<VALUE>TRUE</VALUE></QUALIFIER></PROPERTY><METHOD NAME="M" TYPE="uint32"><PARAMETER NAME="P1" '
         'TYPE="string"/></METHOD></CLASS>')
QDECL = ('<QUALIFIER.DECLARATION NAME="Description" TYPE="string" ISARRAY="false" OVERRIDABLE="true" '
         'TOSUBCLASS="true" TRANSLATABLE="true"><SCOPE CLASS="true" PROPERTY="true"/><VALUE>dé ' + S +
         '</VALUE></QUALIFIER.DECLARATION>')


def pullparams(eos, ctx):
    out = '<PARAMVALUE NAME="EndOfSequence" PARAMTYPE="boolean"><VALUE>%s</VALUE></PARAMVALUE>' % (
        'TRUE' if eos else 'FALSE')
    if ctx is not None:
        out += '<PARAMVALUE NAME="EnumerationContext" PARAMTYPE="string"><VALUE>%s</VALUE></PARAMVALUE>' % ctx
    return out


def withpath(key):
    return '<VALUE.INSTANCEWITHPATH>' + ipath(key) + inst(S + key) + '</VALUE.INSTANCEWITHPATH>'


def objwithpath(key):
    return '<VALUE.OBJECTWITHPATH>' + ipath(key) + inst(S + key) + '</VALUE.OBJECTWITHPATH>'


def named(key):
    return '<VALUE.NAMEDINSTANCE>' + iname(key) + inst(S + key) + '</VALUE.NAMEDINSTANCE>'


# ---------------------------------------------------------------------------------------------- scenarios

PATH = CIMInstanceName('CIM_Foo', {'Name': 'kéy'})
PATH_NS = CIMInstanceName('CIM_Foo', {'Name': 'kéy'}, namespace='root/other')
NEWINST = CIMInstance('CIM_Foo', properties={'Name': S, 'N': Uint32(7)}, path=PATH)
NEWCLASS = CIMClass('CIM_Foo', properties={'Name': CIMProperty('Name', None, type='string')}, superclass='CIM_Bar')
NEWQUAL = CIMQualifierDeclaration('Description', 'string', value='dé', scopes={'CLASS': True})
INDICATION = CIMInstance('CIM_AlertIndication', properties={'Description': S, 'N': Uint32(1)})
CTX = ('ctx-é-1', NS)

Op = namedtuple('Op', 'name call wrap bodies check plan errop bad tags')


def is_insts(n, haspath=True):
    def chk(r):
        return (isinstance(r, list) and len(r) == n and all(isinstance(i, CIMInstance) for i in r) and
                all(i['Name'].startswith(S) and i['N'] == 42 for i in r) and
                all((i.path is not None) == haspath for i in r))
    return chk


def is_paths(n, host):
    def chk(r):
        return (isinstance(r, list) and len(r) == n and all(isinstance(i, CIMInstanceName) for i in r) and
                all(i.keybindings['Name'] in ('a', 'bé') and i.host == host for i in r))
    return chk


def pull_chk(field, inner, eos, ctx):
    def chk(r):
        return (isinstance(r, tuple) and type(r) is not tuple and inner(list(getattr(r, field))) and
                r.eos is eos and r.context == ctx)
    return chk


def simple(name, call, inner, check, bad=None, wrap=None, tags=()):
    w = wrap or imr(name)
    return Op(name, call, w, [inner], check, [name], name, bad, tags)


def build_ops():
    ops = []
    a = ops.append
    a(simple('GetInstance', lambda c: c.GetInstance(PATH, LocalOnly=False, PropertyList=['Name', 'N']),
             irv(inst(S)),
             lambda r: isinstance(r, CIMInstance) and r['Name'] == S and r['N'] == 42 and
             r.path == CIMInstanceName('CIM_Foo', {'Name': 'kéy'}, namespace=NS),
             bad=lambda c: c.GetInstance(None)))
    a(simple('EnumerateInstances', lambda c: c.EnumerateInstances('CIM_Foo', namespace='root/other',
                                                                  PropertyList=('Name', 'N')),
             irv(named('a') + named('bé')), is_insts(2),
             bad=lambda c: c.EnumerateInstances('CIM_Foo', PropertyList=42)))
    a(simple('EnumerateInstanceNames', lambda c: c.EnumerateInstanceNames(CIMClassName('CIM_Foo', namespace=NS)),
             irv(iname('a') + iname('bé')), is_paths(2, None),
             bad=lambda c: c.EnumerateInstanceNames(None)))
    # empty results (the summary/paths log formats look at the first element)
    a(Op('EnumerateInstances/empty', lambda c: c.EnumerateInstances('CIM_Foo'), imr('EnumerateInstances'), [irv('')],
         lambda r: r == [], ['EnumerateInstances'], 'EnumerateInstances', None, ()))
    a(Op('OpenEnumerateInstancePaths/empty', lambda c: c.OpenEnumerateInstancePaths('CIM_Foo'),
         imr('OpenEnumerateInstancePaths'), [pullparams(True, None)],
         lambda r: list(r.paths) == [] and r.eos is True and r.context is None,
         ['OpenEnumerateInstancePaths'], 'OpenEnumerateInstancePaths', None, ()))
    a(simple('ModifyInstance', lambda c: c.ModifyInstance(NEWINST, IncludeQualifiers=True, PropertyList='Name'),
             '', lambda r: r is None, bad=lambda c: c.ModifyInstance('CIM_Foo')))
    a(simple('CreateInstance', lambda c: c.CreateInstance(NEWINST, namespace='root/other'),
             irv(iname('néw')),
             lambda r: r == CIMInstanceName('CIM_Foo', {'Name': 'néw'}, namespace='root/other'),
             bad=lambda c: c.CreateInstance(PATH)))
    a(simple('DeleteInstance', lambda c: c.DeleteInstance(PATH_NS), '', lambda r: r is None,
             bad=lambda c: c.DeleteInstance(None)))
    a(simple('Associators', lambda c: c.Associators(PATH, AssocClass='CIM_A', Role='rôle'),
             irv(objwithpath('a') + objwithpath('bé')), is_insts(2),
             bad=lambda c: c.Associators(None)))
    cpath = ('<CLASSPATH>' + NSPATH + '<CLASSNAME NAME="CIM_Foo"/></CLASSPATH>')
    a(Op('Associators/class', lambda c: c.Associators('CIM_Foo', IncludeQualifiers=True), imr('Associators'),
         [irv('<VALUE.OBJECTWITHPATH>' + cpath + CLASS + '</VALUE.OBJECTWITHPATH>')],
         lambda r: isinstance(r, list) and len(r) == 1 and isinstance(r[0], tuple) and
         r[0][0] == CIMClassName('CIM_Foo', namespace=NS, host='srv.example') and isinstance(r[0][1], CIMClass),
         ['Associators'], 'Associators', None, ()))
    a(Op('ReferenceNames/class', lambda c: c.ReferenceNames(CIMClassName('CIM_Foo', namespace='root/other')),
         imr('ReferenceNames'), [irv('<OBJECTPATH>' + cpath + '</OBJECTPATH>')],
         lambda r: r == [CIMClassName('CIM_Foo', namespace=NS, host='srv.example')],
         ['ReferenceNames'], 'ReferenceNames', None, ()))
    a(simple('AssociatorNames', lambda c: c.AssociatorNames(PATH, ResultClass=CIMClassName('CIM_R')),
             irv('<OBJECTPATH>' + ipath('a') + '</OBJECTPATH><OBJECTPATH>' + ipath('bé') + '</OBJECTPATH>'),
             is_paths(2, 'srv.example'), bad=lambda c: c.AssociatorNames(None)))
    a(simple('References', lambda c: c.References(PATH, IncludeClassOrigin=True),
             irv(objwithpath('a')), is_insts(1), bad=lambda c: c.References(None)))
    a(simple('ReferenceNames', lambda c: c.ReferenceNames(PATH, Role='x'),
             irv('<OBJECTPATH>' + ipath('a') + '</OBJECTPATH>'), is_paths(1, 'srv.example'),
             bad=lambda c: c.ReferenceNames(None)))
    mresp = ('<RETURNVALUE PARAMTYPE="uint32"><VALUE>3</VALUE></RETURNVALUE><PARAMVALUE NAME="Out" '
             'PARAMTYPE="string"><VALUE>' + S + '</VALUE></PARAMVALUE>')

    def mchk(r):
        return isinstance(r, tuple) and r[0] == 3 and dict(r[1]) == {'Out': S}
    a(Op('InvokeMethod', lambda c: c.InvokeMethod('M', PATH, P1='é', P2=Uint32(5), P3=[PATH_NS]),
         mr('M'), [mresp], mchk, ['InvokeMethod'], 'InvokeMethod',
         lambda c: c.InvokeMethod('M', PATH, P1=12), ()))
    a(Op('InvokeMethod/Params', lambda c: c.InvokeMethod(
        'M', CIMClassName('CIM_Foo', namespace='root/other'),
        [('P1', S), CIMParameter('P2', 'uint32', value=Uint32(1)), ('P3', True), ('P4', NEWINST)],
        P5=CIMDateTime('20200101123456.654321+060')),
         mr('M'), [mresp], mchk, ['InvokeMethod'], 'InvokeMethod', None, ()))
    a(Op('InvokeMethod/datetime', lambda c: c.InvokeMethod(
        'M', 'CIM_Foo', When=datetime.datetime(2020, 2, 29, 12, 0, 0), For=datetime.timedelta(days=1, seconds=5)),
         mr('M'), [mresp], mchk, ['InvokeMethod'], 'InvokeMethod', None, ('py-datetime-arg',)))
    a(simple('ExecQuery', lambda c: c.ExecQuery('WQL', 'select * from CIM_Foo where Name = "é"'),
             irv('<VALUE.OBJECT>' + inst(S + 'a') + '</VALUE.OBJECT>'), is_insts(1),
             bad=lambda c: c.ExecQuery(None, 'q')))
    # open / pull / close
    ipaths = ipath('a') + ipath('bé')
    wp = withpath('a') + withpath('bé')
    open_ops = [
        ('OpenEnumerateInstances', lambda c: c.OpenEnumerateInstances(
            'CIM_Foo', FilterQueryLanguage='DMTF:FQL', FilterQuery='Name = "é"', OperationTimeout=10,
            ContinueOnError=False, MaxObjectCount=2), wp, 'instances', is_insts(2),
         lambda c: c.OpenEnumerateInstances('CIM_Foo', MaxObjectCount=-1)),
        ('OpenEnumerateInstancePaths', lambda c: c.OpenEnumerateInstancePaths('CIM_Foo', MaxObjectCount=Uint32(2)),
         ipaths, 'paths', is_paths(2, 'srv.example'),
         lambda c: c.OpenEnumerateInstancePaths('CIM_Foo', OperationTimeout='1')),
        ('OpenAssociatorInstances', lambda c: c.OpenAssociatorInstances(PATH, AssocClass='CIM_A', MaxObjectCount=2),
         wp, 'instances', is_insts(2), lambda c: c.OpenAssociatorInstances(None)),
        ('OpenAssociatorInstancePaths', lambda c: c.OpenAssociatorInstancePaths(PATH, ResultRole='x'),
         ipaths, 'paths', is_paths(2, 'srv.example'), lambda c: c.OpenAssociatorInstancePaths(None)),
        ('OpenReferenceInstances', lambda c: c.OpenReferenceInstances(PATH, PropertyList=['Name']),
         wp, 'instances', is_insts(2), lambda c: c.OpenReferenceInstances(None)),
        ('OpenReferenceInstancePaths', lambda c: c.OpenReferenceInstancePaths(PATH_NS),
         ipaths, 'paths', is_paths(2, 'srv.example'), lambda c: c.OpenReferenceInstancePaths(None)),
    ]
    for name, call, inner, field, ichk, bad in open_ops:
        ns = 'root/other' if name == 'OpenReferenceInstancePaths' else NS
        a(simple(name, call, irv(inner) + pullparams(False, 'ctx-é-1'),
                 pull_chk(field, ichk, False, ('ctx-é-1', ns)), bad=bad))
    a(simple('OpenQueryInstances', lambda c: c.OpenQueryInstances('DMTF:CQL', 'select * from CIM_Foo',
                                                                   ReturnQueryResultClass=False, MaxObjectCount=1),
             irv(inst(S + 'a')) + pullparams(True, None),
             lambda r: pull_chk('instances', is_insts(1, haspath=False), True, None)(r) and
             r.query_result_class is None,
             bad=lambda c: c.OpenQueryInstances('DMTF:CQL', 'q', MaxObjectCount=-5)))
    a(simple('PullInstancesWithPath', lambda c: c.PullInstancesWithPath(CTX, MaxObjectCount=2),
             irv(wp) + pullparams(True, None), pull_chk('instances', is_insts(2), True, None),
             bad=lambda c: c.PullInstancesWithPath(None, 1)))
    a(simple('PullInstancePaths', lambda c: c.PullInstancePaths(list(CTX), MaxObjectCount=0),
             irv(ipaths) + pullparams(False, 'ctx2'), pull_chk('paths', is_paths(2, 'srv.example'), False,
                                                               ('ctx2', NS)),
             bad=lambda c: c.PullInstancePaths(('c',), 1)))
    a(simple('PullInstances', lambda c: c.PullInstances(CTX, MaxObjectCount=5),
             irv(inst(S + 'a')) + pullparams(True, None),
             pull_chk('instances', is_insts(1, haspath=False), True, None),
             bad=lambda c: c.PullInstances('ctx', 1)))
    a(simple('CloseEnumeration', lambda c: c.CloseEnumeration(CTX), '', lambda r: r is None,
             bad=lambda c: c.CloseEnumeration(None)))
    # schema operations
    a(simple('EnumerateClasses', lambda c: c.EnumerateClasses(namespace='root/other', DeepInheritance=True),
             irv(CLASS + CLASS.replace('CIM_Foo', 'CIM_Foo2')),
             lambda r: isinstance(r, list) and [k.classname for k in r] == ['CIM_Foo', 'CIM_Foo2'] and
             all(isinstance(k, CIMClass) and k.qualifiers['Description'].value == 'Bär ' + S for k in r),
             bad=lambda c: c.EnumerateClasses(ClassName=5)))
    a(simple('EnumerateClassNames', lambda c: c.EnumerateClassNames(ClassName='CIM_Bar'),
             irv('<CLASSNAME NAME="CIM_Foo"/><CLASSNAME NAME="CIM_Föö"/>'),
             lambda r: r == ['CIM_Foo', 'CIM_Föö'], bad=lambda c: c.EnumerateClassNames(ClassName=5)))
    a(simple('GetClass', lambda c: c.GetClass('CIM_Foo', LocalOnly=True, PropertyList=[]),
             irv(CLASS),
             lambda r: isinstance(r, CIMClass) and r.classname == 'CIM_Foo' and r.superclass == 'CIM_Bar' and
             list(r.properties) == ['Name'] and list(r.methods) == ['M'],
             bad=lambda c: c.GetClass(None)))
    a(simple('ModifyClass', lambda c: c.ModifyClass(NEWCLASS), '', lambda r: r is None,
             bad=lambda c: c.ModifyClass('CIM_Foo')))
    a(simple('CreateClass', lambda c: c.CreateClass(NEWCLASS, namespace='root/other'), '', lambda r: r is None,
             bad=lambda c: c.CreateClass('CIM_Foo')))
    a(simple('DeleteClass', lambda c: c.DeleteClass(CIMClassName('CIM_Foo')), '', lambda r: r is None,
             bad=lambda c: c.DeleteClass(None)))
    a(simple('EnumerateQualifiers', lambda c: c.EnumerateQualifiers(), irv(QDECL + QDECL.replace('Desc', 'Dosc')),
             lambda r: isinstance(r, list) and [q.name for q in r] == ['Description', 'Doscription'] and
             all(isinstance(q, CIMQualifierDeclaration) and q.value == 'dé ' + S for q in r)))
    a(simple('GetQualifier', lambda c: c.GetQualifier('Description', namespace='root/other'), irv(QDECL),
             lambda r: isinstance(r, CIMQualifierDeclaration) and r.name == 'Description' and r.type == 'string',
             bad=lambda c: c.GetQualifier(None)))
    a(simple('SetQualifier', lambda c: c.SetQualifier(NEWQUAL), '', lambda r: r is None,
             bad=lambda c: c.SetQualifier('Description')))
    a(simple('DeleteQualifier', lambda c: c.DeleteQualifier('Description'), '', lambda r: r is None,
             bad=lambda c: c.DeleteQualifier(None)))
    a(Op('ExportIndication', lambda c: c.ExportIndication(INDICATION), emr('ExportIndication'), [''],
         lambda r: r is None, ['ExportIndication'], 'ExportIndication',
         None, ('export',)))
    # Iter* operations: open (not exhausted) followed by pull (exhausted)
    iters = [
        ('IterEnumerateInstances', lambda c: list(c.IterEnumerateInstances('CIM_Foo', MaxObjectCount=1)),
         'OpenEnumerateInstances', 'PullInstancesWithPath', withpath('a'), withpath('bé'), is_insts(2)),
        ('IterEnumerateInstancePaths', lambda c: list(c.IterEnumerateInstancePaths('CIM_Foo', MaxObjectCount=1)),
         'OpenEnumerateInstancePaths', 'PullInstancePaths', ipath('a'), ipath('bé'),
         is_paths(2, 'srv.example')),
        ('IterAssociatorInstances', lambda c: list(c.IterAssociatorInstances(PATH, MaxObjectCount=1)),
         'OpenAssociatorInstances', 'PullInstancesWithPath', withpath('a'), withpath('bé'), is_insts(2)),
        ('IterAssociatorInstancePaths', lambda c: list(c.IterAssociatorInstancePaths(PATH, MaxObjectCount=1)),
         'OpenAssociatorInstancePaths', 'PullInstancePaths', ipath('a'), ipath('bé'),
         is_paths(2, 'srv.example')),
        ('IterReferenceInstances', lambda c: list(c.IterReferenceInstances(PATH, MaxObjectCount=1)),
         'OpenReferenceInstances', 'PullInstancesWithPath', withpath('a'), withpath('bé'), is_insts(2)),
        ('IterReferenceInstancePaths', lambda c: list(c.IterReferenceInstancePaths(PATH, MaxObjectCount=1)),
         'OpenReferenceInstancePaths', 'PullInstancePaths', ipath('a'), ipath('bé'),
         is_paths(2, 'srv.example')),
    ]
    for name, call, oname, pname, first, second, chk in iters:
        a(Op(name, call, imr(oname),
             [irv(first) + pullparams(False, 'ctx-é-1'), imr(pname)(irv(second) + pullparams(True, None))],
             chk, [oname, pname], oname, None, ('iter',)))

    def iterquery(c):
        r = c.IterQueryInstances('DMTF:CQL', 'select * from CIM_Foo', MaxObjectCount=1)
        return [r.query_result_class] + list(r.generator)
    a(Op('IterQueryInstances', iterquery, imr('OpenQueryInstances'),
         [irv(inst(S + 'a')) + pullparams(False, 'ctx-q'),
          imr('PullInstances')(irv(inst(S + 'b')) + pullparams(True, None))],
         lambda r: r[0] is None and is_insts(2, haspath=False)(r[1:]),
         ['OpenQueryInstances', 'PullInstances'], 'OpenQueryInstances', None, ('iter',)))
    # pull not supported by the server: fallback to the traditional operation
    a(Op('IterEnumerateInstances/fallback',
         lambda c: list(c.IterEnumerateInstances('CIM_Foo', MaxObjectCount=1)), imr('OpenEnumerateInstances'),
         ['<ERROR CODE="7" DESCRIPTION="not supported"/>', imr('EnumerateInstances')(irv(named('a') + named('bé')))],
         is_insts(2), [('OpenEnumerateInstances', True), 'EnumerateInstances'], 'OpenEnumerateInstances', None,
         ('iter', 'fallback')))
    # iterator abandoned after the first item: CloseEnumeration is sent by the generator's cleanup

    def partial(c):
        g = c.IterEnumerateInstancePaths('CIM_Foo', MaxObjectCount=1)
        first = next(g)
        g.close()
        return [first]
    a(Op('IterEnumerateInstancePaths/close', partial, imr('OpenEnumerateInstancePaths'),
         [irv(ipath('a')) + pullparams(False, 'ctx-é-1'), imr('CloseEnumeration')('')],
         is_paths(1, 'srv.example'), ['OpenEnumerateInstancePaths', 'CloseEnumeration'],
         'OpenEnumerateInstancePaths', None, ('iter',)))
    return ops


# arguments of a type the operation rejects and that is not one of the CIM/Python types either
BADTYPE = {
    'GetInstance': lambda c: c.GetInstance(PATH, PropertyList={'Name'}),
    'EnumerateInstances': lambda c: c.EnumerateInstances('CIM_Foo', PropertyList={'Name': 1}.keys()),
    'EnumerateInstanceNames': lambda c: c.EnumerateInstanceNames(1.5),
    'InvokeMethod': lambda c: c.InvokeMethod('M', PATH, P1=1.5),
    'OpenEnumerateInstances': lambda c: c.OpenEnumerateInstances('CIM_Foo', MaxObjectCount=1.5),
    'PullInstancesWithPath': lambda c: c.PullInstancesWithPath({'ctx', NS}, 1),
    'EnumerateClasses': lambda c: c.EnumerateClasses(namespace=1.5),
    'GetClass': lambda c: c.GetClass('CIM_Foo', PropertyList=frozenset(['Name'])),
}

# response kinds; every kind is applied to every operation (first request of multi-request operations)
OKS = ('ok', 'ok2', 'ok3')
KINDS = ['ok2', 'ok3', 'ok', 'cimerr', 'cimerr-inst', 'badxml', 'badcim', 'wrongname', 'empty', 'http500', 'http401',
         'http404', 'ctype', 'connerr', 'timeout', 'maxretry', 'badparam', 'badtype', 'badutf8', 'closed']
ERRINST = ('<INSTANCE CLASSNAME="CIM_Error"><PROPERTY NAME="Message" TYPE="string"><VALUE>' + S +
           '</VALUE></PROPERTY></INSTANCE>')


def script_for(op, kind):
    """-> list of transport steps (independent of the configuration)."""
    def ok(text, headers=OKH):
        return ('reply', 200, 'OK', headers, text.encode('utf-8'))
    first = op.wrap(op.bodies[0])
    rest = [ok(b) for b in op.bodies[1:]]
    if kind in OKS:
        hdrs = OKH
        if kind == 'ok2':
            hdrs = dict(OKH, WBEMServerResponseTime='1234')
        elif kind == 'ok3':
            hdrs = dict(OKH, WBEMServerResponseTime='abc')      # ill-formed optional header
        return [ok(first, hdrs)] + rest
    if kind == 'cimerr':
        return [ok(op.wrap('<ERROR CODE="6" DESCRIPTION="nicht gefunden: ä€ &lt;x&gt;"/>'))]
    if kind == 'cimerr-inst':
        return [ok(op.wrap('<ERROR CODE="1" DESCRIPTION="' + S + '">' + ERRINST + '</ERROR>'))]
    if kind == 'badxml':
        cut = first.index('<SIMPLE') + 12
        return [ok(first[:cut])]
    if kind == 'badcim':
        return [ok(HDR + '<SIMPLERSP><FOO NAME="' + S + '"/></SIMPLERSP>' + TRL)]
    if kind == 'wrongname':
        return [ok(first.replace('RESPONSE NAME="', 'RESPONSE NAME="X' + S, 1))]
    if kind == 'empty':
        return [ok('')]
    if kind == 'badutf8':
        data = first.encode('utf-8')
        pos = data.index(b'<SIMPLE') + 3
        return [('reply', 200, 'OK', OKH, data[:pos] + b'\xff\xfe' + data[pos:])]
    if kind == 'http500':
        return [('reply', 500, 'Internal error', {'CIMError': 'request-not-valid', 'PGErrorDetail': 'bad%20thing',
                                                  'Content-type': 'text/html'}, '<html>é</html>'.encode('utf-8'))]
    if kind == 'http401':
        return [('reply', 401, 'Unauthorized', {'WWW-Authenticate': 'Basic realm="r"'}, b'')]
    if kind == 'http404':
        return [('reply', 404, 'Not Found', {}, 'né'.encode('utf-8'))]
    if kind == 'ctype':
        return [('reply', 200, 'OK', {'Content-type': 'text/html'}, ('<html>' + S + '</html>').encode('utf-8'))]
    if kind == 'connerr':
        return [('raise', lambda: requests.exceptions.ConnectionError('Connection refused: ' + S))]
    if kind == 'timeout':
        return [('raise', lambda: requests.exceptions.ReadTimeout('Read timed out. (read timeout=30)'))]
    if kind == 'maxretry':
        return [('raise', lambda: requests.exceptions.ConnectionError(urllib3.exceptions.MaxRetryError(
            None, '/cimom', urllib3.exceptions.ProtocolError('Connection aborted.'))))]
    if kind in ('badparam', 'badtype', 'closed'):
        return []
    raise AssertionError(kind)


EXPECT_EXC = {
    'cimerr': ('CIMError', lambda e: e.status_code == 6 and e.status_description == 'nicht gefunden: ä€ <x>'
               and not e.instances),
    'cimerr-inst': ('CIMError', lambda e: e.status_code == 1 and e.status_description == S and
                    len(e.instances) == 1 and e.instances[0]['Message'] == S),
    'badxml': ('XMLParseError', None),
    'badcim': ('CIMXMLParseError', None),
    'wrongname': ('CIMXMLParseError', None),
    'empty': ('XMLParseError', None),
    'badutf8': ('XMLParseError', None),
    'http500': ('HTTPError', lambda e: e.status == 500 and e.reason == 'Internal error' and
                e.cimerror == 'request-not-valid' and e.cimdetails == {'PGErrorDetail': 'bad thing'}),
    'http401': ('AuthError', None),
    'http404': ('HTTPError', lambda e: e.status == 404 and e.cimerror is None),
    'ctype': ('HeaderParseError', None),
    'connerr': ('ConnectionError', lambda e: e.args[0] == 'Connection refused: ' + S),
    'timeout': ('TimeoutError', None),
    'maxretry': ('ConnectionError', None),
    'closed': ('ConnectionError', lambda e: 'closed' in e.args[0]),
    'badparam': (('TypeError', 'ValueError', 'AttributeError'), None),
    'badtype': ('TypeError', lambda e: 'toyaml' not in e.args[0]),
}


def plan_for(op, kind):
    """Reference model of the statistics: [(operation name, failed)] for one scenario step."""
    if kind in OKS:
        return [(p, False) if isinstance(p, str) else p for p in op.plan]
    if 'fallback' in op.tags and kind == 'closed':
        return [('EnumerateInstances', True)]       # the decision against pull operations is sticky
    return [(op.errop, True)]


def kinds_for(op):
    # the fallback decision is sticky on the connection, so that scenario gets a connection of its own
    return ['ok', 'closed'] if 'fallback' in op.tags else KINDS


# ---------------------------------------------------------------------------------------------- configurations

Cfg = namedtuple('Cfg', 'log tcr rec_enabled stats debug pw')
Log = namedtuple('Log', 'name dest level act')
PASSWORDS = ['Zq9_S3cr3t', 'päss wörd:x"\'>>?~~', 'Pw\\back??>z~', 'Zq9_S3cr3t']     # 1, 2: base64 form has '+' and '/'
CREDS_LIST = 3      # index into PASSWORDS: same password, but creds passed as a list [user, password]
BARE = Cfg(None, False, True, False, False, 0)


def build_configs():
    cfgs = []
    levels = ['all', 'paths', 'summary', None, 0, 1, 7, 50, 300, 1000]
    dests = ['stderr', 'file', None, 'stderr-ascii']
    others = [(t, s, d) for t in (False, True) for s in (False, True) for d in (False, True)]
    i = 0
    for name in ('api', 'http', 'all'):
        for level in levels:
            t, s, d = others[(i * 3 + 1) % len(others)]
            cfgs.append(Cfg(Log(name, dests[i % 4], level, ('conn', 'global', 'copy')[(i // 2) % 3]), t, True, s, d, i % 3))
            i += 1
    # every tcr/stats/debug combination without logging and with full logging
    for t, s, d in others:
        if (t, s, d) != (False, False, False):
            cfgs.append(Cfg(None, t, True, s, d, i % 3))
        cfgs.append(Cfg(Log('all', 'stderr', 'all', 'conn'), t, True, s, d, (i + 1) % 3))
        i += 1
    # recorders present but disabled
    for lg in (Log('all', 'stderr', 'all', 'conn'), Log('http', 'file', 7, 'global'), Log('all', None, 30, 'conn'), None):
        for t in (False, True):
            if lg is None and not t:
                continue
            cfgs.append(Cfg(lg, t, False, True, True, i % 3))
            i += 1
    # multi-byte sensitive http lengths with the other observers
    for n in (2, 45, 120, 200, 250, 301, 302, 303, 400):
        cfgs.append(Cfg(Log(('http', 'all')[n % 2], ('stderr', None)[n % 2], n, 'conn'), n % 3 == 0, True, True,
                        n % 2 == 0, i % 3))
        i += 1
    # logging switched off again; credentials given as a list instead of a tuple
    for name in ('all', 'http'):
        cfgs.append(Cfg(Log(name, 'off', 'all', 'conn'), name == 'http', True, True, False, i % 3))
        i += 1
    for lg, t in ((None, False), (Log('all', 'stderr', 'all', 'conn'), True),
                  (Log('api', 'file', 'summary', 'global'), False), (Log('http', 'stderr', 'paths', 'copy'), False)):
        cfgs.append(Cfg(lg, t, True, False, False, CREDS_LIST))
    if R.tier == 'thorough':
        j = 0
        for name in ('api', 'http', 'all'):
            for level in levels:
                for dest in dests:
                    j += 1
                    if j % 2:
                        continue
                    t, s, d = others[(j * 5 + 2) % len(others)]
                    cfgs.append(Cfg(Log(name, dest, level, ('global', 'copy', 'conn')[(j // 2) % 3]), t, j % 11 != 0, s, d,
                                    j % 3))
    seen, out = set(), []
    for c in cfgs:
        if c not in seen and c != BARE:
            seen.add(c)
            out.append(c)
    return out


class Capture(logging.Handler):
    def __init__(self):
        super().__init__(logging.DEBUG)
        self.lines = []

    def emit(self, record):
        self.lines.append(record.getMessage())


class Env:
    """One WBEMConnection under one observer configuration, with everything the observers emit captured."""

    def __init__(self, cfg, seq):
        self.cfg = cfg
        self.pw = PASSWORDS[cfg.pw]
        self.cap = Capture()
        self.streams = []
        self.logfile = None
        self.tcr_fp = None
        self.adapter = Scripted()
        self.conn_ids = []
        lg = cfg.log
        try:
            if lg is not None and lg.act == 'global':
                self._configure(lg, True, seq)
            creds = [USER, self.pw] if cfg.pw == CREDS_LIST else (USER, self.pw)
            self.conn = WBEMConnection(URL, creds, use_pull_operations=None,
                                       stats_enabled=cfg.stats and cfg.pw == 0)
            self.conn.session.mount('http://', self.adapter)
            if cfg.stats:
                self.conn.stats_enabled = True
            if lg is not None and lg.act in ('conn', 'copy'):
                self._configure(lg, self.conn, seq)
            if cfg.tcr:
                self.tcr_fp = io.StringIO()
                self.conn.add_operation_recorder(TestClientRecorder(self.tcr_fp))
            if lg is not None and lg.act == 'copy':
                # the observers travel with WBEMConnection.copy()
                orig = self.conn
                self.conn = orig.copy()
                self.conn.session.mount('http://', self.adapter)
                self.conn_ids.append(orig.conn_id)
                orig.close()
                if cfg.stats:
                    self.conn.stats_enabled = True
            if lg is not None:
                for ln in LOGGERS:
                    logger = logging.getLogger(ln)
                    if lg.dest is None:
                        logger.setLevel(logging.DEBUG)
                    logger.addHandler(self.cap)
            if not cfg.rec_enabled:
                self.conn.operation_recorder_enabled = False
            if cfg.debug:
                self.conn.debug = True
        finally:
            sys.stderr = REAL_STDERR

    def _configure(self, lg, connection, seq):
        kw = {}
        dest = lg.dest
        if dest in ('stderr', 'stderr-ascii', 'off'):
            if dest != 'stderr-ascii':
                stream = io.StringIO()
            else:
                stream = io.TextIOWrapper(io.BytesIO(), encoding='ascii', errors='strict')
            self.streams.append(stream)
            sys.stderr = stream       # logging.StreamHandler() binds sys.stderr when it is created
            dest = 'stderr'
        elif dest == 'file':
            self.logfile = os.path.join(TMPDIR, 'log%d.txt' % seq)
            kw['log_filename'] = self.logfile
        configure_logger(lg.name, log_dest=dest, detail_level=lg.level, connection=connection, **kw)
        if lg.dest == 'off':
            configure_logger(lg.name, log_dest='off')       # on, then off again: the recorder stays attached
        sys.stderr = REAL_STDERR

    def outputs(self):
        """Everything an observer wrote, as (where, text)."""
        out = [('log-record', '\n'.join(self.cap.lines))]
        for s in self.streams:
            if isinstance(s, io.TextIOWrapper):
                s.flush()
                out.append(('stderr', s.buffer.getvalue().decode('ascii', 'replace')))
            else:
                out.append(('stderr', s.getvalue()))
        if self.logfile and os.path.exists(self.logfile):
            for ln in LOGGERS:
                for h in logging.getLogger(ln).handlers:
                    h.flush()
            with open(self.logfile, encoding='utf-8') as f:
                out.append(('log-file', f.read()))
        if self.tcr_fp is not None:
            out.append(('recorder-file', self.tcr_fp.getvalue()))
        out.append(('str', str(self.conn)))
        out.append(('repr', repr(self.conn)))
        return out

    def close(self):
        sys.stderr = REAL_STDERR
        for ln in LOGGERS:
            logger = logging.getLogger(ln)
            for h in list(logger.handlers):
                logger.removeHandler(h)
                try:
                    h.close()
                except Exception:
                    pass
            logger.setLevel(logging.NOTSET)
            logger.propagate = True
        WBEMConnection._reset_logging_config()
        for ln in LOGGERS:
            for cid in self.conn_ids + [self.conn.conn_id]:
                logging.Logger.manager.loggerDict.pop('%s.%s' % (ln, cid), None)
        if self.logfile and os.path.exists(self.logfile):
            os.remove(self.logfile)
        if self.conn.session is not None:
            self.conn.close()


# ---------------------------------------------------------------------------------------------- checks

def outcome(fn, conn):
    try:
        r = fn(conn)
        return ('ok', repr(r), r)
    except Exception as e:      # pylint: disable=broad-except
        return ('exc', type(e).__name__, repr(e.args), e)


def same_outcome(a, b):
    if a[0] != b[0]:
        return False
    if a[0] == 'ok':
        return a[1] == b[1] and a[2] == b[2]
    return a[1] == b[1] and a[2] == b[2]


def show(o):
    return (o[0] + ':' + o[1])[:160] if o[0] == 'ok' else ('exc:' + o[1] + o[2])[:200]


def decodable(data):
    try:
        data.decode('utf-8')
        return True
    except UnicodeDecodeError:
        return False


def http_logged_part(cfg, body):
    """Reference model of which reply bytes the HTTP logger has to turn into text (None: nothing)."""
    lg = cfg.log
    if lg is None or not cfg.rec_enabled or lg.name not in ('http', 'all') or not body:
        return None
    if lg.level == 'summary':
        return None
    if isinstance(lg.level, int) and lg.level > 0 and len(body) > lg.level:
        return body[:lg.level]
    return body


def raised_in(exc):
    """Names of the functions on the traceback of the exception (who raised it)."""
    names = set()
    tb = exc.__traceback__
    while tb is not None:
        names.add(tb.tb_frame.f_code.co_name)
        tb = tb.tb_next
    return names


def classify(cfg, op, kind, served, obs):
    """Id of the known defect explaining an outcome difference, or None."""
    if obs[0] != 'exc':
        return None
    replies = [s[2] for s in served if s[0] == 'reply' and s[1] == 200]
    if obs[1] == 'UnicodeDecodeError':
        where = raised_in(obs[3])
        if 'stage_http_response2' in where:
            for body in replies:
                part = http_logged_part(cfg, body)
                if part is not None and not decodable(part):
                    if decodable(body):
                        return 'known:http-log-maxlen-splits-utf8-reply'
                    return 'known:http-log-non-utf8-reply-raises-UnicodeDecodeError'
        elif 'record' in where and cfg.tcr and cfg.rec_enabled and any(not decodable(b) for b in replies):
            return 'known:tcr-non-utf8-reply-raises-UnicodeDecodeError'
    if obs[1] == 'UnboundLocalError' and op.name == 'PullInstances' and (cfg.log is not None or cfg.tcr) and \
            kind not in OKS:
        # also with disabled recorders: the faulty statement only looks at their presence
        return 'known:PullInstances-failure-with-recorder-raises-UnboundLocalError'
    if obs[1] == 'TypeError' and kind == 'badtype' and cfg.tcr and cfg.rec_enabled and \
            'toyaml' in raised_in(obs[3]) and 'TestClientRecorder.toyaml' in obs[3].args[0]:
        return 'known:tcr-unserializable-argument-replaces-error-with-toyaml-TypeError'
    if obs[1] == 'TypeError' and kind == 'ok3' and cfg.stats and 'stop_timer' in raised_in(obs[3]):
        return 'known:stats-non-numeric-server-response-time-raises-TypeError'
    if obs[1] == 'RepresenterError' and cfg.tcr and cfg.rec_enabled and 'py-datetime-arg' in op.tags:
        return 'known:tcr-datetime-param-raises-RepresenterError'
    return None


def pw_forms(pw):
    forms = {pw, ascii(pw)[1:-1], repr(pw)[1:-1], pw.encode('unicode_escape').decode('ascii')}
    b64 = base64.b64encode(('%s:%s' % (USER, pw)).encode('utf-8')).decode('ascii')
    return forms, b64


def check_password(env, desc):
    forms, b64 = pw_forms(env.pw)
    for where, text in env.outputs():
        for f in forms:
            if f in text:
                if env.cfg.pw == CREDS_LIST and where != 'recorder-file' and "['%s', '%s']" % (USER, f) in text:
                    # str()/repr() only elide the password of a tuple; the connection line of the log is repr()
                    R.violation('known:password-shown-when-creds-is-a-list', where=where, creds=[USER, env.pw],
                                found=f, **desc)
                else:
                    R.violation('password-in-' + where, password=env.pw, found=f, **desc)
        if b64 in text:
            R.violation('password-base64-in-' + where, password=env.pw, found=b64, **desc)
        else:
            # a PART of the Authorization token is a leak as well: any 8 characters of it (6 bytes of "user:password")
            # that reach into the password
            first = ((len(USER.encode('utf-8')) + 1) * 4) // 3 - 7
            part = next((b64[i:i + 8] for i in range(max(first, 0), len(b64) - 7) if b64[i:i + 8] in text), None)
            if part:
                R.violation('password-base64-partly-in-' + where, password=env.pw, token=b64, found=part, **desc)


def desc_of(cfg, op, kind):
    d = dict(operation=op.name, response=kind, stats=cfg.stats, debug=cfg.debug, test_client_recorder=cfg.tcr,
             recorders_enabled=cfg.rec_enabled,
             creds=[USER, PASSWORDS[cfg.pw]] if cfg.pw == CREDS_LIST else (USER, PASSWORDS[cfg.pw]))
    if cfg.log is not None:
        d['configure_logger'] = dict(cfg.log._asdict())
    return d


def run_sequence(cfg, op, kinds, seq, bare=None):
    """Run the scenario steps on one fresh connection; returns the per-step records."""
    env = Env(cfg, seq)
    conn, ad = env.conn, env.adapter
    model = {}
    tainted = False
    known_hit = False
    records = []
    try:
        for kind in kinds:
            if (kind == 'badparam' and op.bad is None) or (kind == 'badtype' and op.name not in BADTYPE):
                continue
            R.case((cfg, op.name, kind))
            desc = desc_of(cfg, op, kind)
            ad.script = script_for(op, kind)
            n0 = len(ad.seen)
            s0 = len(ad.served)
            if kind == 'closed':
                conn.close()
            obs = outcome(op.bad if kind == 'badparam' else BADTYPE[op.name] if kind == 'badtype' else op.call, conn)
            seen = ad.seen[n0:]
            served = ad.served[s0:]
            rec = dict(obs=obs,
                       # (the Authorization header depends on the password of the configuration; checked below)
                       seen=[(b, {k: v for k, v in h.items() if k != 'Authorization'}) for b, h in seen],
                       flags=tuple(getattr(conn, '_use_%s_pull_operations' % k) for k in (
                           'enum_inst', 'enum_path', 'ref_inst', 'ref_path', 'assoc_inst', 'assoc_path', 'query')))
            records.append(rec)
            known = None
            if bare is None:
                # hand-written expectation for the bare configuration
                if kind in OKS:
                    if obs[0] != 'ok' or not op.check(obs[2]):
                        R.violation('bare-outcome-unexpected', observed=show(obs), **desc)
                else:
                    names, pred = EXPECT_EXC[kind]
                    names = (names,) if isinstance(names, str) else names
                    if obs[0] != 'exc' or obs[1] not in names or (pred is not None and not pred(obs[3])):
                        R.violation('bare-outcome-unexpected', observed=show(obs), expected=names, **desc)
            else:
                ref = bare[len(records) - 1]
                if not same_outcome(obs, ref['obs']):
                    known = classify(cfg, op, kind, served, obs)
                    if known:
                        R.violation(known, observed=show(obs), bare=show(ref['obs']), **desc)
                        known_hit = True
                        # a failure raised while the request is in flight is counted as a failed operation
                        # (so is the remainder of a multi-request operation that was cut short)
                        tainted = tainted or known.startswith('known:http-log-') or (
                            known.startswith('known:stats-') and len(plan_for(op, kind)) > 1)
                    elif ref['obs'][0] == 'ok' and obs[0] == 'ok':
                        R.violation('observer-changes-result', observed=show(obs), bare=show(ref['obs']), **desc)
                    elif ref['obs'][0] == 'ok':
                        R.violation('observer-turns-success-into-failure', observed=show(obs),
                                    bare=show(ref['obs']), **desc)
                    elif obs[0] == 'ok':
                        R.violation('observer-turns-failure-into-success', observed=show(obs),
                                    bare=show(ref['obs']), **desc)
                    else:
                        R.violation('observer-changes-exception', observed=show(obs), bare=show(ref['obs']), **desc)
                if known is None:
                    if rec['seen'] != ref['seen']:
                        R.violation('observer-changes-request-sent', observed=repr(rec['seen'])[:300],
                                    bare=repr(ref['seen'])[:300], **desc)
                    if rec['flags'] != ref['flags']:
                        R.violation('observer-changes-pull-flags', observed=rec['flags'], bare=ref['flags'], **desc)
            if known is None:
                # raw request / reply against what the transport exchanged
                if seen:
                    body, headers = seen[-1]
                    if not isinstance(conn.last_raw_request, str) or \
                            body != XMLDECL + conn.last_raw_request.encode('utf-8'):
                        R.violation('last-raw-request-differs-from-bytes-sent', sent=repr(body)[:200],
                                    last_raw_request=repr(conn.last_raw_request)[:200], **desc)
                    if headers.get('Content-Length') != str(len(body)):
                        R.violation('content-length-differs-from-bytes-sent', header=headers.get('Content-Length'),
                                    sent=len(body), **desc)
                    exp_auth = 'Basic ' + base64.b64encode(('%s:%s' % (USER, env.pw)).encode('utf-8')).decode('ascii')
                    if headers.get('Authorization') != exp_auth:
                        R.violation('authorization-header-sent-differs', header=headers.get('Authorization'), **desc)
                    last = served[-1]
                    if last[0] == 'reply' and last[1] == 200 and kind != 'ctype':
                        if conn.last_raw_reply != last[2]:
                            R.violation('last-raw-reply-differs-from-bytes-received', received=repr(last[2])[:200],
                                        last_raw_reply=repr(conn.last_raw_reply)[:200], **desc)
                    elif conn.last_raw_reply is not None and (last[0] != 'reply' or conn.last_raw_reply != last[2]):
                        R.violation('last-raw-reply-set-without-reply', last_raw_reply=repr(conn.last_raw_reply)[:200],
                                    **desc)
                # parse errors carry the exchanged data
                if obs[0] == 'exc' and isinstance(obs[3], pywbem.ParseError) and kind != 'ctype' and seen:
                    e = obs[3]
                    if e.request_data != conn.last_raw_request or e.response_data != served[-1][2]:
                        R.violation('parse-error-data-differs-from-bytes-exchanged',
                                    request_data=repr(e.request_data)[:100], response_data=repr(e.response_data)[:100],
                                    **desc)
                # debug attributes
                try:
                    lreq, lrep = conn.last_request, conn.last_reply
                    if cfg.debug:
                        if seen and (not isinstance(lreq, str) or '<CIM ' not in lreq):
                            R.violation('debug-last-request-missing', last_request=repr(lreq)[:100], **desc)
                        if obs[0] == 'ok' and seen and (not isinstance(lrep, str) or '<CIM ' not in lrep):
                            R.violation('debug-last-reply-missing', last_reply=repr(lrep)[:100], **desc)
                    elif lreq is not None or lrep is not None:
                        R.violation('last-request-set-without-debug', **desc)
                except Exception as e:      # pylint: disable=broad-except
                    R.violation('debug-last-request-reply-raises-' + type(e).__name__, error=repr(e)[:200], **desc)
            # statistics: counting model
            for name, failed in plan_for(op, kind):
                cnt = model.setdefault(name, [0, 0])
                cnt[0] += 1
                cnt[1] += 1 if failed else 0
            if not tainted:
                snap = {n: [st.count, st.exception_count] for n, st in conn.statistics.snapshot()}
                if cfg.stats:
                    if snap != model:
                        R.violation('statistics-count-differs', observed=snap,
                                    expected={k: list(v) for k, v in model.items()}, **desc)
                        tainted = True
                    if conn.last_operation_time is None:
                        R.violation('last-operation-time-missing-with-statistics', **desc)
                elif snap:
                    R.violation('statistics-recorded-while-disabled', observed=snap, **desc)
        check_password(env, dict(operation=op.name, **({'configure_logger': dict(cfg.log._asdict())} if cfg.log else {}),
                                 test_client_recorder=cfg.tcr))
        if cfg.log is not None and cfg.log.dest == 'off':
            if env.cap.lines:
                R.violation('log-record-although-logging-is-off', operation=op.name,
                            configure_logger=dict(cfg.log._asdict()))
        elif cfg.log is not None and cfg.rec_enabled and not env.cap.lines:
            R.violation('logging-enabled-but-no-record', operation=op.name, configure_logger=dict(cfg.log._asdict()))
        if cfg.tcr and cfg.rec_enabled and not known_hit and 'name: ' not in env.tcr_fp.getvalue():
            R.violation('recorder-enabled-but-no-output', operation=op.name)
        if not cfg.rec_enabled and (env.tcr_fp is not None and env.tcr_fp.getvalue()):
            R.violation('disabled-recorder-wrote-output', operation=op.name)
    finally:
        env.close()
    return records


# ---------------------------------------------------------------------------------------------- sweeps

def sweep_maxlen(ops, seq0):
    """Every integer detail level against one reply of known byte layout (GetInstance / CIM error / pull)."""
    seq = seq0
    targets = [(ops['GetInstance'], 'ok'), (ops['GetInstance'], 'cimerr'), (ops['OpenEnumerateInstances'], 'ok')]
    for op, kind in targets:
        body = script_for(op, kind)[0][4]
        multi = [i for i, b in enumerate(body) if b >= 0x80]
        if R.tier == 'thorough':
            ns = list(range(0, len(body) + 3))
        else:
            ns = sorted(set([0, 1, 2, 39, 40, len(body) - 1, len(body), len(body) + 1] +
                            [m + d for m in multi[:14] for d in (0, 1)] + [multi[-1] + 1, multi[-1] + 2]))
            if op.name != 'GetInstance' or kind != 'ok':
                ns = ns[8:20]
        bare = run_sequence(BARE, op, [kind], seq)
        seq += 1
        for n in ns:
            for name in (('http', 'all', 'api') if R.tier == 'thorough' else (('http', 'all')[n % 2],)):
                for tcr in ((False, True) if R.tier == 'thorough' and n % 5 == 0 else (n % 3 == 0,)):
                    cfg = Cfg(Log(name, (None, 'stderr')[n % 2], n, ('conn', 'global')[(n // 2) % 2]), tcr, True,
                              n % 2 == 0, n % 4 == 0, n % 3)
                    run_sequence(cfg, op, [kind], seq, bare)
                    seq += 1
    return seq


def direct_recorder_checks():
    """LogOperationRecorder.stage_http_request called the way wbem_request calls it, with an Authorization header."""
    logger = logging.getLogger('pywbem.http')
    for level in ('all', 'summary', 10, 0):
        for auth, ident in (('Basic ' + pw_forms('Zq9_S3cr3t')[1], None),
                            ('Bearer abc.def.ghi', None),
                            ('Negotiate', 'known:log-recorder-authorization-without-blank-raises-ValueError'),
                            ('Digest username="u", realm="r", response="0123456789abcdef"',
                             'known:log-recorder-authorization-with-several-blanks-raises-ValueError')):
            for payload in (b'<CIM>' + S.encode('utf-8') + b'</CIM>', '<CIM>' + S + '</CIM>'):
                R.case(('direct-stage-http-request', level, auth, type(payload).__name__))
                cap = Capture()
                logger.addHandler(cap)
                logger.setLevel(logging.DEBUG)
                desc = dict(detail_level=level, headers={'Authorization': auth}, payload=repr(payload))
                try:
                    rec = LogOperationRecorder('test-id', detail_levels={'http': level})
                    headers = {'CIMMethod': 'GetInstance', 'Authorization': auth}
                    try:
                        rec.stage_http_request('test-id', 11, URL, '/cimom', 'POST', headers, payload)
                        rec.stage_http_response1('test-id', 11, 200, 'OK', {'Content-type': 'text/xml'})
                        rec.stage_http_response2(b'<CIM/>')
                    except Exception as e:      # pylint: disable=broad-except
                        if ident and isinstance(e, ValueError) and 'unpack' in str(e):
                            R.violation(ident, error=repr(e), **desc)
                        else:
                            R.violation('log-recorder-stage-raises-' + type(e).__name__, error=repr(e)[:200], **desc)
                        continue
                    text = '\n'.join(cap.lines)
                    secret = auth.split(' ', 1)[1] if ' ' in auth else None     # no blank: scheme only
                    if len(cap.lines) != 2:
                        R.violation('log-recorder-record-count', records=len(cap.lines), **desc)
                    if (secret and secret in text) or 'Zq9_S3cr3t' in text:
                        R.violation('authorization-credential-in-http-log', record=text[:300], **desc)
                finally:
                    logger.removeHandler(cap)
                    logger.setLevel(logging.NOTSET)
                    logging.Logger.manager.loggerDict.pop('pywbem.http.test-id', None)
                    logging.Logger.manager.loggerDict.pop('pywbem.api.test-id', None)


def invalid_configurations():
    """configure_logger rejects invalid input with ValueError and leaves connections usable."""
    op = build_ops()[0]
    for args in (('foo', 'stderr', 'all'), ('api', 'nowhere', 'all'), ('api', 'stderr', 'loud'), ('http', 'stderr', -1),
                 ('api', 'file', 'all', ''), ('all', 'stderr', 1.5)):
        R.case(('invalid-config',) + args)
        env = Env(BARE, 0)
        try:
            try:
                sys.stderr = io.StringIO()
                configure_logger(args[0], log_dest=args[1], detail_level=args[2], connection=env.conn,
                                 **({'log_filename': args[3]} if len(args) > 3 else {}))
                R.violation('invalid-logger-configuration-accepted', args=args)
            except ValueError:
                pass
            except Exception as e:      # pylint: disable=broad-except
                R.violation('invalid-logger-configuration-raises-' + type(e).__name__, args=args)
            finally:
                sys.stderr = REAL_STDERR
            env.adapter.script = script_for(op, 'ok')
            obs = outcome(op.call, env.conn)
            if obs[0] != 'ok' or not op.check(obs[2]):
                R.violation('operation-fails-after-rejected-logger-configuration', args=args, observed=show(obs))
        finally:
            env.close()


# ---------------------------------------------------------------------------------------------- main

def main():
    rnd = random.Random(R.seed)
    ops = build_ops()
    byname = {o.name: o for o in ops}
    cfgs = build_configs()
    seq = 1
    try:
        direct_recorder_checks()
        invalid_configurations()
        core = ('GetInstance', 'InvokeMethod/datetime', 'OpenEnumerateInstances', 'IterEnumerateInstances/fallback')
        for oi, op in enumerate(ops):
            bare = run_sequence(BARE, op, kinds_for(op), seq)
            seq += 1
            if R.tier == 'thorough' or op.name in core:
                chosen = cfgs
            else:
                k = 7
                start = (oi * k) % len(cfgs)
                chosen = [cfgs[(start + j) % len(cfgs)] for j in range(k)]
                chosen += rnd.sample([c for c in cfgs if c not in chosen], 2)
            for cfg in chosen:
                run_sequence(cfg, op, kinds_for(op), seq, bare)
                seq += 1
        seq = sweep_maxlen(byname, seq)
    finally:
        sys.stderr = REAL_STDERR
        shutil.rmtree(TMPDIR, ignore_errors=True)
    R.finish()


main()
