"""Bounded stand-in for C06: CIM data types hold only representable values and print/parse losslessly.

Oracles (all independent of pywbem):
  * integers: the numeric value is known by construction (strings are produced from it by an own
    base-N formatter), the DSP0004 limits are a literal table;
  * datetime: own 25-character formatter / calendar rule; every string is generated from a
    structured description, so kind, fields, UTC offset and precision are known by construction;
  * reals: exact rational arithmetic (the printed text must denote a number that rounds to the
    original float32/float64) plus bit-pattern comparison after the real pywbem parse.
"""
import itertools
import math
import random
import re
import struct
import time
from datetime import datetime, timedelta, timezone
from decimal import Decimal
from fractions import Fraction

from bounded.common import Run
import pywbem
from pywbem import (CIMDateTime, CIMProperty, CIMQualifier, CIMParameter, CIMQualifierDeclaration,
                    CIMInstanceName, CIMClassName, CIMInstance, CIMClass, MinutesFromUTC,
                    Uint8, Sint8, Uint16, Sint16, Uint32, Sint32, Uint64, Sint64, Real32, Real64, Char16)
from pywbem._cim_obj import cimvalue
from pywbem._cim_types import atomic_to_cim_xml, type_from_name
from pywbem._tupletree import xml_to_tupletree_sax
from pywbem._tupleparse import TupleParser

R = Run('8 CIM integer types: 8-bit (+-300 beyond range) exhaustive x all bases 2..36/0, positional+keyword x=/base= '
        'forms, float/bytes/bool/CIMInt/__index__/Decimal carriers; 16-bit exhaustive in 4 basic forms (thorough: every '
        '5th value in all forms); 32/64-bit at boundaries +-3 in all forms + seeded samples; cimvalue() and init/value= of '
        'CIMProperty/Qualifier/Parameter/QualifierDeclaration over a 90-value pool (+arrays with None) x 15 type names; '
        'CIMDateTime: every UTC offset -999..999 x 4 base stamps x 2 tzinfo kinds + string form, calendar '
        '(7 years x months 0..13 x days 0..32, own leap rule) and field boundaries, every (quick: 3rd) second of a day, '
        'interval days at all decimal boundaries up to 99999999, all 4096/2048 asterisk unit masks + partial-field + '
        'each of the 25 single positions x both kinds, copy-ctor/pickle/CIM-XML; reals: all 255 float32 exponents x >=16 '
        'mantissas, all 2047 float64 exponents x >=8 mantissas, all powers of ten +-1ulp, %G switch points, seeded bit '
        'patterns (quick 120k/100k, thorough 3M/2M), via atomic_to_cim_xml+unpack_single_value and PROPERTY(.ARRAY)/'
        'QUALIFIER/QUALIFIER.DECLARATION/KEYVALUE/INSTANCE XML, exact-rational check of the printed text')

QUICK = R.tier != 'thorough'
RND = random.Random(R.seed)
TP = TupleParser()
T_START = time.time()

LIMITS = {
    'uint8': (0, 255), 'sint8': (-128, 127),
    'uint16': (0, 65535), 'sint16': (-32768, 32767),
    'uint32': (0, 4294967295), 'sint32': (-2147483648, 2147483647),
    'uint64': (0, 18446744073709551615), 'sint64': (-9223372036854775808, 9223372036854775807),
}
CLS = {'uint8': Uint8, 'sint8': Sint8, 'uint16': Uint16, 'sint16': Sint16,
       'uint32': Uint32, 'sint32': Sint32, 'uint64': Uint64, 'sint64': Sint64}
INT_TYPES = list(LIMITS)
REAL_CLS = {'real32': Real32, 'real64': Real64}
ALL_TYPES = INT_TYPES + ['real32', 'real64', 'boolean', 'string', 'char16', 'datetime', 'reference']
DIGITS = '0123456789abcdefghijklmnopqrstuvwxyz'


_FOUND = {}


def V(vid, **detail):
    """Buffer the first violation per id; flush() reports unknown ids before 'known:' ones because the
    shared Run object keeps only the first five."""
    if vid not in _FOUND:
        _FOUND[vid] = detail


def flush():
    ids = sorted(_FOUND, key=lambda i: (i.startswith('known:'), i))
    for vid in ids:
        R.violation(vid, **_FOUND[vid])


def short(x, n=160):
    s = repr(x)
    return s if len(s) <= n else s[:n] + '...'


def to_base(v, b, upper=False):
    """Own integer formatter: the inverse used as the oracle for string inputs."""
    if v == 0:
        return '0'
    n, out = abs(v), []
    while n:
        n, d = divmod(n, b)
        out.append(DIGITS[d])
    s = ''.join(reversed(out))
    if upper:
        s = s.upper()
    return ('-' if v < 0 else '') + s


# --------------------------------------------------------------------------------------------
# A. integer types
# --------------------------------------------------------------------------------------------

class _Idx:
    def __init__(self, v):
        self.v = v

    def __index__(self):
        return self.v


class _IntLike:
    def __init__(self, v):
        self.v = v

    def __int__(self):
        return self.v


def int_outcome(tname, form, v, thunk, inp):
    """v is the mathematically intended value of the input described by inp."""
    cls = CLS[tname]
    lo, hi = LIMITS[tname]
    R.case(('int', tname, form, v))
    try:
        r = thunk()
    except ValueError as e:
        if lo <= v <= hi:
            V('int-rejects-in-range-value', type=tname, form=form, input=inp, value=v, observed=str(e)[:120])
        return
    except TypeError as e:
        V('int-valid-form-raises-TypeError', type=tname, form=form, input=inp, value=v, observed=str(e)[:120])
        return
    except Exception as e:  # pylint: disable=broad-except
        V('int-raises-' + type(e).__name__, type=tname, form=form, input=inp, value=v, observed=str(e)[:120])
        return
    if not lo <= v <= hi or not lo <= int(r) <= hi:
        V('int-holds-out-of-range-value', type=tname, form=form, input=inp, value=v, observed=short(r))
    elif type(r) is not cls or int(r) != v or r != v or r.cimtype != tname:
        V('int-wrong-value-or-type', type=tname, form=form, input=inp, value=v, observed=short(r))
    elif str(r) != to_base(v, 10) or hash(r) != hash(v):
        V('int-str-or-hash-differs', type=tname, form=form, input=inp, value=v, observed=str(r))


def int_forms_basic(cls, v):
    s = to_base(v, 10)
    yield 'int', (lambda: cls(v)), short(v)
    yield 'x=int', (lambda: cls(x=v)), 'x=%d' % v
    yield 'str', (lambda: cls(s)), short(s)
    yield 'x=str', (lambda: cls(x=s)), 'x=%r' % s


def int_forms_all(cls, v, float_ok):
    yield from int_forms_basic(cls, v)
    s = to_base(v, 10)
    for b in range(2, 37):
        sb = to_base(v, b, upper=(b % 2 == 1))
        yield 'str,base%d' % b, (lambda sb=sb, b=b: cls(sb, b)), '%r, %d' % (sb, b)
        yield 'str,base=%d' % b, (lambda sb=sb, b=b: cls(sb, base=b)), '%r, base=%d' % (sb, b)
        yield 'x=str,base=%d' % b, (lambda sb=sb, b=b: cls(x=sb, base=b)), 'x=%r, base=%d' % (sb, b)
        yield 'base=%d,x=str' % b, (lambda sb=sb, b=b: cls(base=b, x=sb)), 'base=%d, x=%r' % (b, sb)
    sign = '-' if v < 0 else ''
    for pfx, b in (('0x', 16), ('0X', 16), ('0o', 8), ('0b', 2), ('0B', 2)):
        sp = sign + pfx + to_base(abs(v), b)
        yield 'base0' + pfx, (lambda sp=sp: cls(sp, 0)), '%r, 0' % sp
        yield 'x=,base=0' + pfx, (lambda sp=sp: cls(x=sp, base=0)), 'x=%r, base=0' % sp
        yield 'prefixed,base%d' % b + pfx, (lambda sp=sp, b=b: cls(sp, b)), '%r, %d' % (sp, b)
    yield 'dec,base0', (lambda: cls(s, 0)), '%r, 0' % s
    yield 'bytes', (lambda: cls(s.encode('ascii'))), short(s.encode('ascii'))
    yield 'bytes,base16', (lambda: cls(to_base(v, 16).encode('ascii'), 16)), 'bytes hex'
    yield 'bytearray', (lambda: cls(bytearray(s.encode('ascii')))), 'bytearray(%r)' % s
    yield 'ws', (lambda: cls(' \t' + s + '\n')), short(' \t' + s + '\n')
    if v >= 0:
        yield 'plus', (lambda: cls('+' + s)), short('+' + s)
        yield 'lead0', (lambda: cls('000' + s)), short('000' + s)
    if abs(v) >= 10:
        su = s[:-1] + '_' + s[-1]
        yield 'underscore', (lambda: cls(su)), short(su)
    yield 'index-obj', (lambda: cls(_Idx(v))), '__index__ -> %d' % v
    yield 'int-obj', (lambda: cls(_IntLike(v))), '__int__ -> %d' % v
    yield 'x=index-obj', (lambda: cls(x=_Idx(v))), 'x=__index__ -> %d' % v
    yield 'fraction', (lambda: cls(Fraction(v))), 'Fraction(%d)' % v
    yield 'decimal', (lambda: cls(Decimal(v))), 'Decimal(%d)' % v
    if float_ok:
        yield 'float', (lambda: cls(float(v))), short(float(v))
        yield 'x=float', (lambda: cls(x=float(v))), 'x=%r' % float(v)
        # truncation toward zero keeps the integer part
        f = float(v) + (0.75 if v >= 0 else -0.75)
        yield 'float-frac', (lambda f=f: cls(f)), short(f)
        yield 'real64', (lambda: cls(Real64(v))), 'Real64(%d)' % v
    if v in (0, 1):
        yield 'bool', (lambda: cls(bool(v))), short(bool(v))
    for oname, ocls in CLS.items():
        olo, ohi = LIMITS[oname]
        if olo <= v <= ohi:
            yield 'cimint-' + oname, (lambda ocls=ocls: cls(ocls(v))), '%s(%d)' % (oname, v)


def int_invalid(tname):
    cls = CLS[tname]
    bad = [
        ('alpha', lambda: cls('abc')), ('empty', lambda: cls('')), ('realstr', lambda: cls('1.5')),
        ('none', lambda: cls(None)), ('list', lambda: cls([1])), ('x=none', lambda: cls(x=None)),
        ('digit-outside-base', lambda: cls('2', 2)), ('digit-outside-base-kw', lambda: cls(x='8', base=8)),
        ('base1', lambda: cls('0', 1)), ('base37', lambda: cls('0', 37)), ('base-1', lambda: cls('0', base=-1)),
        ('int-with-base', lambda: cls(100, 10)), ('x=int-with-base', lambda: cls(x=100, base=10)),
        ('base-only', lambda: cls(base=10)), ('nan', lambda: cls(float('nan'))),
        ('unknown-kw', lambda: cls(1, y=2)), ('three-args', lambda: cls('1', 10, 3)),
        ('hex-without-base', lambda: cls('0x10')), ('double-sign', lambda: cls('--1')),
        ('complex', lambda: cls(1j)), ('inner-space', lambda: cls('1 0')), ('double-underscore', lambda: cls('1__0')),
        ('huge-str', lambda: cls('9' * 40)), ('huge-int', lambda: cls(10 ** 40)), ('huge-neg', lambda: cls(-10 ** 40)),
        ('huge-float', lambda: cls(1e300)), ('huge-hex', lambda: cls('f' * 40, 16)), ('x=huge', lambda: cls(x=2 ** 64)),
    ]
    for key, thunk in bad:
        R.case(('int-invalid', tname, key))
        try:
            r = thunk()
        except (TypeError, ValueError):
            continue
        except Exception as e:  # pylint: disable=broad-except
            V('int-invalid-input-raises-' + type(e).__name__, type=tname, input=key, observed=str(e)[:120])
            continue
        V('int-invalid-input-accepted', type=tname, input=key, observed=short(r))
    # the constructor itself may reject infinity with any built-in error (OverflowError today); the
    # TypeError/ValueError requirement applies to cimvalue() and the setters (section B)
    for key, val in (('inf', float('inf')), ('-inf', float('-inf'))):
        R.case(('int-invalid', tname, key))
        try:
            r = cls(val)
        except (TypeError, ValueError, OverflowError):
            continue
        except Exception as e:  # pylint: disable=broad-except
            V('int-invalid-input-raises-' + type(e).__name__, type=tname, input=key, observed=str(e)[:120])
            continue
        V('int-invalid-input-accepted', type=tname, input=key, observed=short(r))
    # positional value together with x=: anything goes except holding an out-of-range value
    lo, hi = LIMITS[tname]
    for pos, kw in (('7', 8), ('9', 16), ('f', 16), (5, 3), ('1', '2'), ('z', 36), ('12', 10)):
        R.case(('int-both', tname, pos, kw))
        try:
            r = cls(pos, x=kw)
        except (TypeError, ValueError):
            continue
        except Exception as e:  # pylint: disable=broad-except
            V('int-invalid-input-raises-' + type(e).__name__, type=tname, input=(pos, kw), observed=str(e)[:120])
            continue
        if type(r) is not cls or not lo <= int(r) <= hi:
            V('int-holds-out-of-range-value', type=tname, form='pos+x', input=(pos, kw), observed=short(r))


def section_int():
    R.case(('config-default',))
    if pywbem.config.ENFORCE_INTEGER_RANGE is not True:
        V('int-range-enforcement-not-default', observed=pywbem.config.ENFORCE_INTEGER_RANGE)
    for tname, cls in CLS.items():
        lo, hi = LIMITS[tname]
        R.case(('int-limits', tname))
        if (cls.minvalue, cls.maxvalue, cls.cimtype) != (lo, hi, tname) or type_from_name(tname) is not cls:
            V('int-class-limits-differ-from-DSP0004', type=tname, observed=(cls.minvalue, cls.maxvalue, cls.cimtype))
        R.case(('int-noarg', tname))
        try:
            r = cls()
            if type(r) is not cls or int(r) != 0:
                V('int-wrong-value-or-type', type=tname, form='noarg', input='()', value=0, observed=short(r))
        except Exception as e:  # pylint: disable=broad-except
            V('int-noarg-raises-' + type(e).__name__, type=tname)
        int_invalid(tname)
        bits = int(tname[4:])
        bnd = set()
        for c in (lo, hi, 0):
            bnd.update(range(c - 3, c + 4))
        bnd.update((lo - 300, hi + 300, hi * 2 + 2, lo * 2 - 2, hi // 2, 9, 10, 11, -9, -10, 35, 36, 37))
        if bits == 8:
            full_forms = range(lo - 300, hi + 301)
            basic = range(lo - 300, hi + 301)
        elif bits == 16:
            full_forms = sorted(bnd) if QUICK else sorted(bnd | set(range(lo - 300, hi + 301, 5)))
            basic = range(lo - 300, hi + 301)
        else:
            full_forms = sorted(bnd)
            n = 6000 if QUICK else 150000
            span = hi - lo
            basic = [RND.randint(lo - span // 4, hi + span // 4) for _ in range(n)]
            basic += [lo - 1 - RND.getrandbits(RND.randint(1, 80)) for _ in range(n // 10)]
            basic += [hi + 1 + RND.getrandbits(RND.randint(1, 80)) for _ in range(n // 10)]
        float_ok = bits <= 32
        for v in full_forms:
            for form, thunk, inp in int_forms_all(cls, v, float_ok):
                int_outcome(tname, form, v, thunk, inp)
        for v in basic:
            for form, thunk, inp in int_forms_basic(cls, v):
                int_outcome(tname, form, v, thunk, inp)
        if bits == 64:
            # exactly representable doubles around the 64-bit limits
            for v in (2 ** 63, -2 ** 63, 2 ** 64, 2 ** 63 - 1024, -2 ** 63 - 2048, 2 ** 64 - 2048, 2 ** 64 + 4096, 2 ** 53, -2 ** 53):
                int_outcome(tname, 'float-exact', v, (lambda v=v: cls(float(v))), short(float(v)))
        # pickling / copying keeps type and value
        import copy
        import pickle
        for v in (lo, hi, 0):
            R.case(('int-pickle', tname, v))
            try:
                for r in (pickle.loads(pickle.dumps(cls(v))), copy.copy(cls(v)), copy.deepcopy(cls(v))):
                    if type(r) is not cls or int(r) != v:
                        V('int-pickle-copy-differs', type=tname, value=v, observed=short(r))
            except Exception as e:  # pylint: disable=broad-except
                V('int-pickle-copy-raises-' + type(e).__name__, type=tname, value=v)


# --------------------------------------------------------------------------------------------
# B. cimvalue() and the value setters: typed storage
# --------------------------------------------------------------------------------------------

INT_STR = re.compile(r'^\s*[+-]?[0-9]+(_[0-9]+)*\s*$')
TS_OK = '20240229235958.123456+060'
TS_AST = '20180911124613.128***-300'
IV_OK = '00000012235958.000001:000'
DT_BAD = '20241329235958.123456+060'
URI_OK = '//host/ns:C_Foo.k=1'


def dt_fields(d):
    return (d.year, d.month, d.day, d.hour, d.minute, d.second, d.microsecond)


def same_float(a, b):
    a, b = float(a), float(b)
    if math.isnan(a) or math.isnan(b):
        return math.isnan(a) and math.isnan(b)
    return struct.pack('<d', a) == struct.pack('<d', b)


def ref_int(value):
    """('ok', n) or ('bad',): what the DSP0004 integer carried by this Python value is."""
    if isinstance(value, (bool, int)):
        return ('ok', int(value))
    if isinstance(value, float):
        if math.isnan(value) or math.isinf(value):
            return ('bad',)
        return ('ok', math.trunc(value))
    if isinstance(value, (Decimal, Fraction)):
        return ('ok', math.trunc(value))
    if isinstance(value, bytes):
        try:
            value = value.decode('ascii')
        except UnicodeDecodeError:
            return ('bad',)
    if isinstance(value, str):
        if INT_STR.match(value):
            return ('ok', int(value.strip().replace('_', '')))
        return ('bad',)
    return ('bad',)


def ref_real(value):
    if isinstance(value, (bool, int)):
        if abs(int(value)) >= 2 ** 1024:
            return ('bad',)
        return ('ok', float(value))
    if isinstance(value, float):
        return ('ok', float.__float__(value))
    if isinstance(value, (Decimal, Fraction)):
        return ('ok', float(value))
    if isinstance(value, (str, bytes)):
        try:
            return ('ok', float(value))   # Python's float grammar: a superset of the DSP0004 real grammar
        except ValueError:
            return ('bad',)
    return ('bad',)


def expect_scalar(value, tname):
    """-> ('accept', predicate(result)) | ('reject',) for a non-None scalar value."""
    if tname in LIMITS:
        r = ref_int(value)
        lo, hi = LIMITS[tname]
        if r[0] == 'ok' and lo <= r[1] <= hi:
            return ('accept', lambda res, n=r[1]: int(res) == n)
        return ('reject',)
    if tname in REAL_CLS:
        r = ref_real(value)
        if r[0] == 'ok':
            return ('accept', lambda res, f=r[1]: same_float(res, f))
        return ('reject',)
    if tname == 'boolean':
        return ('accept', lambda res, b=bool(value): res is b)
    if tname in ('string', 'char16'):
        if isinstance(value, str):
            return ('accept', lambda res: res == value)
        if isinstance(value, bytes):
            return ('accept', lambda res: res == value.decode('utf-8'))
        if tname == 'string' and isinstance(value, (CIMInstance, CIMClass)):
            return ('accept', lambda res: res is value or res == value)
        return ('reject',)
    if tname == 'datetime':
        if isinstance(value, CIMDateTime):
            return ('accept', lambda res: res.is_interval == value.is_interval and res.datetime == value.datetime and
                    res.timedelta == value.timedelta and res.precision == value.precision and
                    res.minutes_from_utc == value.minutes_from_utc and str(res) == str(value))
        if isinstance(value, datetime):
            off = 0 if value.tzinfo is None else int(value.utcoffset().total_seconds() // 60)
            return ('accept', lambda res: (not res.is_interval) and dt_fields(res.datetime) == dt_fields(value) and
                    res.minutes_from_utc == off and res.precision is None)
        if isinstance(value, timedelta):
            return ('accept', lambda res: res.is_interval and res.timedelta == value and res.precision is None)
        if isinstance(value, (str, bytes)):
            sv = value.decode('ascii') if isinstance(value, bytes) else value
            if sv in (TS_OK, TS_AST, IV_OK):
                return ('accept', lambda res: str(res) == sv)
            return ('reject',)
        return ('reject',)
    if tname == 'reference':
        if isinstance(value, (CIMInstanceName, CIMClassName)):
            return ('accept', lambda res: res == value)
        if isinstance(value, str) and value == URI_OK:
            return ('accept', lambda res: type(res) is CIMInstanceName and res.classname == 'C_Foo' and
                    res.namespace == 'ns' and res.host == 'host' and res.keybindings['k'] == 1)
        return ('reject',)
    raise AssertionError(tname)


def tag_ok(res, tname):
    if tname in LIMITS:
        return type(res) is CLS[tname] and LIMITS[tname][0] <= int(res) <= LIMITS[tname][1]
    if tname in REAL_CLS:
        return type(res) is REAL_CLS[tname]
    if tname == 'boolean':
        return type(res) is bool
    if tname == 'string':
        return isinstance(res, (str, CIMInstance, CIMClass))
    if tname == 'char16':
        return isinstance(res, str)
    if tname == 'datetime':
        return type(res) is CIMDateTime
    return isinstance(res, (CIMInstanceName, CIMClassName))


def expect_value(value, tname):
    """-> ('accept', checker(result) -> None|(violation-id, note)) | ('reject',)"""
    if value is None:
        return ('accept', lambda res: None if res is None else ('typed-value-null-not-preserved', short(res)))
    if isinstance(value, list):
        exps = [expect_value(v, tname) for v in value]
        if any(e[0] == 'reject' for e in exps):
            return ('reject',)

        def chk(res):
            if not isinstance(res, list) or len(res) != len(value):
                return ('typed-array-shape-differs', short(res))
            for e, r in zip(exps, res):
                bad = e[1](r)
                if bad:
                    return bad
            return None
        return ('accept', chk)
    e = expect_scalar(value, tname)
    if e[0] == 'reject':
        return e

    def chk1(res):
        if not tag_ok(res, tname):
            return ('typed-value-wrong-tag', '%s: %s' % (type(res).__name__, short(res)))
        if not e[1](res):
            return ('typed-value-wrong-value', short(res))
        return None
    return ('accept', chk1)


def flat(value):
    return value if isinstance(value, list) else [value]


def typed_outcome(via, label, value, tname, thunk):
    """thunk() -> stored value; raises what the pywbem call raises."""
    R.case(('typed', via, label, tname))
    exp = expect_value(value, tname)
    det = dict(via=via, type=tname, input=label)
    try:
        res = thunk()
    except (TypeError, ValueError) as e:
        # the init methods legitimately refuse embedded objects for types other than string, and tuples
        # (taken as arrays) for scalar elements
        emb = via.endswith('.init') and (isinstance(value, tuple) or (tname != 'string' and any(
            isinstance(v, (CIMInstance, CIMClass)) for v in flat(value))))
        if exp[0] == 'accept' and not emb:
            V('typed-value-rejects-valid', observed='%s: %s' % (type(e).__name__, str(e)[:120]), **det)
        return
    except OverflowError as e:
        if exp[0] == 'reject' and tname in LIMITS and any(isinstance(v, float) and math.isinf(v) for v in flat(value)):
            V('known:int-type-from-infinity-raises-OverflowError', observed=str(e)[:120], **det)
        elif exp[0] == 'reject' and tname in REAL_CLS and any(
                type(v) is int and abs(v) >= 2 ** 1024 for v in flat(value)):
            V('known:real-type-from-huge-int-raises-OverflowError', observed=str(e)[:120], **det)
        else:
            V('typed-value-raises-OverflowError', observed=str(e)[:120], **det)
        return
    except Exception as e:  # pylint: disable=broad-except
        V('typed-value-raises-' + type(e).__name__, observed=str(e)[:120], **det)
        return
    if exp[0] == 'reject':
        # stored although not representable in the type: narrow the known pass-through of string/char16
        items, stored = flat(value), flat(res) if isinstance(res, list) else [res]
        if tname in ('string', 'char16') and len(items) == len(stored) and all(
                s is i for s, i in zip(stored, items)) and any(
                i is not None and not isinstance(i, (str, bytes, CIMInstance, CIMClass)) for i in items):
            V('known:string-type-stores-nonstring-value', observed='%s: %s' % (type(res).__name__, short(res)), **det)
        elif tname == 'char16' and len(items) == len(stored) and all(s is i for s, i in zip(stored, items)):
            # embedded objects offered to char16
            V('known:string-type-stores-nonstring-value', observed='%s: %s' % (type(res).__name__, short(res)), **det)
        else:
            V('typed-value-accepts-unrepresentable', observed='%s: %s' % (type(res).__name__, short(res)), **det)
        return
    bad = exp[1](res)
    if bad:
        V(bad[0], observed=bad[1], **det)


def value_pool():
    aware = datetime(2024, 2, 29, 23, 59, 58, 123456, tzinfo=MinutesFromUTC(120))
    pool = [(repr(n) if abs(n) < 10 ** 30 else '10**400', n) for n in (
        0, 1, -1, 127, 128, 255, 256, -128, -129, 32767, 32768, -32768, -32769, 65535, 65536, 2 ** 31 - 1, 2 ** 31,
        -2 ** 31, -2 ** 31 - 1, 2 ** 32 - 1, 2 ** 32, 2 ** 63 - 1, 2 ** 63, -2 ** 63, -2 ** 63 - 1, 2 ** 64 - 1, 2 ** 64,
        10 ** 400)]
    pool += [('True', True), ('False', False)]
    pool += [('float(%r)' % f, f) for f in (0.0, -0.0, 1.5, -1.5, 255.9, 256.0, -0.9, -128.9, 1e300,
                                            float('nan'), float('inf'), float('-inf'))]
    pool += [(repr(s), s) for s in ('5', ' 12 ', '-129', '300', '+7', 'abc', '', '1.5', 'nan', '-INF', '1_0', '0x10',
                                    TS_OK, TS_AST, IV_OK, DT_BAD, URI_OK)]
    pool += [(repr(b), b) for b in (b'12', b'abc', TS_OK.encode('ascii'))]
    pool += [("Char16('5')", Char16('5')), ("Char16('a')", Char16('a'))]
    pool += [('Uint8(255)', Uint8(255)), ('Sint8(-128)', Sint8(-128)), ('Uint16(65535)', Uint16(65535)),
             ('Sint64(-2**63)', Sint64(-2 ** 63)), ('Uint64(2**64-1)', Uint64(2 ** 64 - 1)), ('Uint32(0)', Uint32(0))]
    pool += [('Real32(1.5)', Real32(1.5)), ('Real64(-2.5)', Real64(-2.5)), ("Real32(float('inf'))", Real32(float('inf'))),
             ('Real64(300.7)', Real64(300.7))]
    pool += [('datetime(2024,2,29,23,59,58,123456)', datetime(2024, 2, 29, 23, 59, 58, 123456)),
             ('datetime(...,tzinfo=MinutesFromUTC(120))', aware),
             ('datetime(...,tzinfo=timezone(-999min))', datetime(1999, 12, 31, 0, 0, 0, 1, tzinfo=timezone(timedelta(minutes=-999)))),
             ('timedelta(days=1,seconds=5,microseconds=7)', timedelta(days=1, seconds=5, microseconds=7)),
             ('CIMDateTime(%r)' % TS_AST, CIMDateTime(TS_AST)), ('CIMDateTime(%r)' % IV_OK, CIMDateTime(IV_OK)),
             ("CIMDateTime('00000012******.******:000')", CIMDateTime('00000012******.******:000'))]
    pool += [("CIMInstanceName('C',{'k':1})", CIMInstanceName('C', {'k': 1})), ("CIMClassName('C')", CIMClassName('C')),
             ("CIMInstance('C')", CIMInstance('C')), ("CIMClass('C')", CIMClass('C'))]
    pool += [('(1, 2)', (1, 2)), ('{}', {}), ('object()', object()), ("Decimal('5.5')", Decimal('5.5')),
             ('Fraction(11, 2)', Fraction(11, 2)), ('1j', 1j)]
    return pool


VALID_FOR = {
    'boolean': (True, False), 'string': ('a', ''), 'char16': ('a', 'b'), 'real32': (1.5, -0.0), 'real64': (0.1, 1e300),
    'datetime': (TS_AST, timedelta(days=3)), 'reference': (URI_OK, CIMClassName('C')),
}


def make_paths(tname):
    """(via, thunk(value)) pairs: cimvalue and the init/setter of the four element classes."""
    def prop_set(v):
        o = CIMProperty('P', None, tname)
        try:
            o.value = v
        except Exception:
            if o.value is not None:
                V('typed-setter-failed-but-changed-value', via='CIMProperty.value=', type=tname, input=short(v))
            raise
        return o.value

    def qual_set(v):
        o = CIMQualifier('Q', None, tname)
        try:
            o.value = v
        except Exception:
            if o.value is not None:
                V('typed-setter-failed-but-changed-value', via='CIMQualifier.value=', type=tname, input=short(v))
            raise
        return o.value

    def parm_set(v):
        o = CIMParameter('P', tname)
        try:
            o.value = v
        except Exception:
            if o.value is not None:
                V('typed-setter-failed-but-changed-value', via='CIMParameter.value=', type=tname, input=short(v))
            raise
        return o.value

    def decl_set(v):
        o = CIMQualifierDeclaration('Q', tname, is_array=isinstance(v, list))
        try:
            o.value = v
        except Exception:
            if o.value is not None:
                V('typed-setter-failed-but-changed-value', via='CIMQualifierDeclaration.value=', type=tname, input=short(v))
            raise
        return o.value

    paths = [('cimvalue', lambda v: cimvalue(v, tname)),
             ('CIMProperty.init', lambda v: CIMProperty('P', v, tname).value),
             ('CIMProperty.value=', prop_set),
             ('CIMParameter.init', lambda v: CIMParameter('P', tname, value=v).value),
             ('CIMParameter.value=', parm_set)]
    if tname != 'reference':   # qualifiers cannot be references
        paths += [('CIMQualifier.init', lambda v: CIMQualifier('Q', v, tname).value),
                  ('CIMQualifier.value=', qual_set),
                  ('CIMQualifierDeclaration.init',
                   lambda v: CIMQualifierDeclaration('Q', tname, value=v, is_array=isinstance(v, list)).value),
                  ('CIMQualifierDeclaration.value=', decl_set)]
    return paths


def section_typed():
    for tname in ALL_TYPES:
        R.case(('type_from_name', tname))
        try:
            t = type_from_name(tname)
            want = CLS.get(tname) or REAL_CLS.get(tname) or {'boolean': bool, 'string': str, 'char16': str,
                                                             'datetime': CIMDateTime, 'reference': CIMInstanceName}[tname]
            if t is not want:
                V('type_from_name-wrong-class', type=tname, observed=short(t))
        except Exception as e:  # pylint: disable=broad-except
            V('type_from_name-not-total', type=tname, observed=type(e).__name__)
    for bad in ('uint128', 'Uint8', 'int', '', 'real', None):
        R.case(('type_from_name-bad', bad))
        try:
            t = type_from_name(bad)
            V('type_from_name-accepts-unknown', type=bad, observed=short(t))
        except (ValueError, TypeError):
            pass
        for via, call in (('cimvalue', lambda: cimvalue(5, bad)), ('CIMProperty.init', lambda: CIMProperty('P', 5, bad)),
                          ('CIMQualifier.init', lambda: CIMQualifier('Q', 5, bad)),
                          ('CIMParameter.init', lambda: CIMParameter('P', bad, value=5)),
                          ('CIMQualifierDeclaration.init', lambda: CIMQualifierDeclaration('Q', bad, value=5))):
            R.case(('typed-badtype', via, bad))
            try:
                r = call()
                V('typed-value-accepted-with-unknown-type', via=via, type=bad, observed=short(r))
            except (TypeError, ValueError):
                pass
            except Exception as e:  # pylint: disable=broad-except
                V('typed-value-raises-' + type(e).__name__, via=via, type=bad, input='5')
    pool = value_pool()
    for tname in ALL_TYPES:
        paths = make_paths(tname)
        lo_hi = LIMITS.get(tname)
        ok_a, ok_b = (lo_hi if lo_hi else VALID_FOR[tname])
        for label, value in pool:
            for via, call in paths:
                typed_outcome(via, label, value, tname, lambda: call(value))
        arrays = [('[]', []), ('[None]', [None]), ('[a, None, b]', [ok_a, None, ok_b]), ('[None, b, b]', [None, ok_b, ok_b])]
        if lo_hi:
            arrays += [('[lo, hi+1]', [lo_hi[0], lo_hi[1] + 1]), ('[None, lo-1]', [None, lo_hi[0] - 1]),
                       ("['%d', %d.0, True]" % (lo_hi[1], lo_hi[1]), [str(lo_hi[1]), float(min(lo_hi[1], 2 ** 53)), True]),
                       ("[0, 'abc']", [0, 'abc']), ("[1, float('inf')]", [1, float('inf')])]
        if tname in REAL_CLS:
            arrays += [("[1, '2.5', float('nan')]", [1, '2.5', float('nan')]), ("[1.0, 'x']", [1.0, 'x']),
                       ('[1.0, 10**400]', [1.0, 10 ** 400])]
        if tname == 'datetime':
            arrays += [('[datetime, timedelta, str]', [datetime(2000, 2, 29), timedelta(1), IV_OK]),
                       ('[str-ok, str-bad]', [TS_OK, DT_BAD]), ('[timedelta, 5]', [timedelta(1), 5])]
        if tname in ('string', 'char16'):
            arrays += [("['a', 5]", ['a', 5]), ("[b'a', 'b']", [b'a', 'b'])]
        for label, value in arrays:
            for via, call in paths:
                typed_outcome(via, label, value, tname, lambda: call(value))
    # type inferred from the value (no type given): Python numbers must be rejected, CIM types keep their tag
    for label, value in pool:
        for via, call in (('CIMProperty.init(type=None)', lambda: CIMProperty('P', value)),
                          ('CIMQualifier.init(type=None)', lambda: CIMQualifier('Q', value)),
                          ('cimvalue(type=None)', lambda: cimvalue(value, None))):
            R.case(('typed-infer', via, label))
            det = dict(via=via, input=label)
            try:
                r = call()
            except (TypeError, ValueError):
                continue
            except Exception as e:  # pylint: disable=broad-except
                V('typed-value-raises-' + type(e).__name__, type=None, observed=str(e)[:120], **det)
                continue
            if type(value) in (int, float, Decimal, Fraction, complex, tuple, dict, object):
                V('typed-infer-accepts-untyped-python-value', observed=short(r), **det)
                continue
            if via.startswith('cimvalue'):
                stored, tn = r, None
            else:
                stored, tn = r.value, r.type
                if tn not in ALL_TYPES:
                    V('typed-infer-unknown-type', observed=tn, **det)
                    continue
                if isinstance(value, pywbem.CIMType) and not isinstance(value, Char16) and tn != value.cimtype:
                    V('typed-infer-wrong-type', observed=tn, **det)
                    continue
                if not tag_ok(stored, tn):
                    V('typed-value-wrong-tag', type=tn, observed=short(stored), **det)


# --------------------------------------------------------------------------------------------
# C. CIMDateTime
# --------------------------------------------------------------------------------------------

def zp(v, n):
    s = to_base(v, 10)
    return '0' * (n - len(s)) + s


def is_leap(y):
    return y % 4 == 0 and (y % 100 != 0 or y % 400 == 0)


def days_in_month(y, m):
    return (31, 29 if is_leap(y) else 28, 31, 30, 31, 30, 31, 31, 30, 31, 30, 31)[m - 1]


def mask_from(body, prec):
    """Replace every digit from index prec on by '*' (the '.' stays)."""
    if prec is None:
        return body
    return body[:prec] + ''.join(c if c == '.' else '*' for c in body[prec:])


def ts_string(f, off, prec=None, minus_zero=False):
    body = zp(f[0], 4) + zp(f[1], 2) + zp(f[2], 2) + zp(f[3], 2) + zp(f[4], 2) + zp(f[5], 2) + '.' + zp(f[6], 6)
    sign = '-' if (off < 0 or minus_zero) else '+'
    return mask_from(body, prec) + sign + zp(abs(off), 3)


def iv_string(f, prec=None):
    body = zp(f[0], 8) + zp(f[1], 2) + zp(f[2], 2) + zp(f[3], 2) + '.' + zp(f[4], 6)
    return mask_from(body, prec) + ':000'


TS_BOUNDS = ((0, 4), (4, 6), (6, 8), (8, 10), (10, 12), (12, 14), (15, 21))
IV_BOUNDS = ((0, 8), (8, 10), (10, 12), (12, 14), (15, 21))
TS_MIN = (0, 1, 1, 0, 0, 0)
IV_MIN = (0, 0, 0, 0)


def masked_fields(kind, f, prec):
    """Value of the fields when the digits from string index prec on are insignificant."""
    if prec is None:
        return tuple(f)
    bounds, mins = (TS_BOUNDS, TS_MIN) if kind == 'ts' else (IV_BOUNDS, IV_MIN)
    out = []
    for i, (b, e) in enumerate(bounds):
        if i == len(bounds) - 1:
            digs = zp(f[i], 6)
            keep = max(0, min(6, prec - b))
            out.append(int(digs[:keep] + '0' * (6 - keep)))
        elif prec <= b:
            out.append(mins[i])
        else:
            out.append(f[i])
    return tuple(out)


def dt_problems(x, kind, f, off, prec):
    """Compare a CIMDateTime with the structured expectation; f are the (already masked) fields."""
    if type(x) is not CIMDateTime:
        return 'not a CIMDateTime: %s' % short(x)
    if x.is_interval is not (kind == 'iv'):
        return 'is_interval=%r' % x.is_interval
    if x.precision != prec:
        return 'precision=%r expected %r' % (x.precision, prec)
    if kind == 'ts':
        d = x.datetime
        if x.timedelta is not None or type(d) is not datetime:
            return 'stores datetime=%s timedelta=%s' % (short(d), short(x.timedelta))
        if dt_fields(d) != tuple(f):
            return 'fields=%r expected %r' % (dt_fields(d), tuple(f))
        if x.minutes_from_utc != off or type(x.minutes_from_utc) is not int:
            return 'minutes_from_utc=%r expected %r' % (x.minutes_from_utc, off)
        uo = d.utcoffset()
        if uo is None or (uo.days * 86400 + uo.seconds, uo.microseconds) != (off * 60, 0):
            return 'utcoffset=%r expected %r minutes' % (uo, off)
    else:
        td = x.timedelta
        if x.datetime is not None or type(td) is not timedelta:
            return 'stores datetime=%s timedelta=%s' % (short(x.datetime), short(td))
        secs = f[1] * 3600 + f[2] * 60 + f[3]
        if (td.days, td.seconds, td.microseconds) != (f[0], secs, f[4]):
            return 'timedelta=%r expected days=%d seconds=%d us=%d' % (td, f[0], secs, f[4])
        if x.minutes_from_utc != 0:
            return 'minutes_from_utc=%r for an interval' % x.minutes_from_utc
    return None


def dt_roundtrip(x, kind, f, off, prec, src, check_copy=True, hashable=True):
    """x was built from src and must denote (kind, f, off, prec); f already masked and normalised."""
    det = dict(input=src, kind=kind)
    p = dt_problems(x, kind, f, off, prec)
    if p:
        V('datetime-constructed-value-differs', observed=p, **det)
        return
    want = ts_string(f, off, prec) if kind == 'ts' else iv_string(f, prec)
    try:
        s = str(x)
    except Exception as e:  # pylint: disable=broad-except
        V('datetime-str-raises-' + type(e).__name__, **det)
        return
    if s != want or len(s) != 25:
        V('datetime-str-differs', observed=s, expected=want, **det)
        return
    try:
        y = CIMDateTime(s)
    except Exception as e:  # pylint: disable=broad-except
        V('datetime-own-str-not-parsable', observed='%s: %s' % (type(e).__name__, str(e)[:100]), string=s, **det)
        return
    p = dt_problems(y, kind, f, off, prec)
    if p:
        V('datetime-reparsed-value-differs', observed=p, string=s, **det)
        return
    if not (y == x) or not (x == y) or (y != x) or str(y) != s:
        V('datetime-reparsed-not-equal', string=s, observed=repr(y), **det)
        return
    if hashable and hash(y) != hash(x):
        V('datetime-reparsed-hash-differs', string=s, **det)
    if check_copy:
        try:
            z = CIMDateTime(x)
        except Exception as e:  # pylint: disable=broad-except
            V('datetime-copy-raises-' + type(e).__name__, **det)
            return
        p = dt_problems(z, kind, f, off, prec)
        if p:
            if prec is not None and z.precision is None and dt_problems(z, kind, f, off, None) is None:
                V('known:datetime-copy-constructor-drops-precision', observed='precision None, str %r' % str(z),
                  expected='precision %r, str %r' % (prec, s), **det)
            else:
                V('datetime-copy-differs', observed=p, **det)


def norm_iv(f):
    total = f[0] * 86400 + f[1] * 3600 + f[2] * 60 + f[3]
    d, r = divmod(total, 86400)
    h, r = divmod(r, 3600)
    m, s = divmod(r, 60)
    return (d, h, m, s, f[4])


def dt_from_string(s, kind, f, off, prec, expect_ok, key, allow_reject=False, **kw):
    """Construct from a generated string whose meaning is known by construction."""
    R.case(key)
    try:
        x = CIMDateTime(s)
    except ValueError as e:
        if expect_ok and not allow_reject:
            V('datetime-rejects-legal-string', input=s, kind=kind, observed=str(e)[:140])
        return None
    except Exception as e:  # pylint: disable=broad-except
        V('datetime-string-raises-' + type(e).__name__, input=s, kind=kind, observed=str(e)[:140])
        return None
    if not expect_ok:
        V('datetime-accepts-illegal-string', input=s, kind=kind, observed=repr(x))
        return None
    mf = masked_fields(kind, f, prec)
    if kind == 'iv':
        mf = norm_iv(mf)
        if mf[0] > 99999999:
            return x   # outside of what DSP0004 can express: no print requirement
    dt_roundtrip(x, kind, mf, off, prec, s, **kw)
    return x


def legal_precisions(kind):
    bounds = TS_BOUNDS if kind == 'ts' else IV_BOUNDS
    return [b for b, _ in bounds[:-1]] + list(range(15, 21))


def section_datetime():
    # ---- C1: from datetime objects: field boundaries x offsets -------------------------------
    stamps = []
    for y in (1, 4, 99, 100, 999, 1000, 1900, 1999, 2000, 2023, 2024, 2100, 9999):
        for mo in (1, 2, 6, 11, 12):
            dim = days_in_month(y, mo)
            for d in sorted({1, 9, 10, 28, dim}):
                stamps.append((y, mo, d))
    times = [(0, 0, 0, 0), (23, 59, 59, 999999), (9, 10, 9, 1), (10, 9, 10, 100000), (12, 0, 60 - 1, 999), (0, 59, 0, 10),
             (1, 1, 1, 99999), (19, 0, 0, 123000)]
    tzkinds = (('MinutesFromUTC', lambda m: MinutesFromUTC(m)), ('timezone', lambda m: timezone(timedelta(minutes=m))))
    offs_small = (-999, -998, -721, -720, -60, -1, 0, 1, 59, 60, 61, 330, 720, 840, 998, 999)

    def from_dt(f, off, tzk, tzf, naive=False):
        R.case(('dt-obj', f, off, tzk))
        try:
            dt = datetime(*f) if naive else datetime(*f, tzinfo=tzf(off))
            x = CIMDateTime(dt)
        except Exception as e:  # pylint: disable=broad-except
            V('datetime-object-rejected', input='datetime%r offset %r (%s)' % (f, off, tzk), observed=type(e).__name__ + ': ' + str(e)[:100])
            return
        extreme = f[0] in (1, 9999)
        dt_roundtrip(x, 'ts', f, off, None, 'datetime%r offset %r (%s)' % (f, off, tzk), hashable=not extreme)
        # the same value through atomic_to_cim_xml (used for bare datetime objects in keybindings)
        try:
            s = atomic_to_cim_xml(dt)
            if s != ts_string(f, off):
                V('datetime-atomic-xml-differs', input=repr(dt), observed=s, expected=ts_string(f, off))
        except Exception as e:  # pylint: disable=broad-except
            V('datetime-atomic-xml-raises-' + type(e).__name__, input=repr(dt))

    step = 3 if QUICK else 1
    i = 0
    for (y, mo, d) in stamps:
        for t in times:
            i += 1
            f = (y, mo, d) + t
            if i % step == 0:
                for off in offs_small:
                    tzk, tzf = tzkinds[(i + off) % 2]
                    from_dt(f, off, tzk, tzf)
            else:
                off = offs_small[i % len(offs_small)]
                from_dt(f, off, *tzkinds[i % 2])
            if i % 7 == 0:
                from_dt(f, 0, 'naive', None, naive=True)
    # every UTC offset -999..999 with both tzinfo kinds, and through the string form with both signs
    for base in ((2024, 2, 29, 23, 59, 59, 999999), (1970, 1, 1, 0, 0, 0, 0), (1, 1, 1, 0, 0, 0, 0), (9999, 12, 31, 23, 59, 59, 999999)):
        for off in range(-999, 1000):
            for tzk, tzf in tzkinds:
                from_dt(base, off, tzk, tzf)
            dt_from_string(ts_string(base, off), 'ts', base, off, None, True, ('dt-str-off', base, off),
                           check_copy=False, hashable=base[0] not in (1, 9999))
        dt_from_string(ts_string(base, 0, minus_zero=True), 'ts', base, 0, None, True, ('dt-str-off', base, '-000'),
                       hashable=base[0] not in (1, 9999))

    # ---- C2: timestamp strings: calendar validity by an own calendar rule --------------------
    for y in (1, 1900, 2000, 2023, 2024, 9999, 0):
        for mo in range(0, 14):
            for d in range(0, 33):
                f = (y, mo, d, 12, 30, 15, 5)
                ok = 1 <= mo <= 12 and 1 <= d <= days_in_month(y, mo)
                # year 0 cannot be carried by Python's datetime: rejecting it is not held against the code
                dt_from_string(ts_string(f, 60), 'ts', f, 60, None, ok and y != 0, ('dt-cal', y, mo, d),
                               check_copy=False)
    for h in range(0, 26):
        f = (2024, 2, 29, h, 0, 0, 0)
        dt_from_string(ts_string(f, 0), 'ts', f, 0, None, h <= 23, ('dt-hour', h), check_copy=False)
    for m in range(0, 62):
        f = (2024, 2, 29, 0, m, 0, 0)
        dt_from_string(ts_string(f, 0), 'ts', f, 0, None, m <= 59, ('dt-min', m), check_copy=False)
        f = (2024, 2, 29, 0, 0, m, 0)
        dt_from_string(ts_string(f, 0), 'ts', f, 0, None, m <= 59, ('dt-sec', m), check_copy=False)
    for us in [0, 1, 9, 10, 99, 100, 999, 1000, 9999, 10000, 99999, 100000, 123456, 654321, 999999] + \
            [RND.randrange(1000000) for _ in range(1000 if QUICK else 50000)]:
        f = (2023, 7, 4, 1, 2, 3, us)
        dt_from_string(ts_string(f, -5), 'ts', f, -5, None, True, ('dt-us', us), check_copy=False)

    # ---- C3: intervals from timedelta ---------------------------------------------------------
    def from_td(days, secs, us, how):
        R.case(('iv-obj', days, secs, us, how))
        h, r = divmod(secs, 3600)
        m, s = divmod(r, 60)
        if how == 'fields':
            td = timedelta(days=days, hours=h, minutes=m, seconds=s, microseconds=us)
        elif how == 'seconds':
            td = timedelta(seconds=days * 86400 + secs, microseconds=us)
        else:
            td = timedelta(days=days, seconds=secs, microseconds=us)
        try:
            x = CIMDateTime(td)
        except Exception as e:  # pylint: disable=broad-except
            V('datetime-object-rejected', input=repr(td), observed=type(e).__name__)
            return
        dt_roundtrip(x, 'iv', (days, h, m, s, us), 0, None, repr(td))

    day_vals = [0, 1, 9, 10, 99, 100, 999, 1000, 9999, 10000, 99999, 100000, 999999, 1000000, 9999999, 10000000,
                12345678, 99999998, 99999999]
    sec_vals = [0, 1, 59, 60, 61, 599, 600, 3599, 3600, 3601, 35999, 36000, 43200, 86399 - 60, 86398, 86399]
    us_vals = [0, 1, 9, 10, 999, 1000, 99999, 100000, 500000, 999999]
    for days in day_vals:
        for secs in sec_vals:
            for k, us in enumerate(us_vals):
                from_td(days, secs, us, ('fields', 'seconds', 'normal')[(k + secs) % 3])
    for secs in range(0, 86400, 3 if QUICK else 1):     # every second of a day (quick: every third)
        from_td(secs % 3, secs, (secs * 7919) % 1000000 if secs % 2 else 0, 'normal')
    for _ in range(3000 if QUICK else 150000):
        from_td(RND.randrange(100000000), RND.randrange(86400), RND.randrange(1000000), 'normal')

    # ---- C4: interval strings incl. non-normalised fields ------------------------------------
    for days in (0, 1, 99999998, 99999999, 12345678):
        for h, m, s in itertools.product((0, 23, 24, 99), (0, 59, 60, 99), (0, 59, 60, 99)):
            f = (days, h, m, s, 999999)
            dt_from_string(iv_string(f), 'iv', f, 0, None, True, ('iv-str', f), check_copy=False)
    # things that look like intervals but are not
    for s_bad in ('00000001000000.000000:001', '0000001000000.000000:000', '00000001000000,000000:000',
                  '00000001000000.000000;000', '00000001000000.00000:000', '-0000001000000.000000:000',
                  '00000001000000.000000', '', 'abc', '2018091112461.3000000+000', '20180911124613.000000 000',
                  '20180911124613.000000+00', '20180911124613.000000+0a0', '20180911 24613.000000+000',
                  '20180911124613000000.+000', '20180911124613.000000', '+00020180911124613.000000'):
        dt_from_string(s_bad, '?', None, 0, None, False, ('dt-bad', s_bad))
    for v_bad in (None, 5, 5.0, [TS_OK], (TS_OK,), object()):
        R.case(('dt-badtype', repr(v_bad)[:20]))
        try:
            x = CIMDateTime(v_bad)
            V('datetime-accepts-non-datetime-type', input=short(v_bad), observed=repr(x))
        except (TypeError, ValueError):
            pass
        except Exception as e:  # pylint: disable=broad-except
            V('datetime-badtype-raises-' + type(e).__name__, input=short(v_bad))
    # ---- C5: asterisk patterns ----------------------------------------------------------------
    bases = {'ts': [((2024, 2, 29, 23, 59, 58, 123456), 60), ((1987, 12, 31, 1, 2, 3, 907050), -999)],
             'iv': [((12345678, 23, 59, 58, 123456), 0), ((99999999, 1, 2, 3, 907050), 0)]}
    for kind in ('ts', 'iv'):
        bounds = TS_BOUNDS if kind == 'ts' else IV_BOUNDS
        legal = legal_precisions(kind)
        for f, off in bases[kind]:
            plain = ts_string(f, off) if kind == 'ts' else iv_string(f)
            # (a) asterisks from every position p to the end of the microseconds field
            for p in range(0, 21):
                if p == 14:
                    continue
                s = mask_from(plain[:21], p) + plain[21:]
                ok = p in legal
                # an insignificant year cannot be carried by Python's datetime (year 0): may be refused
                dt_from_string(s, kind, f, off, p, ok, ('ast-suffix', kind, f, p), allow_reject=(kind == 'ts' and p == 0))
            # (b) one single asterisk at every one of the 25 positions
            for p in range(25):
                s = plain[:p] + '*' + plain[p + 1:]
                dt_from_string(s, kind, f, off, p, p == 20, ('ast-single', kind, f, p))
            # (c) legal suffix plus one more asterisk in the sign/utc part or on the dot
            for p in (14, 21, 22, 23, 24):
                s = mask_from(plain[:21], 12) + plain[21:]
                s = s[:p] + '*' + s[p + 1:]
                dt_from_string(s, kind, f, off, 12, False, ('ast-extra', kind, f, p))
            # (d) every mask over the units (whole fields + the six microsecond digits)
            units = [(b, e) for b, e in bounds[:-1]] + [(i, i + 1) for i in range(15, 21)]
            n = len(units)
            for mask in range(1 << n):
                chars = list(plain)
                first = None
                for u, (b, e) in enumerate(units):
                    if mask >> u & 1:
                        for c in range(b, e):
                            chars[c] = '*'
                        if first is None:
                            first = u
                s = ''.join(chars)
                suffix = mask != 0 and mask == ((1 << n) - 1) & ~((1 << first) - 1)
                prec = units[first][0] if mask else None
                dt_from_string(s, kind, f, off, prec, mask == 0 or suffix, ('ast-mask', kind, f, mask),
                               allow_reject=(kind == 'ts' and prec == 0), check_copy=(mask == 0 or suffix))
            # (e) partially asterisked whole fields with everything after them asterisked
            for (b, e) in bounds[:-1]:
                width = e - b
                for sub in range(1, (1 << width) - 1):
                    chars = list(mask_from(plain[:21], e) + plain[21:])
                    for c in range(width):
                        if sub >> c & 1:
                            chars[b + c] = '*'
                    dt_from_string(''.join(chars), kind, f, off, None, False, ('ast-partial', kind, f, b, sub))

    R.case(('dt-bytes',))
    try:
        xb = CIMDateTime(TS_AST.encode('ascii'))
        dt_roundtrip(xb, 'ts', masked_fields('ts', (2018, 9, 11, 12, 46, 13, 128000), 18), -300, 18, 'bytes ' + TS_AST)
    except Exception as e:  # pylint: disable=broad-except
        V('datetime-rejects-legal-string', input='bytes ' + TS_AST, kind='ts', observed=type(e).__name__)

    # ---- C6: pickle / deepcopy keep kind, value, offset and precision ------------------------
    import copy
    import pickle
    for s, kind, f, off, prec in ((TS_AST, 'ts', (2018, 9, 11, 12, 46, 13, 128000), -300, 18),
                                  (TS_OK, 'ts', (2024, 2, 29, 23, 59, 58, 123456), 60, None),
                                  (IV_OK, 'iv', (12, 23, 59, 58, 1), 0, None),
                                  ('00000012******.******:000', 'iv', (12, 0, 0, 0, 0), 0, 8)):
        x = CIMDateTime(s)
        for how, fn in (('pickle', lambda o: pickle.loads(pickle.dumps(o))), ('deepcopy', copy.deepcopy), ('copy', copy.copy)):
            R.case(('dt-pickle', s, how))
            try:
                p = dt_problems(fn(x), kind, masked_fields(kind, f, prec), off, prec)
                if p:
                    V('datetime-%s-differs' % how, input=s, observed=p)
            except Exception as e:  # pylint: disable=broad-except
                V('datetime-%s-raises-%s' % (how, type(e).__name__), input=s)


# --------------------------------------------------------------------------------------------
# D. real32 / real64 through CIM-XML
# --------------------------------------------------------------------------------------------

REAL_GRAMMAR = re.compile(r'^[+-]?[0-9]*\.[0-9]+([eE][+-]?[0-9]+)?$')     # DSP0201 real value


def f32_from_bits(b):
    return struct.unpack('<f', struct.pack('<I', b))[0]


def f32_bits(x):
    """Bits of the float32 nearest to the double x (inf if beyond the float32 range)."""
    try:
        return struct.unpack('<I', struct.pack('<f', x))[0]
    except OverflowError:
        return 0x7F800000 if x > 0 else 0xFF800000


def f64_from_bits(b):
    return struct.unpack('<d', struct.pack('<Q', b))[0]


def f64_bits(x):
    return struct.unpack('<Q', struct.pack('<d', x))[0]


def rounds_to(text, v, tname):
    """Exact check that the decimal text denotes a number whose nearest float32/float64 is v."""
    d = Fraction(Decimal(text))
    if tname == 'real32':
        b = f32_bits(v) & 0x7FFFFFFF
        mag_prev = Fraction(f32_from_bits(b - 1)) if b > 0 else None
        mag_next = Fraction(f32_from_bits(b + 1)) if b + 1 < 0x7F800000 else Fraction(2) ** 128
        even = (b & 1) == 0
    else:
        b = f64_bits(v) & 0x7FFFFFFFFFFFFFFF
        mag_prev = Fraction(f64_from_bits(b - 1)) if b > 0 else None
        mag_next = Fraction(f64_from_bits(b + 1)) if b + 1 < 0x7FF0000000000000 else Fraction(2) ** 1024
        even = (b & 1) == 0
    neg = math.copysign(1.0, v) < 0
    if (d < 0) != neg and d != 0:
        return False
    if d == 0 and v == 0:
        return text.lstrip().startswith('-') == neg
    m, a = abs(Fraction(v)), abs(d)
    hi = (m + mag_next) / 2
    lo = (m + mag_prev) / 2 if mag_prev is not None else Fraction(-1)
    return lo < a < hi or (even and a in (lo, hi))


def real_same(res, v, tname):
    r = float.__float__(res)
    if math.isnan(v):
        return math.isnan(r)
    if tname == 'real32':
        return f32_bits(r) == f32_bits(v)      # value space of real32: same float32
    return f64_bits(r) == f64_bits(v)


def real_direct(v, tname, carrier, exact=True):
    """print with atomic_to_cim_xml, check the text, parse with unpack_single_value."""
    R.case(('real', tname, carrier, f64_bits(v)))
    det = dict(type=tname, carrier=carrier, value=repr(v), hex=(v.hex() if not math.isnan(v) else 'nan'))
    obj = REAL_CLS[tname](v) if carrier == 'cim' else v
    try:
        text = atomic_to_cim_xml(obj)
    except Exception as e:  # pylint: disable=broad-except
        V('real-print-raises-' + type(e).__name__, **det)
        return
    if math.isnan(v) or math.isinf(v):
        want = 'NaN' if math.isnan(v) else ('INF' if v > 0 else '-INF')
        if text != want:
            V('real-special-value-spelling', observed=text, expected=want, **det)
            return
    else:
        if not isinstance(text, str) or not REAL_GRAMMAR.match(text):
            V('real-text-not-in-DSP0201-grammar', observed=text, **det)
            return
        if exact and not rounds_to(text, v, tname):
            V('real-text-denotes-different-value', observed=text, **det)
            return
    try:
        res = TP.unpack_single_value(text, tname)
    except Exception as e:  # pylint: disable=broad-except
        V('real-own-text-not-parsable', observed=text, error=type(e).__name__ + ': ' + str(e)[:100], **det)
        return
    if type(res) is not REAL_CLS[tname]:
        V('real-parsed-wrong-type', observed=short(res), text=text, **det)
    elif not real_same(res, v, tname):
        V('real-roundtrip-value-differs', observed=repr(float.__float__(res)), text=text, **det)


def real_parse_forms(v, tname):
    """Texts produced by an own formatter (not by pywbem) that all denote v: the parser must return v."""
    if math.isnan(v) or math.isinf(v):
        forms = ['NaN'] if math.isnan(v) else (['INF', '+INF'] if v > 0 else ['-INF'])
    else:
        r = repr(v)
        forms = [r, ' ' + r + '\n', format(v, '.20e'), format(v, '.25E')]
        if v >= 0 and not r.startswith('-'):
            forms.append('+' + r)
        if r.startswith('0.'):
            forms.append(r[1:])            # DSP0201 allows no digit before the dot
        if r.startswith('-0.') and v != 0:
            forms.append('-' + r[2:])
    for text in forms:
        R.case(('real-parse', tname, text))
        try:
            res = TP.unpack_single_value(text, tname)
        except Exception as e:  # pylint: disable=broad-except
            V('real-legal-text-rejected', type=tname, text=text, error=type(e).__name__ + ': ' + str(e)[:100])
            continue
        if type(res) is not REAL_CLS[tname] or not real_same(res, v, tname):
            V('real-parse-value-differs', type=tname, text=text, observed=short(res), expected=repr(v))


def parse_xml(xml):
    return TP.parse_any(xml_to_tupletree_sax(xml.encode('utf-8'), 'C06 bounded check'))


def xml_elements(value, tname):
    """(element label, object to serialise, extractor of the value from the parsed object)"""
    yield 'PROPERTY', (lambda: CIMProperty('P', value, tname)), (lambda o: o.value)
    yield 'PROPERTY.ARRAY', (lambda: CIMProperty('P', [value, value], tname)), (lambda o: o.value[1] if len(o.value) == 2 else o.value)
    yield 'QUALIFIER', (lambda: CIMQualifier('Q', value, tname)), (lambda o: o.value)
    yield 'QUALIFIER.DECLARATION', (lambda: CIMQualifierDeclaration('Q', tname, value=value)), (lambda o: o.value)
    yield 'QUALIFIER.DECLARATION[]', (lambda: CIMQualifierDeclaration('Q', tname, value=[value], is_array=True)), (lambda o: o.value[0])
    yield 'KEYVALUE', (lambda: CIMInstanceName('C', {'K': cimvalue(value, tname)})), (lambda o: o.keybindings['K'])
    yield 'INSTANCE/PROPERTY', (lambda: CIMInstance('C', properties=[CIMProperty('P', value, tname)])), (lambda o: o.properties['P'].value)


def xml_roundtrip(value, tname, same, label):
    """same(parsed_value) -> None | problem text"""
    for elem, build, extract in xml_elements(value, tname):
        R.case(('xml', tname, elem, label))
        det = dict(type=tname, element=elem, input=label)
        try:
            xml = build().tocimxmlstr()
        except Exception as e:  # pylint: disable=broad-except
            V('xml-write-raises-' + type(e).__name__, observed=str(e)[:120], **det)
            continue
        try:
            got = extract(parse_xml(xml))
        except Exception as e:  # pylint: disable=broad-except
            V('xml-own-output-not-parsable', xml=xml[:300], observed=type(e).__name__ + ': ' + str(e)[:120], **det)
            continue
        p = same(got)
        if p:
            V('xml-roundtrip-value-differs', xml=xml[:300], observed=p, **det)


def section_real():
    specials = [float('inf'), float('-inf'), float('nan'), 0.0, -0.0]
    # ---- real32 -------------------------------------------------------------------------------
    mants = [0, 1, 2, 0x3FFFFF, 0x400000, 0x400001, 0x555555, 0x2AAAAA, 0x7FFFFE, 0x7FFFFF]
    vals32 = []
    for e in range(0, 255):                    # every float32 exponent incl. subnormals
        extra = [RND.getrandbits(23) for _ in range(6 if QUICK else 60)]
        for m in mants + extra:
            for sgn in (0, 1):
                vals32.append(f32_from_bits(sgn << 31 | e << 23 | m))
    n = 120000 if QUICK else 3000000
    sample32 = [f32_from_bits(RND.getrandbits(32)) for _ in range(n)]
    dec32 = []
    for k in range(-45, 39):
        x = f32_from_bits(f32_bits(float('1e%d' % k)))
        b = f32_bits(x)
        dec32 += [x, f32_from_bits(b + 1), f32_from_bits(max(b - 1, 0))]
    dec32 += [f32_from_bits(f32_bits(x)) for x in (0.1, 0.2, 0.3, 1 / 3, 2 / 3, 16777216.0, 16777217.0, 99999.9999, 1e10, 123456789.0,
                                                  99999999999.0, 1e11, 1e-4, 1e-5, 9.9999e-5, 3.14159274, 65504.0)]
    for v in specials + vals32 + dec32:
        if math.isinf(v) and v not in specials[:2]:
            continue
        real_direct(v, 'real32', 'cim')
    for v in specials + vals32[::11] + dec32:
        real_parse_forms(v, 'real32')
    for k, v in enumerate(sample32):
        if math.isnan(v) or math.isinf(v):
            continue
        real_direct(v, 'real32', 'cim', exact=(k % 4 == 0))
    # ---- real64 -------------------------------------------------------------------------------
    mants64 = [0, 1, 1 << 51, (1 << 52) - 1, 0x5555555555555, 0xAAAAAAAAAAAAA]
    vals64 = []
    for e in range(0, 2047):                   # every float64 exponent incl. subnormals
        extra = [RND.getrandbits(52) for _ in range(2 if QUICK else 20)]
        for m in mants64 + extra:
            vals64.append(f64_from_bits((e & 1) << 63 | e << 52 | m))
            if m in (0, (1 << 52) - 1):
                vals64.append(f64_from_bits(((e + 1) & 1) << 63 | e << 52 | m))
    dec64 = []
    for k in range(-323, 309):
        x = float('1e%d' % k)
        dec64 += [x, math.nextafter(x, math.inf), math.nextafter(x, 0.0)]
    dec64 += [0.1, 0.2, 0.3, 1 / 3, 2 / 3, 1e15, 1e16, 1e17, 99999999999999984.0, 99999999999999990.0, 1.0000000000000002e16,
              123456789012345678.0, 2.0 ** 53, 2.0 ** 53 + 2, 2.0 ** 53 - 1, 1e-4, 1e-5, 9.9999999999999991e-05, 0.00010000000000000002,
              5e-324, 2.2250738585072014e-308, 2.225073858507201e-308, 1.7976931348623157e308, 9007199254740993.0, 1e22, 1e23,
              8.41e21, 2.9802322387695312e-08, 9.5367431640625e-07, 4.35, 0.285, 1.005, 1e21, 123456.789e3, 5e-5]
    dec64 += [-x for x in dec64[-20:]]
    n = 100000 if QUICK else 2000000
    sample64 = [f64_from_bits(RND.getrandbits(64)) for _ in range(n)]
    for v in specials + vals64 + dec64:
        real_direct(v, 'real64', 'cim')
    for v in specials + vals64[::17] + dec64[::3]:
        real_direct(v, 'real64', 'pyfloat')      # bare Python floats are printed like real64
        real_parse_forms(v, 'real64')
    for k, v in enumerate(sample64):
        if math.isnan(v) or math.isinf(v):
            continue
        real_direct(v, 'real64', 'cim', exact=(k % 4 == 0))
    # ---- complete XML elements ---------------------------------------------------------------
    xml32 = specials + dec32[::9] + vals32[::(211 if QUICK else 23)]
    xml64 = specials + dec64[::40] + vals64[::(701 if QUICK else 67)]
    for tname, vals in (('real32', xml32), ('real64', xml64)):
        for v in vals:
            if math.isinf(v) and v not in specials[:2]:
                continue
            for carrier in ('cim', 'pyfloat'):
                value = REAL_CLS[tname](v) if carrier == 'cim' else v

                def same(got, v=v, tname=tname):
                    if type(got) is not REAL_CLS[tname]:
                        return 'type %s' % type(got).__name__
                    return None if real_same(got, v, tname) else repr(float.__float__(got))
                xml_roundtrip(value, tname, same, '%s %r' % (carrier, v))


def section_xml_other():
    # integers: boundaries through complete elements, and text forms through the value unpacker
    for tname, (lo, hi) in LIMITS.items():
        cls = CLS[tname]
        for v in sorted(c for c in {lo, lo + 1, -1, 0, 1, hi - 1, hi} if lo <= c <= hi):
            def same(got, v=v, cls=cls):
                return None if type(got) is cls and int(got) == v else '%s %r' % (type(got).__name__, got)
            xml_roundtrip(cls(v), tname, same, '%s(%d)' % (cls.__name__, v))
            xml_roundtrip(v, tname, same, 'int %d' % v)
        for v in sorted({lo - 2, lo - 1, lo, lo + 1, -1, 0, 1, 9, 10, 15, 16, hi - 1, hi, hi + 1, hi + 2, hi * 16, lo * 16 - 1}):
            texts = [to_base(v, 10), ' ' + to_base(v, 10) + '\n',
                     ('-' if v < 0 else '') + '0x' + to_base(abs(v), 16), ('-' if v < 0 else '') + '0X' + to_base(abs(v), 16, True)]
            if v >= 0:
                texts += ['+' + to_base(v, 10), '+0x' + to_base(v, 16), '00' + to_base(v, 10)]
            for text in texts:
                R.case(('xml-int-text', tname, text))
                try:
                    res = TP.unpack_single_value(text, tname)
                except pywbem.ParseError:
                    if lo <= v <= hi:
                        V('xml-int-text-rejected-in-range', type=tname, text=text)
                    continue
                except Exception as e:  # pylint: disable=broad-except
                    V('xml-int-text-raises-' + type(e).__name__, type=tname, text=text)
                    continue
                if not lo <= v <= hi or type(res) is not cls or int(res) != v:
                    V('xml-int-text-wrong-or-out-of-range-value', type=tname, text=text, observed=short(res))
        for text in ('INF', '-INF'):
            R.case(('xml-int-text', tname, text))
            try:
                res = TP.unpack_single_value(text, tname)
                V('xml-int-text-wrong-or-out-of-range-value', type=tname, text=text, observed=short(res))
            except pywbem.ParseError:
                pass
            except OverflowError as e:
                V('known:xml-int-text-INF-raises-OverflowError', via='TupleParser.unpack_single_value',
                  type=tname, text=text, observed=str(e)[:100])
            except Exception as e:  # pylint: disable=broad-except
                V('xml-int-text-raises-' + type(e).__name__, type=tname, text=text)
        for text in ('abc', '', '0x', '12a', '1 2', '0b1', 'NaN'):
            R.case(('xml-int-text', tname, text))
            try:
                res = TP.unpack_single_value(text, tname)
                V('xml-int-text-wrong-or-out-of-range-value', type=tname, text=text, observed=short(res))
            except (pywbem.ParseError, ValueError):
                pass
            except Exception as e:  # pylint: disable=broad-except
                V('xml-int-text-raises-' + type(e).__name__, type=tname, text=text)
    # datetimes through complete elements
    cases = [('ts', (2024, 2, 29, 23, 59, 58, 123456), 60, None), ('ts', (1, 1, 1, 0, 0, 0, 0), 999, None),
             ('ts', (9999, 12, 31, 23, 59, 59, 999999), -999, None), ('iv', (99999999, 23, 59, 59, 999999), 0, None),
             ('iv', (0, 0, 0, 0, 0), 0, None)]
    for kind in ('ts', 'iv'):
        f, off = ((2018, 9, 11, 12, 46, 13, 128405), -300) if kind == 'ts' else ((12345678, 12, 46, 13, 128405), 0)
        for p in legal_precisions(kind):
            if kind == 'ts' and p == 0:
                continue
            cases.append((kind, f, off, p))
    for kind, f, off, prec in cases:
        s = ts_string(f, off, prec) if kind == 'ts' else iv_string(f, prec)
        mf = masked_fields(kind, f, prec)

        def same(got, kind=kind, mf=mf, off=off, prec=prec, s=s):
            p = dt_problems(got, kind, mf, off, prec)
            if p is None and str(got) != s:
                p = 'str %r' % str(got)
            return p
        xml_roundtrip(CIMDateTime(s), 'datetime', same, 'CIMDateTime(%r)' % s)
        xml_roundtrip(s, 'datetime', same, repr(s))
        if prec is None:
            obj = datetime(*f, tzinfo=MinutesFromUTC(off)) if kind == 'ts' else \
                timedelta(days=f[0], hours=f[1], minutes=f[2], seconds=f[3], microseconds=f[4])
            xml_roundtrip(obj, 'datetime', same, repr(obj))
    # arrays with NULL items must come back with the NULL in place
    samples = {'uint8': Uint8(255), 'sint64': Sint64(-2 ** 63), 'real32': Real32(0.5), 'real64': Real64(0.1),
               'datetime': CIMDateTime(TS_AST), 'boolean': True, 'char16': 'a', 'string': 'a'}
    for tname, val in samples.items():
        for elem, build in (('PROPERTY.ARRAY', lambda: CIMProperty('P', [val, None, val], tname)),
                            ('QUALIFIER', lambda: CIMQualifier('Q', [None, val], tname)),
                            ('QUALIFIER.DECLARATION', lambda: CIMQualifierDeclaration('Q', tname, value=[val, None], is_array=True))):
            R.case(('xml-null-item', tname, elem))
            det = dict(type=tname, element=elem, input=short(build().value))
            try:
                xml = build().tocimxmlstr()
                det['xml'] = xml[:300]
                got = parse_xml(xml).value
            except AssertionError:
                if tname != 'string':
                    V('known:xml-array-null-item-of-nonstring-type-AssertionError', **det)
                else:
                    V('xml-null-item-raises-AssertionError', **det)
                continue
            except Exception as e:  # pylint: disable=broad-except
                V('xml-null-item-raises-' + type(e).__name__, observed=str(e)[:100], **det)
                continue
            want = build().value
            if not isinstance(got, list) or len(got) != len(want) or any((a is None) != (b is None) for a, b in zip(got, want)) \
                    or any(a is not None and not (a == b and type(a) is type(b) or isinstance(b, str)) for a, b in zip(got, want)):
                V('xml-null-item-not-preserved', observed=short(got), **det)


def main():
    sections = (('typed', section_typed), ('datetime', section_datetime), ('real', section_real),
                ('xml', section_xml_other), ('int', section_int))
    for name, fn in sections:
        try:
            fn()
        except Exception as e:  # pylint: disable=broad-except
            import traceback
            V('harness-error-in-section-' + name, observed=type(e).__name__ + ': ' + str(e)[:200],
              where=traceback.format_exc().strip().splitlines()[-3:])
    flush()
    R.finish()


main()
