"""Bounded stand-in for C10: the mock server's instance store is a faithful keyed map with CIM status codes.

Histories of instance operations are run through the public operation methods of FakedWBEMConnection over
generated schemas and compared, call by call, with an independent reference model: a dict from
(namespace, creation class, keybindings) - names lower-cased, keys as a frozenset - to typed property values,
with the status codes that DSP0200 / the pywbem_mock documentation name for each situation.  Where several
error situations hold at once, any of their codes is accepted.  After every call the objects passed in and
handed out are mutated in place (the model keeps immutable values), so an aliasing leak shows up as a later
divergence; a failing history is re-run without / with single mutation sites to name the kind of failure.
"""
import random
import sys
import warnings

from bounded.common import Run
from pywbem import (CIMClass, CIMProperty, CIMQualifier, CIMQualifierDeclaration, CIMInstance,
                    CIMInstanceName, CIMError, CIMDateTime, Uint8, Uint16, Uint32, Uint64, Sint8, Sint16,
                    Sint32, Sint64, Real32, Real64)
from pywbem_mock import FakedWBEMConnection

warnings.simplefilter('ignore')

R = Run('instance-operation histories of length <= 6 (state prefix of <= 5 creates x every op of a 150-230 op '
        'alphabet; all pairs of core write ops; seeded random histories) over generated schemas (1..3 namespaces, '
        'class tree depth 1..3, 3 key layouts, all CIM types incl. arrays/embedded instance/reference, association '
        'within and across namespaces) vs a reference dict model; valid/invalid/differently-cased/partial '
        'arguments; in-place mutation of every passed or returned object after every call; PropertyList sweep for '
        'ModifyInstance/GetInstance/EnumerateInstances: 20+ list shapes (None, empty, subset, superset, duplicates in '
        'same/different case, key names, undeclared names, names absent from the ModifiedInstance, str, tuple, '
        'ill-typed entries) x lexical case of the list entries x lexical case of the ModifiedInstance names '
        '(declared/lower/upper/swapped/mixed; quick: 6 of the 25 pairs) over root/sub/leaf/association classes')

# CIM status codes (DSP0200), written out here on purpose
INVALID_NAMESPACE, INVALID_PARAMETER, INVALID_CLASS, NOT_FOUND, ALREADY_EXISTS = 3, 4, 5, 6, 11
CODE_NAMES = {1: 'FAILED', 3: 'INVALID_NAMESPACE', 4: 'INVALID_PARAMETER', 5: 'INVALID_CLASS', 6: 'NOT_FOUND',
              7: 'NOT_SUPPORTED', 11: 'ALREADY_EXISTS'}

INT = {'uint8': Uint8, 'uint16': Uint16, 'uint32': Uint32, 'uint64': Uint64,
       'sint8': Sint8, 'sint16': Sint16, 'sint32': Sint32, 'sint64': Sint64}
REAL = {'real32': Real32, 'real64': Real64}
DT1 = '20200229235959.123456+060'
DT2 = '00000012131415.000000:000'     # interval


def codename(c):
    return CODE_NAMES.get(c, str(c))


# ------------------------------------------------------------------------------------------ schema
class PD:
    """Property declaration."""
    __slots__ = ('name', 'type', 'arr', 'key', 'default', 'ref', 'emb')

    def __init__(self, name, type, arr=False, key=False, default=None, ref=None, emb=None):
        self.name, self.type, self.arr, self.key, self.default, self.ref, self.emb = \
            name, type, arr, key, default, ref, emb


class CD:
    """Class declaration."""
    __slots__ = ('name', 'sup', 'assoc', 'props')

    def __init__(self, name, sup, props, assoc=False):
        self.name, self.sup, self.assoc, self.props = name, sup, assoc, props


def nsnorm(ns):
    return ns.strip('/').lower()


class Schema:
    def __init__(self, nns, depth, kv, assoc):
        self.sid = (nns, depth, kv, int(assoc))
        self.nns, self.depth, self.kv, self.assoc = nns, depth, kv, assoc
        self.nss = ['ns1', 'Ns2/Sub', 'NS3'][:nns]
        rootkeys = {0: [PD('K', 'string', key=True)],
                    1: [PD('K', 'string', key=True), PD('K2', 'uint8', key=True)],
                    2: [PD('KB', 'boolean', key=True), PD('KI', 'sint64', key=True),
                        PD('KD', 'datetime', key=True)]}[kv]
        cl = [CD('T_Root', None, rootkeys + [PD('P_u8', 'uint8'), PD('P_s', 'string', default='dflt'),
                                             PD('P_sa', 'string', arr=True), PD('P_u64', 'uint64', default=7)]),
              CD('T_Other', None, [PD('ID', 'uint32', key=True), PD('O_u16', 'uint16'), PD('O_i32', 'sint32'),
                                   PD('O_u32a', 'uint32', arr=True), PD('O_i64a', 'sint64', arr=True),
                                   PD('O_c16a', 'char16', arr=True)])]
        if depth >= 2:
            cl.append(CD('T_Mid', 'T_Root', [PD('P_b', 'boolean'), PD('P_i64', 'sint64'), PD('P_r64', 'real64'),
                                             PD('P_dt', 'datetime'), PD('P_u16a', 'uint16', arr=True),
                                             PD('P_c16', 'char16')]))
        if depth >= 3:
            cl.append(CD('T_Leaf', 'T_Mid', [PD('P_r32', 'real32'), PD('P_i8', 'sint8'),
                                             PD('P_ba', 'boolean', arr=True), PD('P_dta', 'datetime', arr=True),
                                             PD('P_ra', 'real32', arr=True), PD('P_i16', 'sint16', default=-3),
                                             PD('P_emb', 'string', emb='T_Other')]))
        if assoc:
            cl.append(CD('T_Assoc', None, [PD('L', 'reference', key=True, ref='T_Root'),
                                           PD('R', 'reference', key=True, ref='T_Root'),
                                           PD('X', 'reference', ref='T_Root'), PD('N', 'string')], assoc=True))
        self.classes = cl
        missing = [set(), {'t_other', 't_leaf'}, {'t_other', 't_leaf', 't_assoc'}]
        self.present = {}
        for i, ns in enumerate(self.nss):
            self.present[nsnorm(ns)] = {c.name.lower(): c for c in cl if c.name.lower() not in missing[i]}
        self._cim = None

    # --- lookups used by the reference model
    def nskey(self, ns):
        if ns is None:
            ns = self.nss[0]
        k = nsnorm(ns)
        return k if k in self.present else None

    def cls(self, nsk, name):
        return self.present[nsk].get(name.lower())

    def decl(self, nsk, name):
        """All exposed properties (inherited first), lower-cased name -> PD."""
        chain = []
        c = self.cls(nsk, name)
        while c is not None:
            chain.append(c)
            c = self.cls(nsk, c.sup) if c.sup else None
        out = {}
        for c in reversed(chain):
            for p in c.props:
                out[p.name.lower()] = p
        return out

    def is_sub(self, nsk, name, ancestor):
        c = self.cls(nsk, name)
        while c is not None:
            if c.name.lower() == ancestor.lower():
                return True
            c = self.cls(nsk, c.sup) if c.sup else None
        return False

    def roots(self, nsk):
        return [c for c in self.present[nsk].values() if c.sup is None]

    # --- the real thing
    def cim_objects(self):
        if self._cim is None:
            qds = [CIMQualifierDeclaration('Key', 'boolean', value=False, scopes={'PROPERTY': True, 'REFERENCE': True},
                                           overridable=False, tosubclass=True),
                   CIMQualifierDeclaration('Association', 'boolean', value=False, scopes={'ASSOCIATION': True},
                                           overridable=False, tosubclass=True),
                   CIMQualifierDeclaration('EmbeddedInstance', 'string',
                                           scopes={'PROPERTY': True, 'METHOD': True, 'PARAMETER': True},
                                           overridable=True, tosubclass=True)]
            cls = {}
            for c in self.classes:
                props = []
                for p in c.props:
                    q = {}
                    if p.key:
                        q['Key'] = CIMQualifier('Key', True)
                    if p.emb:
                        q['EmbeddedInstance'] = CIMQualifier('EmbeddedInstance', p.emb)
                    props.append(CIMProperty(p.name, cimval(p.type, p.arr, p.default), type=p.type, is_array=p.arr,
                                             reference_class=p.ref, embedded_object='instance' if p.emb else None,
                                             qualifiers=q))
                cq = {'Association': CIMQualifier('Association', True)} if c.assoc else {}
                cls[c.name.lower()] = CIMClass(c.name, superclass=c.sup, properties=props, qualifiers=cq)
            self._cim = (qds, cls)
        return self._cim

    def build(self):
        qds, cls = self.cim_objects()
        conn = FakedWBEMConnection(default_namespace=self.nss[0])
        for ns in self.nss[1:]:
            conn.add_namespace(ns)
        for ns in self.nss:
            pres = self.present[nsnorm(ns)]
            conn.add_cimobjects(qds + [cls[c.name.lower()] for c in self.classes if c.name.lower() in pres],
                                namespace=ns)
        return conn


# --------------------------------------------------------------------- value specs -> pywbem objects
# value spec: None | python scalar | list (arrays) | ('ref', ns, cls, ((kname, ktype, kspec), ...))
#             | ('emb', cls, ((pname, ptype, parr, pspec), ...));  datetime values are strings
def is_ref(v):
    return isinstance(v, tuple) and v and v[0] == 'ref'


def is_emb(v):
    return isinstance(v, tuple) and v and v[0] == 'emb'


def cimval1(t, v):
    if v is None:
        return None
    if is_ref(v):
        return mkpath(v[1], v[2], v[3])
    if is_emb(v):
        return CIMInstance(v[1], properties=[mkprop(p) for p in v[2]])
    if t in INT and isinstance(v, int) and not isinstance(v, bool):
        return INT[t](v)
    if t in REAL and isinstance(v, float):
        return REAL[t](v)
    if t == 'datetime' and isinstance(v, str):
        return CIMDateTime(v)
    return v        # string, char16, boolean - and deliberately ill-typed values


def cimval(t, arr, v):
    if v is None:
        return None
    if arr and isinstance(v, list):
        return [cimval1(t, e) for e in v]
    return cimval1(t, v)


def mkprop(p):
    name, t, arr, v = p
    emb = is_emb(v) or (isinstance(v, list) and any(is_emb(e) for e in v))
    return CIMProperty(name, cimval(t, arr, v), type=t, is_array=arr, embedded_object='instance' if emb else None)


def mkpath(ns, cname, keys):
    kb = [(k, cimval1(t, v)) for k, t, v in keys]
    return CIMInstanceName(cname, keybindings=kb, namespace=ns)


def mkinst(cname, props, path=None):
    inst = CIMInstance(cname, properties=[mkprop(p) for p in props])
    inst.path = path        # set afterwards: the constructor would overwrite keybindings from the properties
    return inst


# ------------------------------------------------------- normal forms (model side / observed side)
def mnorm1(t, v):
    if v is None:
        return None
    if is_ref(v):
        return ('ref', nsnorm(v[1]) if v[1] is not None else None, v[2].lower(),
                frozenset((k.lower(), mnorm1(kt, kv)) for k, kt, kv in v[3]))
    if is_emb(v):
        return ('emb', v[1].lower(), frozenset((n.lower(), pt, pa, mnorm(pt, pa, pv)) for n, pt, pa, pv in v[2]))
    if isinstance(v, bool):
        return ('b', v)
    if isinstance(v, int):
        return ('i', v)
    if isinstance(v, float):
        return ('r', v)
    if t == 'datetime':
        return ('d', v)
    return ('s', v)


def mnorm(t, arr, v):
    if v is None:
        return None
    if isinstance(v, list):
        return tuple(mnorm1(t, e) for e in v)
    return mnorm1(t, v)


def mkeys(keys):
    return frozenset((k.lower(), mnorm1(t, v)) for k, t, v in keys)


def onorm(v):
    if v is None:
        return None
    if isinstance(v, (list, tuple)):
        return tuple(onorm(e) for e in v)
    if isinstance(v, bool):
        return ('b', v)
    if isinstance(v, CIMInstanceName):
        return ('ref', nsnorm(v.namespace) if v.namespace is not None else None, v.classname.lower(),
                frozenset((k.lower(), onorm(x)) for k, x in v.keybindings.items()))
    if isinstance(v, CIMInstance):
        return ('emb', v.classname.lower(),
                frozenset((n.lower(), p.type, bool(p.is_array), onorm(p.value)) for n, p in v.properties.items()))
    if isinstance(v, CIMDateTime):
        return ('d', str(v))
    if isinstance(v, int):
        return ('i', int(v))
    if isinstance(v, float):
        return ('r', float(v))
    if isinstance(v, str):
        return ('s', str(v))
    return ('?', repr(v))


def opath(p):
    if not isinstance(p, CIMInstanceName):
        return ('notapath', repr(p)[:60])
    return (nsnorm(p.namespace) if p.namespace is not None else None, p.classname.lower(),
            frozenset((k.lower(), onorm(x)) for k, x in p.keybindings.items()))


def oprops(inst):
    return {n.lower(): (p.type, bool(p.is_array), onorm(p.value)) for n, p in inst.properties.items()}


# ------------------------------------------------------------------------------- reference model
class Exp:
    """Acceptable outcomes of one call."""
    __slots__ = ('errs', 'opt', 'pyexc', 'apply', 'check', 'hints', 'show')

    def __init__(self):
        self.errs = set()     # CIM status codes of the error situations that hold (any one is acceptable)
        self.opt = set()      # codes a server may additionally raise (errors in ignorable parts of the input)
        self.pyexc = ()       # python exception types demanded (argument errors on the client side)
        self.apply = None
        self.check = None
        self.hints = set()
        self.show = None

    @property
    def ok(self):
        return not self.errs and not self.pyexc

    def describe(self):
        if self.pyexc:
            return 'raises ' + '/'.join(t.__name__ for t in self.pyexc)
        if self.errs:
            return 'CIMError ' + '/'.join(sorted(codename(c) for c in self.errs | self.opt))
        return 'success' + (' or CIMError ' + '/'.join(sorted(codename(c) for c in self.opt)) if self.opt else '')


class TupPL(tuple):
    """A PropertyList spec that is handed to the operation as a tuple (plain tuples are handed over as lists)."""


def plnames(pl):
    if pl is None:
        return None
    return [pl] if isinstance(pl, str) else list(pl)


STYLES = ('decl', 'lower', 'upper', 'swap', 'mix')


def restyle(name, style, i=0):
    """The name in another lexical case; 'mix' takes a different case for every position."""
    if style == 'mix':
        style = ('lower', 'upper', 'swap', 'decl')[i % 4]
    return {'decl': name, 'lower': name.lower(), 'upper': name.upper(), 'swap': name.swapcase()}[style]


def styled_pl(pl, style):
    """PropertyList spec with every entry in the given case; ('alt', name) entries get a different case than the
    entries around them, so that duplicates differ lexically whatever the style is."""
    if pl is None:
        return None
    if isinstance(pl, str):
        return restyle(pl, style)
    alt = STYLES[(STYLES.index(style) + 2) % len(STYLES)]
    out = tuple(restyle(n[1], alt, i + 1) if isinstance(n, tuple) else restyle(n, style, i) for i, n in enumerate(pl))
    return TupPL(out) if isinstance(pl, TupPL) else out


def styled_props(props, style):
    return tuple((restyle(n, style, i), t, a, v) for i, (n, t, a, v) in enumerate(props))


def filt(props, pl, restrict=None):
    names = plnames(pl)
    keep = None if names is None else {n.lower() for n in names}
    return {n: v for n, v in props.items()
            if (keep is None or n in keep) and (restrict is None or n in restrict)}


class Model:
    def __init__(self, schema):
        self.s = schema
        self.view = {}      # (nskey, class lower, frozenset keys) -> record dict
        self.flags = set()

    # record: {'cls': lower creation class, 'props': {lower: (type, arr, norm)}, 'spec': (ns, cls, keys) for
    #          building a path again, 'rawns': raw namespace strings used in reference values}
    def peers(self, nsk, props):
        out = [nsk]
        for t, _a, nv in props.values():
            if t == 'reference' and nv is not None and nv[1] is not None and nv[1] not in out:
                out.append(nv[1])
        return out

    def propcheck(self, nsk, decl, p):
        """True if the property (name, type, arr, value spec) fits its declaration."""
        pn, pt, pa, pv = p
        d = decl.get(pn.lower())
        if d is None or d.type != pt or d.arr != pa:
            return False
        vals = pv if isinstance(pv, list) else [pv]
        for v in vals:
            if is_emb(v):
                if d.emb is None or self.s.cls(nsk, v[1]) is None or not self.s.is_sub(nsk, v[1], d.emb):
                    return False
        return True

    def endpoint_exists(self, nv):
        return nv[1] in self.s.present and (nv[1], nv[2], nv[3]) in self.view

    def raw_ns(self, ns):
        return (self.s.nss[0] if ns is None else ns).strip('/')

    # ---- CreateInstance
    def exp_create(self, op):
        _, ns, cname, props = op
        E = Exp()
        nsk = self.s.nskey(ns)
        if nsk is None:
            E.errs.add(INVALID_NAMESPACE)
            return E
        cd = self.s.cls(nsk, cname)
        if cd is None:
            E.errs.add(INVALID_CLASS)
            return E
        decl = self.s.decl(nsk, cname)
        given = {}
        rawns = set()
        for p in props:
            if not self.propcheck(nsk, decl, p):
                E.errs.add(INVALID_PARAMETER)
                continue
            given[p[0].lower()] = (p[1], p[2], mnorm(p[1], p[2], p[3]))
            if is_ref(p[3]) and p[3][1] is not None:
                rawns.add(p[3][1].strip('/'))
        keyparts = []
        for d in decl.values():
            if d.key:
                g = given.get(d.name.lower())
                if g is None or g[2] is None:      # key missing or NULL
                    E.errs.add(INVALID_PARAMETER)
                    keyparts = None
                    break
                keyparts.append((d.name.lower(), g[2]))
        targets = [nsk]
        if cd.assoc:
            for t, _a, nv in given.values():
                if t != 'reference':
                    continue
                if nv is None:
                    E.hints.add('assoc-null-ref')
                    continue
                if not self.endpoint_exists(nv):
                    E.errs.add(INVALID_PARAMETER)
                elif nv[1] not in targets:
                    targets.append(nv[1])
            if any(r != self.raw_ns(ns) and r.lower() == self.raw_ns(ns).lower() for r in rawns):
                E.hints.add('assoc-ns-case')
            for t in targets[1:]:
                if self.s.cls(t, cname) is None:
                    E.errs.add(INVALID_CLASS)
        if keyparts is not None:
            fk = frozenset(keyparts)
            cl = cd.name.lower()
            for t in targets:
                if (t, cl, fk) in self.view:
                    E.errs.add(ALREADY_EXISTS)

            def apply():
                for t in targets:
                    tns = [n for n in self.s.nss if nsnorm(n) == t][0]
                    spec = (tns, cd.name, tuple((d.name, d.type, dict((p[0].lower(), p[3]) for p in props)[d.name.lower()])
                                                for d in decl.values() if d.key))
                    self.view[(t, cl, fk)] = {'cls': cl, 'props': dict(given), 'spec': spec, 'rawns': set(rawns)}

            def check(res):
                return None if opath(res) == (nsk, cl, fk) else 'result-path-differs'
            E.apply, E.check = apply, check
            E.show = lambda: repr((nsk, cl, sorted(fk, key=repr)))
        return E

    # ---- ModifyInstance
    def exp_modify(self, op):
        _, ns, icls, (pcls, keys), props, pl = op
        E = Exp()
        if icls.lower() != pcls.lower():
            E.errs.add(INVALID_PARAMETER)
        nsk = self.s.nskey(ns)
        if nsk is None:
            E.errs.add(INVALID_NAMESPACE)
            return E
        cd = self.s.cls(nsk, pcls)
        if cd is None or self.s.cls(nsk, icls) is None:
            E.errs.add(INVALID_CLASS)
            if cd is None:
                return E
        key = (nsk, pcls.lower(), mkeys(keys))
        rec = self.view.get(key)
        if rec is None:
            E.errs.add(NOT_FOUND)
        decl = self.s.decl(nsk, pcls)
        names = plnames(pl)
        plset = None if names is None else {n.lower() for n in names}
        if names is not None:
            for n in names:
                if n.lower() not in decl:
                    E.errs.add(INVALID_PARAMETER)
        new = {}
        rawns = set()
        for p in props:
            pn = p[0].lower()
            inpl = plset is None or pn in plset
            bucket = E.errs if inpl else E.opt
            if not self.propcheck(nsk, decl, p):
                bucket.add(INVALID_PARAMETER)
                continue
            nv = mnorm(p[1], p[2], p[3])
            old = rec['props'].get(pn, (None, None, None))[2] if rec is not None else None
            if decl[pn].key and rec is not None and old != nv:
                bucket.add(INVALID_PARAMETER)          # key properties cannot be changed
                continue
            if cd.assoc and p[1] == 'reference' and inpl:
                if nv is None:
                    E.errs.add(INVALID_PARAMETER)      # documented: a reference cannot be set to NULL
                    continue
                if rec is not None and pn not in rec['props']:
                    E.hints.add('assoc-ref-not-yet-set')
                if rec is not None and old != nv and not self.endpoint_exists(nv):
                    E.errs.add(INVALID_PARAMETER)
                    continue
                if is_ref(p[3]) and p[3][1] is not None:
                    rawns.add(p[3][1].strip('/'))
            if inpl:
                new[pn] = (p[1], p[2], nv)
        if plset is not None:
            givennames = {p[0].lower() for p in props}
            for n in plset:
                if n in decl and n not in givennames:
                    d = decl[n]
                    if d.key:
                        # designated but no value given: a key cannot be set to NULL - rejecting the request and
                        # leaving the key alone are both acceptable
                        E.opt.add(INVALID_PARAMETER)
                        E.hints.add('pl-absent-null-default')
                        continue
                    new[n] = (d.type, d.arr, mnorm(d.type, d.arr, d.default))     # class default value or NULL
                    if d.default is None:
                        E.hints.add('pl-absent-null-default')
        if rec is not None:
            def apply():
                merged = dict(rec['props'])
                merged.update(new)
                peers = self.peers(nsk, merged)
                for t in peers:
                    r = self.view.get((t, key[1], key[2]))
                    if r is not None:
                        r['props'] = dict(merged)
                        r['rawns'] |= rawns
                if len(peers) > 1:
                    self.flags.add('multins-assoc-modified')
            E.apply = apply
        return E

    # ---- DeleteInstance
    def exp_delete(self, op):
        _, ns, (pcls, keys) = op
        E = Exp()
        nsk = self.s.nskey(ns)
        if nsk is None:
            E.errs.add(INVALID_NAMESPACE)
            return E
        cd = self.s.cls(nsk, pcls)
        if cd is None:
            E.errs.add(INVALID_CLASS)
            return E
        key = (nsk, pcls.lower(), mkeys(keys))
        rec = self.view.get(key)
        if rec is None:
            E.errs.add(NOT_FOUND)
            return E
        if cd.assoc and any(r != self.raw_ns(ns) and r.lower() == self.raw_ns(ns).lower() for r in rec['rawns']):
            E.hints.add('assoc-ns-case')

        def apply():
            for t in self.peers(nsk, rec['props']):
                self.view.pop((t, key[1], key[2]), None)
        E.apply = apply
        return E

    # ---- GetInstance
    def exp_get(self, op):
        _, ns, (pcls, keys), pl, _flags = op
        E = Exp()
        nsk = self.s.nskey(ns)
        if nsk is None:
            E.errs.add(INVALID_NAMESPACE)
            return E
        if self.s.cls(nsk, pcls) is None:
            E.errs.add(INVALID_CLASS)
            return E
        key = (nsk, pcls.lower(), mkeys(keys))
        rec = self.view.get(key)
        if rec is None:
            E.errs.add(NOT_FOUND)
            return E
        want = filt(rec['props'], pl)

        def check(res):
            if not isinstance(res, CIMInstance):
                return 'result-not-an-instance'
            if opath(res.path) != key:
                return 'result-path-differs'
            if res.classname.lower() != rec['cls']:
                return 'result-classname-differs'
            if oprops(res) != want:
                return 'result-props-differ'
            return None
        E.check = check
        E.show = lambda: repr(sorted(want.items()))
        return E

    def members(self, nsk, cname):
        return {k: r for k, r in self.view.items() if k[0] == nsk and self.s.is_sub(nsk, r['cls'], cname)}

    # ---- EnumerateInstances
    def exp_enum(self, op):
        _, ns, cname, di, pl, _flags = op
        E = Exp()
        nsk = self.s.nskey(ns)
        if nsk is None:
            E.errs.add(INVALID_NAMESPACE)
            return E
        if self.s.cls(nsk, cname) is None:
            E.errs.add(INVALID_CLASS)
            return E
        restrict = set(self.s.decl(nsk, cname)) if di is False else None
        want = {k: (r['cls'], filt(r['props'], pl, restrict)) for k, r in self.members(nsk, cname).items()}

        def check(res):
            if not isinstance(res, list):
                return 'result-not-a-list'
            got = {}
            for i in res:
                if not isinstance(i, CIMInstance):
                    return 'result-not-an-instance'
                k = opath(i.path)
                if k in got:
                    return 'result-duplicate-instance'
                got[k] = (i.classname.lower(), oprops(i))
            if set(want) - set(got):
                return 'result-instance-missing'
            if set(got) - set(want):
                return 'result-instance-extra'
            for k in want:
                if got[k][0] != want[k][0]:
                    return 'result-classname-differs'
                if got[k][1] != want[k][1]:
                    return 'result-props-differ'
            return None
        E.check = check
        E.show = lambda: repr(sorted(((k[1], sorted(k[2], key=repr)), sorted(v[1].items())) for k, v in want.items()))
        return E

    # ---- EnumerateInstanceNames
    def exp_names(self, op):
        _, ns, cname = op
        E = Exp()
        nsk = self.s.nskey(ns)
        if nsk is None:
            E.errs.add(INVALID_NAMESPACE)
            return E
        if self.s.cls(nsk, cname) is None:
            E.errs.add(INVALID_CLASS)
            return E
        want = set(self.members(nsk, cname))

        def check(res):
            if not isinstance(res, list):
                return 'result-not-a-list'
            got = [opath(p) for p in res]
            if len(set(got)) != len(got):
                return 'result-duplicate-path'
            if want - set(got):
                return 'result-path-missing'
            if set(got) - want:
                return 'result-path-extra'
            return None
        E.check = check
        E.show = lambda: repr(sorted((k[1], sorted(k[2], key=repr)) for k in want))
        return E

    def exp_bad(self, op):
        E = Exp()
        E.pyexc = (Exception,)      # any client-side argument error; what matters is that nothing changes
        return E

    def exp_badpl(self, op):
        """PropertyList with entries that are not strings: must fail (client-side exception, INVALID_PARAMETER, or
        the status code of an error situation that holds anyway) and must not change anything."""
        E = Exp()
        E.pyexc = (Exception,)
        E.opt = {INVALID_PARAMETER, NOT_FOUND, INVALID_CLASS, INVALID_NAMESPACE}
        return E

    def expect(self, op):
        return getattr(self, 'exp_' + op[0])(op)


# ------------------------------------------------------------------------ client-side mutation
def mutate(o):
    """Change a passed / returned object in place, innermost objects first."""
    if isinstance(o, list):
        for e in o:
            mutate(e)
        if o and isinstance(o[0], str):
            o.append('P_s')
            o.reverse()
        else:
            del o[:]
    elif isinstance(o, CIMInstanceName):
        for k in list(o.keybindings):
            v = o.keybindings[k]
            if isinstance(v, CIMInstanceName):
                mutate(v)
            else:
                o.keybindings[k] = 'mutated'
        o.keybindings['MutKey'] = 'x'
        o.classname = 'Mut_' + o.classname
        o.namespace = 'mut/ns'
        o.host = 'mut.host'
    elif isinstance(o, CIMInstance):
        for p in list(o.properties.values()):
            v = p.value
            if isinstance(v, list):
                for e in v:
                    if isinstance(e, (CIMInstance, CIMInstanceName)):
                        mutate(e)
                if v and not isinstance(v[0], (CIMInstance, CIMInstanceName)):
                    v[0] = v[-1]
                    v.append(v[0])
                    v.reverse()
                elif not v:
                    v.append('m')
            elif isinstance(v, (CIMInstance, CIMInstanceName)):
                mutate(v)
            elif isinstance(v, bool):
                p.value = not v
            elif isinstance(v, str):
                p.value = v + '~mut'
            elif isinstance(v, (int, float)) and not isinstance(v, bool):
                p.value = type(v)(1 if v != 1 else 2)
            elif isinstance(v, CIMDateTime):
                p.value = CIMDateTime('19991231235959.000000+000')
            elif v is None and p.type == 'string' and not p.is_array:
                p.value = 'was-null'
        if o.path is not None:
            mutate(o.path)
        names = list(o.properties)
        if names:
            del o.properties[names[-1]]
        o.properties['MutAdded'] = CIMProperty('MutAdded', 'x', type='string')
        o.classname = 'Mut_' + o.classname


# --------------------------------------------------------------------------------- running
SITES = ('create.arg', 'create.ret', 'modify.arg', 'modify.pl', 'delete.arg', 'get.arg', 'get.ret', 'get.pl',
         'enum.ret', 'enum.pl', 'names.ret')
PRIMARY = frozenset(s for s in SITES if s != 'create.ret')
EVERY = frozenset(SITES)
NONE = frozenset()


def pyl(pl):
    if isinstance(pl, TupPL):
        return tuple(pl)
    return list(pl) if isinstance(pl, tuple) else pl


def call(conn, op):
    """Perform one op; returns (outcome, objects passed in by site, result)."""
    kind = op[0]
    passed = {}
    try:
        if kind == 'create':
            inst = mkinst(op[2], op[3])
            passed['create.arg'] = inst
            res = conn.CreateInstance(inst, namespace=op[1])
        elif kind == 'modify':
            _, ns, icls, (pcls, keys), props, pl = op
            inst = mkinst(icls, props, path=mkpath(ns, pcls, keys))
            p = pyl(pl)
            passed['modify.arg'], passed['modify.pl'] = inst, p
            res = conn.ModifyInstance(inst, PropertyList=p) if pl is not None else conn.ModifyInstance(inst)
        elif kind == 'delete':
            path = mkpath(op[1], op[2][0], op[2][1])
            passed['delete.arg'] = path
            res = conn.DeleteInstance(path)
        elif kind == 'get':
            path = mkpath(op[1], op[2][0], op[2][1])
            p = pyl(op[3])
            passed['get.arg'], passed['get.pl'] = path, p
            res = conn.GetInstance(path, PropertyList=p, **dict(op[4]))
        elif kind == 'enum':
            p = pyl(op[4])
            passed['enum.pl'] = p
            res = conn.EnumerateInstances(op[2], namespace=op[1], DeepInheritance=op[3], PropertyList=p,
                                          **dict(op[5]))
        elif kind == 'names':
            res = conn.EnumerateInstanceNames(op[2], namespace=op[1])
        elif kind == 'badpl':
            _, opname, ns, (pcls, keys), pl = op
            p = list(pl)
            passed[{'ModifyInstance': 'modify.pl', 'GetInstance': 'get.pl', 'EnumerateInstances': 'enum.pl'}[opname]] = p
            if opname == 'ModifyInstance':
                res = conn.ModifyInstance(mkinst(pcls, (('P_s', 'string', False, 'badpl'),), path=mkpath(ns, pcls, keys)),
                                          PropertyList=p)
            elif opname == 'GetInstance':
                res = conn.GetInstance(mkpath(ns, pcls, keys), PropertyList=p)
            else:
                res = conn.EnumerateInstances(pcls, namespace=ns, PropertyList=p)
        elif kind == 'bad':
            what = op[1]
            if what == 'get-str':
                res = conn.GetInstance('T_Root')
            elif what == 'create-path':
                res = conn.CreateInstance(CIMInstanceName('T_Root', {'K': 'a'}))
            elif what == 'modify-nopath':
                res = conn.ModifyInstance(CIMInstance('T_Root', {'P_s': 'x'}))
            elif what == 'delete-none':
                res = conn.DeleteInstance(None)
            elif what == 'get-pl-int':
                res = conn.GetInstance(CIMInstanceName('T_Root', {'K': 'a'}), PropertyList=5)
            elif what == 'enum-ns-int':
                res = conn.EnumerateInstances('T_Root', namespace=5)
            else:
                raise AssertionError(what)
        else:
            raise AssertionError(kind)
        return ('ok', res), passed, res
    except CIMError as e:
        return ('cim', e.status_code), passed, None
    except Exception as e:     # pylint: disable=broad-except
        return ('exc', type(e).__name__, str(e)[:160]), passed, None


def judge(E, outcome):
    """-> None or symptom string; applies the state change of an accepted success."""
    if outcome[0] == 'cim':
        if E.pyexc:
            if outcome[1] in E.opt:
                return None
            return 'status-' + codename(outcome[1]) + '-expected-python-exception'
        if outcome[1] in E.errs or outcome[1] in E.opt:
            return None
        if not E.errs:
            return 'status-' + codename(outcome[1]) + '-expected-success'
        return 'status-' + codename(outcome[1]) + '-expected-' + '/'.join(sorted(codename(c) for c in E.errs))
    if outcome[0] == 'exc':
        if E.pyexc:
            return None
        return 'raises-' + outcome[1]
    if E.pyexc:
        return 'unexpected-success-expected-python-exception'
    if E.errs:
        return 'unexpected-success-expected-' + '/'.join(sorted(codename(c) for c in E.errs))
    if E.apply:
        E.apply()
    if E.check:
        return E.check(outcome[1])
    return None


def show_outcome(o):
    if o[0] == 'cim':
        return 'CIMError ' + codename(o[1])
    if o[0] == 'exc':
        return o[1] + ': ' + o[2]
    return 'returned ' + repr(o[1])[:400]


def step(conn, M, op, sites, where):
    E = M.expect(op)
    outcome, passed, res = call(conn, op)
    sym = judge(E, outcome)
    fail = None
    if sym is not None:
        fail = {'where': where, 'op': op, 'kind': op[0], 'symptom': sym, 'hints': set(E.hints),
                'flags': set(M.flags), 'expected': E.describe() + (' ' + E.show()[:400] if E.show and E.ok else ''),
                'observed': show_outcome(outcome)}
    for site, obj in passed.items():
        if site in sites and obj is not None:
            mutate(obj)
    retsite = {'create': 'create.ret', 'get': 'get.ret', 'enum': 'enum.ret', 'names': 'names.ret'}.get(op[0])
    if retsite in sites and res is not None:
        mutate(res)
    return fail


POOL = {}       # schema id -> connection whose instance stores were emptied again after a clean history


def acquire(schema, fresh):
    conn = None if fresh else POOL.pop(schema.sid, None)
    return conn if conn is not None else schema.build()


def release(schema, conn):
    """Empty the instance stores through the store API; keep the connection only if that worked."""
    try:
        for ns in schema.nss:
            store = conn.cimrepository.get_instance_store(ns)
            for name in list(store.iter_names()):
                store.delete(name)
            if store.len() != 0:
                return
        POOL[schema.sid] = conn
    except Exception:     # pylint: disable=broad-except
        pass


def run_history(schema, hist, sites, fresh=False):
    """-> None or the first failure (dict)."""
    conn = acquire(schema, fresh)
    M = Model(schema)
    for i, op in enumerate(hist):
        f = step(conn, M, op, sites, i)
        if f:
            return f
    # final observation of the whole store
    for ns in schema.nss:
        nsk = nsnorm(ns)
        for c in schema.roots(nsk):
            for op in (('names', ns, c.name), ('enum', ns, c.name, None, None, ())):
                f = step(conn, M, op, sites, 'final')
                if f:
                    return f
    for key in sorted(M.view, key=repr):
        rec = M.view[key]
        tns = [n for n in schema.nss if nsnorm(n) == key[0]][0]
        f = step(conn, M, ('get', tns, (rec['spec'][1], rec['spec'][2]), None, ()), sites, 'final')
        if f:
            return f
    if 'create.ret' not in sites:
        release(schema, conn)
    return None


def fid(f):
    return ('final-' if f['where'] == 'final' else '') + f['kind'] + '-' + f['symptom']


def known_functional(f):
    """Narrow identification of the defects reproduced on the unchanged tree."""
    k, s = f['kind'], f['symptom']
    if k == 'modify' and s == 'raises-ValueError' and 'pl-absent-null-default' in f['hints'] and \
            'Cannot infer CIM type' in f['observed']:
        return 'known:modify-propertylist-absent-null-default-raises-ValueError'
    if k == 'create' and s == 'raises-AttributeError' and 'assoc-null-ref' in f['hints']:
        return 'known:create-assoc-null-reference-raises-AttributeError'
    if k == 'modify' and s == 'raises-KeyError' and 'assoc-ref-not-yet-set' in f['hints']:
        return 'known:modify-assoc-reference-not-yet-set-raises-KeyError'
    if 'assoc-ns-case' in f['hints'] and (
            (k == 'create' and s == 'status-ALREADY_EXISTS-expected-success') or
            (k == 'delete' and s == 'raises-KeyError')):
        return 'known:assoc-namespace-case-differs-treated-as-other-namespace'
    return None


FOUND = {}      # id -> details (first witness)


def record(vid, schema, hist, f, mode):
    if vid not in FOUND:
        FOUND[vid] = dict(schema=dict(namespaces=schema.nss, depth=schema.depth, key_layout=schema.kv,
                                      association=schema.assoc),
                          history=[repr(o) for o in hist], failing_step=f['where'], failing_op=repr(f['op']),
                          expected=f['expected'], observed=f['observed'], mutated_sites=mode)


def explore(schema, si, hist, idx, sites, modename):
    R.case((si, idx, modename))
    f = run_history(schema, hist, sites)
    if f is None:
        return
    # classify on fresh connections: functional failure (also without any mutation) or isolation failure
    f0 = run_history(schema, hist, NONE, fresh=True)
    if f0 is not None:
        record(known_functional(f0) or fid(f0), schema, hist, f0, 'none')
        return
    for s in sorted(sites):
        fs = run_history(schema, hist, frozenset([s]), fresh=True)
        if fs is not None:
            if s == 'create.ret':
                vid = 'known:create-returned-path-aliases-store-key'
            else:
                vid = 'isolation-' + s.replace('.', '-') + '-then-' + fid(fs)
            record(vid, schema, hist, fs, s)
            return
    fa = run_history(schema, hist, sites, fresh=True)
    if fa is None:
        record('state-carried-over-from-earlier-history-then-' + fid(f), schema, hist, f, ','.join(sorted(sites)))
    else:
        record('isolation-combined-then-' + fid(fa), schema, hist, fa, ','.join(sorted(sites)))


# ------------------------------------------------------------------------------- op alphabets
def swap(s):
    return s.swapcase()


class Alphabet:
    def __init__(self, S):
        self.S = S
        kv = S.kv
        ns1 = S.nss[0]
        self.ns1 = ns1
        if kv == 0:
            ka = (('K', 'string', 'a'),)
            kb = (('K', 'string', 'B b'),)
            kz = (('K', 'string', 'zz'),)
            kwrongval = (('K', 'string', 'A'),)
            kwrongtype = (('K', 'uint8', 5),)
        elif kv == 1:
            ka = (('K', 'string', 'a'), ('K2', 'uint8', 5))
            kb = (('K', 'string', 'a'), ('K2', 'uint8', 6))
            kz = (('K', 'string', 'a'), ('K2', 'uint8', 0))
            kwrongval = (('K', 'string', 'A'), ('K2', 'uint8', 5))
            kwrongtype = (('K', 'string', 'a'), ('K2', 'string', '5'))
        else:
            big = -2 ** 63
            ka = (('KB', 'boolean', True), ('KI', 'sint64', big), ('KD', 'datetime', DT1))
            kb = (('KB', 'boolean', False), ('KI', 'sint64', big), ('KD', 'datetime', DT1))
            kz = (('KB', 'boolean', True), ('KI', 'sint64', big + 1), ('KD', 'datetime', DT1))
            kwrongval = (('KB', 'boolean', True), ('KI', 'sint64', big), ('KD', 'datetime', DT2))
            kwrongtype = (('KB', 'boolean', True), ('KI', 'string', str(big)), ('KD', 'datetime', DT1))
        self.ka, self.kb, self.kz = ka, kb, kz
        self.kcased = tuple((swap(k), t, v) for k, t, v in reversed(ka))
        self.kplainint = tuple((k, 'plain' if t in INT else t, v) for k, t, v in ka)   # python int, not CIM typed
        self.kmissing = ka[:-1]
        self.kextra = ka + (('Extra', 'string', 'x'),)
        self.kwrongval, self.kwrongtype = kwrongval, kwrongtype
        self.other1 = (('ID', 'uint32', 1),)
        self.build()

    def keyprops(self, keys):
        return tuple((k, t, False, v) for k, t, v in keys)

    def ref(self, ns, keys, cname='T_Root'):
        return ('ref', ns, cname, keys)

    def build(self):
        S, ns1 = self.S, self.ns1
        ka, kb, kz = self.ka, self.kb, self.kz
        kp = self.keyprops
        full = kp(ka) + (('P_u8', 'uint8', False, 200), ('P_s', 'string', False, 'hello'),
                         ('P_sa', 'string', True, ['x', '', 'y']), ('P_u64', 'uint64', False, 2 ** 64 - 1))
        W, O = [], []          # write ops / observer ops (full alphabets)
        CW, CO = [], []        # core subsets
        cr = self.cr = {}

        def w(op, core=False, name=None):
            W.append(op)
            if core:
                CW.append(op)
            if name:
                cr[name] = op
            return op

        def o(op, core=False):
            O.append(op)
            if core:
                CO.append(op)
            return op

        nsx = 'nsX'
        othernss = S.nss[1:]
        # ---------------- CreateInstance
        w(('create', ns1, 'T_Root', full), True, 'root_a')
        w(('create', ns1, 'T_Root', kp(kb)), True, 'root_b')
        w(('create', None, 'T_Root', kp(kz) + (('P_s', 'string', False, None), ('P_sa', 'string', True, []))), False,
          'root_z_defaultns')
        w(('create', swap(ns1), 't_root', tuple((swap(n), t, a, v) for n, t, a, v in kp(ka)) +
           (('p_S', 'string', False, 'Other'),)), True, 'root_a_cased')
        w(('create', '/' + ns1 + '/', 'T_Root', kp(kb) + (('P_u8', 'uint8', False, None), ('P_sa', 'string', True, None))),
          False, 'root_b_nulls')
        w(('create', ns1, 'T_Root', kp(ka)[:-1] + (('P_s', 'string', False, 'nokey'),)), True)        # key missing
        w(('create', ns1, 'T_Root', kp(ka)[:-1] + ((ka[-1][0], ka[-1][1], False, None),)))            # NULL key
        w(('create', ns1, 'T_Root', kp(ka) + (('Nope', 'string', False, 'x'),)), True)                # undeclared
        w(('create', ns1, 'T_Root', kp(ka) + (('P_u8', 'string', False, 'x'),)), True)                # wrong type
        w(('create', ns1, 'T_Root', kp(ka) + (('P_s', 'string', True, ['a']),)))                      # array for scalar
        w(('create', ns1, 'T_Root', kp(ka) + (('P_sa', 'string', False, 'x'),)))                      # scalar for array
        w(('create', ns1, 'T_Root', kp(self.kwrongtype)))                                              # key ill-typed
        w(('create', ns1, 'T_Nope', kp(ka)), True)
        w(('create', nsx, 'T_Root', full), True)
        w(('create', ns1, 'T_Other', kp(self.other1) + (('O_u16', 'uint16', False, 65535), ('O_i32', 'sint32', False, -1),
                                                          ('O_u32a', 'uint32', True, [1, 2 ** 32 - 1]),
                                                          ('O_i64a', 'sint64', True, []),
                                                          ('O_c16a', 'char16', True, ['a', 'b']))), False, 'other_1')
        if S.depth >= 2:
            w(('create', ns1, 'T_Mid', kp(ka) + (('P_b', 'boolean', False, True), ('P_i64', 'sint64', False, -2 ** 63),
                                                 ('P_r64', 'real64', False, 1.5), ('P_dt', 'datetime', False, DT1),
                                                 ('P_u16a', 'uint16', True, [0, 65535]), ('P_c16', 'char16', False, 'x'),
                                                 ('P_s', 'string', False, 'mid'))), True, 'mid_a')
            w(('create', ns1, 'T_Mid', kp(kb) + (('P_dt', 'datetime', False, DT2), ('P_b', 'boolean', False, None))))
            w(('create', ns1, 'T_Root', kp(ka) + (('P_b', 'boolean', False, True),)))     # subclass property on superclass
        if S.depth >= 3:
            emb = ('emb', 'T_Other', (('ID', 'uint32', False, 1), ('O_u32a', 'uint32', True, [3])))
            w(('create', ns1, 'T_Leaf', kp(ka) + (('P_r32', 'real32', False, -0.25), ('P_i8', 'sint8', False, -128),
                                                  ('P_ba', 'boolean', True, [True, False]),
                                                  ('P_dta', 'datetime', True, [DT1, DT2]),
                                                  ('P_ra', 'real32', True, [1.5]), ('P_emb', 'string', False, emb),
                                                  ('P_b', 'boolean', False, False), ('P_u8', 'uint8', False, 0))),
              True, 'leaf_a')
            w(('create', ns1, 'T_Leaf', kp(kb) + (('P_emb', 'string', False, ('emb', 'T_Root', kp(ka))),)))  # wrong emb class
            w(('create', ns1, 'T_Leaf', kp(kb) + (('P_i16', 'sint16', False, 32767),)))
        for i, ns in enumerate(othernss):
            w(('create', ns, 'T_Root', full), i == 0, 'root_a@%d' % (i + 1))
            w(('create', ns, 'T_Root', kp(kb) + (('P_s', 'string', False, 'in ' + ns),)), False, 'root_b@%d' % (i + 1))
            w(('create', ns, 'T_Other', kp(self.other1)))                                   # class not in that namespace
            if S.depth >= 2:
                w(('create', ns, 'T_Mid', kp(ka) + (('P_b', 'boolean', False, False),)))
        if S.assoc:
            ra, rb, rz = self.ref(ns1, ka), self.ref(ns1, kb), self.ref(ns1, kz)
            w(('create', ns1, 'T_Assoc', (('L', 'reference', False, ra), ('R', 'reference', False, rb),
                                          ('N', 'string', False, 'n'))), True, 'assoc_ab')
            w(('create', ns1, 'T_Assoc', (('L', 'reference', False, rb), ('R', 'reference', False, ra),
                                          ('X', 'reference', False, ra))), False, 'assoc_ba_x')
            w(('create', ns1, 'T_Assoc', (('L', 'reference', False, ra), ('R', 'reference', False, rb),
                                          ('X', 'reference', False, None))))                 # NULL non-key reference
            w(('create', ns1, 'T_Assoc', (('L', 'reference', False, rz), ('R', 'reference', False, rb))))    # dangling
            w(('create', ns1, 'T_Assoc', (('L', 'reference', False, self.ref(nsx, ka)), ('R', 'reference', False, rb))))
            w(('create', ns1, 'T_Assoc', (('L', 'reference', False, ra),)))                                  # key missing
            w(('create', swap(ns1), 'T_Assoc', (('L', 'reference', False, ra), ('R', 'reference', False, ra))))  # ns case
            w(('create', ns1, 'T_Assoc', (('L', 'reference', False, self.ref(ns1, ka, 't_ROOT')),
                                          ('R', 'reference', False, self.ref(ns1, self.kcased)))))
            for i, ns in enumerate(othernss):
                w(('create', ns1, 'T_Assoc', (('L', 'reference', False, ra), ('R', 'reference', False, self.ref(ns, kb)),
                                              ('N', 'string', False, 'x-ns'))), i == 0, 'assoc_multi@%d' % (i + 1))
                w(('create', ns, 'T_Assoc', (('L', 'reference', False, self.ref(ns, ka)),
                                             ('R', 'reference', False, self.ref(ns, kb)))))

        # ---------------- paths used by modify / delete / get
        root = lambda keys: ('T_Root', keys)       # noqa: E731
        paths = [(ns1, root(ka), True), (swap(ns1), ('t_ROOT', self.kcased), True), (ns1, root(kb), True),
                 (ns1, root(kz), False), (None, root(ka), False), (ns1, root(self.kplainint), False),
                 (ns1, root(self.kmissing), False), (ns1, root(self.kextra), False),
                 (ns1, root(self.kwrongval), False), (ns1, root(self.kwrongtype), False),
                 (ns1, ('T_Nope', ka), True), (nsx, root(ka), True), (ns1, ('T_Other', self.other1), False)]
        if S.depth >= 2:
            paths += [(ns1, ('T_Mid', ka), True), (ns1, ('T_Mid', kb), False)]
        if S.depth >= 3:
            paths += [(ns1, ('T_Leaf', ka), True)]
        for ns in othernss:
            paths += [(ns, root(ka), ns == othernss[0]), (ns, root(kb), False), (ns, ('T_Other', self.other1), False)]
        apaths = []
        if S.assoc:
            akeys = (('L', 'reference', ra), ('R', 'reference', rb))
            apaths.append((ns1, ('T_Assoc', akeys), True))
            apaths.append((swap(ns1), ('T_Assoc', akeys), False))
            apaths.append((ns1, ('T_Assoc', tuple(reversed(akeys))), False))
            for ns in othernss[:1]:
                mkeys_ = (('L', 'reference', ra), ('R', 'reference', self.ref(ns, kb)))
                apaths.append((ns1, ('T_Assoc', mkeys_), True))
                apaths.append((ns, ('T_Assoc', mkeys_), True))
        # ---------------- ModifyInstance
        ps = (('P_s', 'string', False, 'mod'),)
        two = (('P_s', 'string', False, 'x'), ('P_u8', 'uint8', False, 9))
        for ns, (pcls, keys), core in paths:
            w(('modify', ns, pcls, (pcls, keys), ps if pcls.lower() != 't_other' else
               (('O_i32', 'sint32', False, 2 ** 31 - 1),), None), core)
        exact = root(ka)
        mods = [(two + (('P_sa', 'string', True, ['q']),), None, True),
                ((('p_S', 'string', False, 'cased'),), None, False),
                (two, ('P_s',), True), (two, ('p_S', 'P_S', 'P_s'), False), (two, (), True), (two, 'P_u8', False),
                ((), ('P_s',), True), ((), ('P_u8',), True), ((), ('P_sa', 'P_u64'), False),
                ((('P_u64', 'uint64', False, 1),), ('P_u64', 'P_s'), False),
                (ps, ('Nope',), True), (ps, ('P_s', 'Nope'), False),
                (kp(ka) + ps, None, True), (kp(kb) + ps, None, True), (kp(kb) + ps, ('P_s',), False),
                ((('P_u8', 'string', False, 'x'),), None, True), ((('P_u8', 'string', False, 'x'),), ('P_s',), False),
                ((('Nope', 'string', False, 'x'),), None, False), ((('P_sa', 'string', False, 'x'),), None, False),
                ((('P_s', 'string', False, None), ('P_sa', 'string', True, None)), None, True),
                ((('P_sa', 'string', True, []),), None, False), ((), None, False)]
        for props, pl, core in mods:
            w(('modify', ns1, 'T_Root', exact, props, pl), core)
        w(('modify', ns1, 'T_Other', exact, ps, None), True)              # class names inconsistent
        w(('modify', ns1, 't_root', ('T_ROOT', self.kcased), ps, None))   # consistent but differently cased
        if S.depth >= 2:
            w(('modify', ns1, 'T_Mid', ('T_Mid', ka), (('P_b', 'boolean', False, False), ('P_s', 'string', False, 'm2'),
                                                        ('P_u16a', 'uint16', True, [7]), ('P_r64', 'real64', False, -2.5)),
               None), True)
            w(('modify', ns1, 'T_Mid', ('T_Mid', ka), (), ('P_b', 'P_s')))
            w(('modify', ns1, 'T_Root', exact, (('P_b', 'boolean', False, True),), None))     # not exposed by T_Root
            w(('modify', ns1, 'T_Mid', exact, ps, None))
        if S.depth >= 3:
            emb2 = ('emb', 'T_Other', (('ID', 'uint32', False, 2),))
            w(('modify', ns1, 'T_Leaf', ('T_Leaf', ka), (('P_emb', 'string', False, emb2),
                                                          ('P_dta', 'datetime', True, [DT2]),
                                                          ('P_ra', 'real32', True, [])), None), True)
            w(('modify', ns1, 'T_Leaf', ('T_Leaf', ka), (), ('P_i16', 'P_s')))
        for ns, (pcls, keys), core in apaths:
            w(('modify', ns, pcls, (pcls, keys), (('N', 'string', False, 'via ' + ns),), None), core)
        if S.assoc:
            ap = apaths[0][1]
            w(('modify', ns1, 'T_Assoc', ap, (('X', 'reference', False, rb),), None))
            w(('modify', ns1, 'T_Assoc', ap, (('X', 'reference', False, None),), None))
            w(('modify', ns1, 'T_Assoc', ap, (('X', 'reference', False, rz),), None))
            w(('modify', ns1, 'T_Assoc', ap, (('L', 'reference', False, rb),), None))      # key reference changed
            w(('modify', ns1, 'T_Assoc', ap, (('L', 'reference', False, ra), ('N', 'string', False, None)), ('N', 'L')))
        # ---------------- DeleteInstance
        for ns, p, core in paths + apaths:
            w(('delete', ns, p), core)
        # ---------------- GetInstance
        pls = [(None, True), ((), False), (('P_s',), True), ('P_s', False), (('p_s', ka[0][0].swapcase(), 'nope'), False),
               (('P_s', 'P_s', 'P_U8'), False)]
        for ns, p, core in paths + apaths:
            o(('get', ns, p, None, ()), core)
        for pl, core in pls[1:]:
            o(('get', ns1, exact, pl, ()), core)
        for fl in ((('LocalOnly', True),), (('IncludeQualifiers', True), ('IncludeClassOrigin', True)),
                   (('LocalOnly', False), ('IncludeQualifiers', False), ('IncludeClassOrigin', False))):
            o(('get', ns1, exact, None, fl))
        if S.depth >= 2:
            o(('get', ns1, ('T_Mid', ka), ('P_s', 'P_b', 'P_u16a'), (('LocalOnly', True),)))
        if S.depth >= 3:
            o(('get', ns1, ('T_Leaf', ka), ('P_emb', 'p_dta', 'P_s'), ()))
        # ---------------- EnumerateInstances / EnumerateInstanceNames
        clsnames = [c.name for c in S.classes] + ['t_ROOT', 'T_Nope']
        for ns in [ns1, swap(ns1), None, nsx] + othernss:
            for cn in clsnames:
                if ns != ns1 and cn not in ('T_Root', 'T_Other', 'T_Assoc', 'T_Mid'):
                    continue
                o(('names', ns, cn), ns == ns1 and cn in ('T_Root', 'T_Nope'))
                o(('enum', ns, cn, None, None, ()), cn == 'T_Root' and ns in (ns1, nsx))
        for cn in [c.name for c in S.classes]:
            for di in (False, True):
                o(('enum', ns1, cn, di, None, ()), cn == 'T_Root' and di is False)
            o(('enum', ns1, cn, None, ('P_s', 'p_B', 'N'), ()))
            o(('enum', ns1, cn, False, ('P_s', 'P_b', 'ID'), ()))
        o(('enum', ns1, 'T_Root', None, (), ()), True)
        o(('enum', ns1, 'T_Root', None, 'P_s', ()))
        o(('enum', ns1, 'T_Root', False, (), (('LocalOnly', True), ('IncludeQualifiers', True),
                                              ('IncludeClassOrigin', True))))
        o(('enum', ns1, 'T_Root', True, ('P_u8', 'P_u8'), (('LocalOnly', False),)))
        # ---------------- ill-typed arguments
        for what in ('get-str', 'create-path', 'modify-nopath', 'delete-none', 'get-pl-int', 'enum-ns-int'):
            o(('bad', what))
        self.W, self.O, self.CW, self.CO = W, O, CW, CO
        self.ALL = W + O
        self.index = {id(op): i for i, op in enumerate(self.ALL)}
        # ---------------- state prefixes
        c = cr
        pre = [[], [c['root_a']], [c['root_a'], c['root_b'], c['other_1']] + ([c['mid_a']] if 'mid_a' in c else [])]
        if 'leaf_a' in c:
            pre.append([c['leaf_a'], c['mid_a'], c['root_a']])
        if othernss:
            pre.append([c['root_a'], c['root_a@1'], c['root_b@1']])
        if S.assoc:
            if othernss:
                pre.append([c['root_a'], c['root_b'], c['root_b@1'], c['assoc_ab'], c['assoc_multi@1']])
            else:
                pre.append([c['root_a'], c['root_b'], c['assoc_ab'], c['assoc_ba_x']])
        self.prefixes = pre

    # ---------------------------------------------------------------- PropertyList sweep
    def build_pl(self, quick):
        """Systematic PropertyList variants for ModifyInstance / GetInstance / EnumerateInstances.

        Every list shape is crossed with the lexical case of the list entries and (ModifyInstance) independently with
        the lexical case of the property names in the ModifiedInstance.  -> self.PLH: histories (state prefix + one
        ModifyInstance, or + a chunk of observers); self.PLW / self.PLO: write ops the model expects to succeed /
        observers, for the random histories; self.PLPRE: the state prefixes used."""
        S, ns1, c, kp = self.S, self.ns1, self.cr, self.keyprops
        ka, kb = self.ka, self.kb
        othernss = S.nss[1:]
        ops, H, PLW, PLO, PLPRE = [], [], [], [], []
        seen = {}

        def reg(op):
            k = repr(op)
            if k not in seen:
                seen[k] = op
                ops.append(op)
                return op, True
            return seen[k], False

        if quick:
            pairs = [('decl', 'lower'), ('lower', 'decl'), ('upper', 'swap'), ('swap', 'mix'), ('mix', 'upper'),
                     ('lower', 'lower')]
            ostyles = STYLES
            estyles = ('lower', 'swap', 'mix')
            chunk = 8
        else:
            pairs = [(m, p) for m in STYLES for p in STYLES]
            ostyles = estyles = STYLES
            chunk = 3

        def changed(keys):
            k, t, v = keys[-1]
            nv = {'string': lambda: v + 'x', 'uint8': lambda: 77, 'datetime': lambda: DT2,
                  'boolean': lambda: not v}[t]()
            return keys[:-1] + ((k, t, nv),)

        def expect_after(prefix, op):
            m = Model(S)
            for q in prefix:
                e = m.expect(q)
                if e.ok and e.apply:
                    e.apply()
            return m.expect(op)

        # ---------------- ModifyInstance
        def modify_shapes(keys, vals, ddef, dnull):
            a, b = vals[0], vals[1]
            an, bn = a[0], b[0]
            names = tuple(v[0] for v in vals)
            kn = tuple(k[0] for k in keys)
            bad_a = (an, 'uint8', False, 5)           # a is a string property everywhere
            kc = changed(keys)
            return [('none', vals, None), ('empty', vals, ()), ('one', vals, (an,)), ('other', vals, (bn,)),
                    ('all-rev', vals, tuple(reversed(names))), ('dupcase', vals, (an, ('alt', an), bn, ('alt', an))),
                    ('str', vals, an), ('tuple', vals, TupPL((bn, an))), ('dflt', vals, (ddef,)),
                    ('one+dflt', vals, (an, ddef)), ('key-same', kp(keys) + vals, kn + (an,)), ('null', vals, (dnull,)),
                    # --- the rest only for the full targets
                    ('dup', vals, (an, an)), ('key-absent', vals, (kn[0],)), ('key-absent+one', vals, (an, kn[-1])),
                    ('key-same-notinpl', kp(keys) + vals, (an,)), ('key-only', kp(keys) + vals, kn),
                    ('key-changed', kp(kc) + vals, (kn[-1], an)), ('key-changed-notinpl', kp(kc) + vals, (an,)),
                    ('unknown', vals, (an, 'Nope')), ('unknown-only', vals, ('Nope',)),
                    ('unknown-dup', vals, ('Nope', ('alt', 'Nope'))),
                    ('badtype-inpl', (bad_a,) + vals[1:], (an,)), ('badtype-notinpl', (bad_a,) + vals[1:], (bn,)),
                    ('undeclared-notinpl', vals + (('Nope', 'string', False, 'x'),), (an,)),
                    ('undeclared-inpl', vals + (('Nope', 'string', False, 'x'),), (an, 'Nope')),
                    ('mi-empty', (), (an, ddef)), ('mi-empty-none', (), None), ('mi-empty-empty', (), ())]
        NREDUCED = 12

        vroot = (('P_s', 'string', False, 'm1'), ('P_sa', 'string', True, ['q', 'r']))
        mt = [('rootA', [c['root_a']], ns1, 'T_Root', 'T_Root', ka, vroot, 'P_u64', 'P_u8', True),
              ('rootB', [c['root_b']], ns1, 'T_Root', 'T_Root', kb, vroot, 'P_u64', 'P_u8', False)]
        if 'mid_a' in c:
            vmid = (('P_s', 'string', False, 'm2'), ('P_b', 'boolean', False, False), ('P_u16a', 'uint16', True, [7]))
            mt.append(('mid', [c['root_a'], c['mid_a']], ns1, 'T_Mid', 'T_Mid', ka, vmid, 'P_u64', 'P_i64', False))
        if 'leaf_a' in c:
            vleaf = (('P_s', 'string', False, 'm3'), ('P_i8', 'sint8', False, 5), ('P_ra', 'real32', True, [0.5]))
            mt.append(('leaf', [c['mid_a'], c['leaf_a']], ns1, 'T_Leaf', 'T_Leaf', ka, vleaf, 'P_i16', 'P_r32', False))
        if othernss:
            mt.append(('root@1', [c['root_a'], c['root_a@1']], swap(othernss[0]), 't_root', 'T_ROOT', ka, vroot,
                       'P_u64', 'P_u8', False))
        def vary(vals, n):
            """Different new values for every op, so that a write that did not happen shows after earlier writes."""
            out = []
            for name, t, arr, v in vals:
                one = lambda x: (x + str(n) if isinstance(x, str) else (n % 2 == 0) if isinstance(x, bool) else  # noqa: E731
                                 x + n % 50 if isinstance(x, int) else x + n)
                out.append((name, t, arr, [one(x) for x in v] if isinstance(v, list) else one(v)))
            return tuple(out)

        def sweep_modify(prefix, nshapes, shapes_of, usepairs, mkop):
            good = []
            for i in range(nshapes):
                for ms, ps in usepairs:
                    counter[0] += 1
                    mi, pl = shapes_of(counter[0])[i]
                    op, isnew = reg(mkop(styled_props(mi, ms), styled_pl(pl, ps)))
                    if not isnew:
                        continue
                    e = expect_after(prefix, op)
                    if e.ok and not e.hints and not e.opt:
                        good.append(op)
                    else:
                        H.append(prefix + [op])
            PLW.extend(good)
            # quick: the modifies that the model expects to succeed run three to a history (different shapes)
            k = max(1, -(-len(good) // 3)) if quick else max(1, len(good))
            for j in range(k):
                H.append(prefix + good[j::k])

        counter = [0]
        for ti, (_tag, prefix, ns, icls, pcls, keys, vals, ddef, dnull, full) in enumerate(mt):
            PLPRE.append(prefix)
            nshapes = len(modify_shapes(keys, vals, ddef, dnull)) if full else NREDUCED
            usepairs = pairs if full or not quick else pairs[ti % 2::2]
            sweep_modify(prefix, nshapes,
                         lambda n, a=(keys, vals, ddef, dnull): [(mi, pl) for _s, mi, pl in
                                                                 modify_shapes(a[0], vary(a[1], n), a[2], a[3])],
                         usepairs,
                         lambda mi, pl, a=(ns, icls, pcls, keys): ('modify', a[0], a[1], (a[2], a[3]), mi, pl))
        if S.assoc:
            ra, rb = self.ref(ns1, ka), self.ref(ns1, kb)
            akeys = (('L', 'reference', ra), ('R', 'reference', rb))
            aprefix = [c['root_a'], c['root_b'], c['assoc_ab']]
            PLPRE.append(aprefix)
            lr = (('L', 'reference', False, ra), ('R', 'reference', False, rb))

            def assoc_shapes(n):
                n2 = vary((('N', 'string', False, 'n'),), n)
                return [(n2, None), (n2, ()), (n2, ('N',)), (n2, ('N', ('alt', 'N'))), (n2, 'N'),
                        (lr + n2, ('L', 'N')), (lr + n2, ('R', 'L')), (lr + n2, ('N',)), (lr, ('N',)),
                        (n2, ('N', 'Nope'))]
            sweep_modify(aprefix, len(assoc_shapes(0)), assoc_shapes, pairs if not quick else pairs[1::2],
                         lambda mi, pl: ('modify', ns1, 'T_Assoc', ('T_Assoc', akeys), mi, pl))

        # ---------------- GetInstance
        def chunks(prefix, obs):
            for i in range(0, len(obs), chunk):
                H.append(prefix + obs[i:i + chunk])

        def get_shapes(sn, kn, absent):
            a, b = sn[0], sn[1]
            return [None, (), (a,), (b, a), tuple(reversed(tuple(sn) + tuple(kn))), (a, a),
                    (a, ('alt', a), b, ('alt', a)), a, TupPL((a, b)), (kn[0],), (kn[-1], a), (a, 'Nope'), ('Nope',),
                    ('Nope', ('alt', 'Nope')), (absent,), (absent, a)]

        state = [c['root_a'], c['root_b'], c['other_1']] + [c[n] for n in ('mid_a', 'leaf_a') if n in c]
        if othernss:
            state += [c['root_a@1'], c['root_b@1']]
        PLPRE.append(state)
        rootk = tuple(k[0] for k in ka)
        gt = [(ns1, ('T_Root', ka), ('P_s', 'P_u8', 'P_sa', 'P_u64'), rootk, 'P_b'),
              (swap(ns1), ('t_ROOT', self.kcased), ('P_u64', 'P_sa', 'P_s'), rootk, 'P_r32'),
              (ns1, ('T_Root', kb), rootk + ('K',), rootk, 'P_s'),
              (ns1, ('T_Other', self.other1), ('O_u16', 'O_c16a', 'O_i32'), ('ID',), 'P_s')]
        if 'mid_a' in c:
            gt.append((ns1, ('T_Mid', ka), ('P_s', 'P_b', 'P_u16a', 'P_dt'), rootk, 'P_u64'))
        if 'leaf_a' in c:
            gt.append((ns1, ('T_Leaf', ka), ('P_emb', 'P_dta', 'P_u8', 'P_b'), rootk, 'P_i16'))
        if othernss:
            gt.append((othernss[0], ('T_Root', ka), ('P_s', 'P_u64'), rootk, 'P_b'))
        for ns, path, sn, kn, absent in gt:
            obs = []
            for pl in get_shapes(sn, kn, absent):
                for ps in ostyles:
                    op, isnew = reg(('get', ns, path, styled_pl(pl, ps), ()))
                    if isnew:
                        obs.append(op)
            op, _n = reg(('get', ns, path, styled_pl((sn[0], kn[0]), 'swap'),
                          (('LocalOnly', True), ('IncludeQualifiers', True), ('IncludeClassOrigin', True))))
            obs.append(op)
            PLO.extend(obs)
            chunks(state, obs)
        if S.assoc:
            astate = [c['root_a'], c['root_b'], c['assoc_ab']]
            obs = []
            for pl in get_shapes(('N', 'R'), ('L', 'R'), 'X'):
                for ps in ostyles:
                    op, isnew = reg(('get', ns1, ('T_Assoc', akeys), styled_pl(pl, ps), ()))
                    if isnew:
                        obs.append(op)
            PLO.extend(obs)
            chunks(astate, obs)

        # ---------------- EnumerateInstances
        def enum_shapes(a, b, k0, sub, more):
            return [(), (a,), (a, b), (k0, a), (a, a), (a, ('alt', a), b, ('alt', a)), ('Nope', a), a, TupPL((b, a)),
                    (b, sub), tuple(reversed(more)), ('Nope',)]

        et = [(ns1, 'T_Root', ('P_s', 'P_b', rootk[0], 'P_r32', ('P_u8', 'P_sa', 'P_i16', 'P_emb', 'P_c16')))]
        if 'mid_a' in c:
            et.append((swap(ns1), 't_MID', ('P_s', 'P_b', rootk[-1], 'P_i8', ('P_u64', 'P_dt', 'P_ba'))))
        if othernss:
            et.append((othernss[0], 'T_Root', ('P_s', 'P_u64', rootk[0], 'P_b', ('P_u8', 'P_sa'))))
        if not quick:
            et.append((ns1, 'T_Other', ('O_u16', 'O_i32', 'ID', 'P_s', ('O_u32a', 'O_c16a'))))
            if 'leaf_a' in c:
                et.append((ns1, 'T_Leaf', ('P_s', 'P_emb', rootk[0], 'P_i16', ('P_ra', 'P_b', 'P_u8'))))
        for ns, cn, args in et:
            obs = []
            for pl in enum_shapes(*args):
                for di in (None, False, True):
                    for ps in estyles:
                        op, isnew = reg(('enum', ns, cn, di, styled_pl(pl, ps), ()))
                        if isnew:
                            obs.append(op)
            op, _n = reg(('enum', ns, cn, False, styled_pl((args[0], args[2]), 'upper'),
                          (('LocalOnly', True), ('IncludeQualifiers', True), ('IncludeClassOrigin', True))))
            obs.append(op)
            PLO.extend(obs)
            chunks(state, obs)
        if S.assoc:
            obs = []
            for pl in enum_shapes('N', 'X', 'L', 'P_s', ('R', 'N', 'L')):
                for ps in estyles:
                    op, isnew = reg(('enum', ns1, 'T_Assoc', None, styled_pl(pl, ps), ()))
                    if isnew:
                        obs.append(op)
            PLO.extend(obs)
            chunks(astate, obs)

        # ---------------- PropertyList entries that are not strings
        for opname in ('ModifyInstance', 'GetInstance', 'EnumerateInstances'):
            for pl in ((5,), (None,), ('P_s', None), (('P_s',),)):
                op, _n = reg(('badpl', opname, ns1, ('T_Root', ka), pl))
                H.append([c['root_a'], op])
        base = len(self.ALL)
        for i, op in enumerate(ops):
            self.index[id(op)] = base + i
        self.PLH, self.PLW, self.PLO, self.PLPRE = H, PLW, PLO, PLPRE


# ------------------------------------------------------------------------------------- main
def main():
    rnd = random.Random(R.seed)
    quick = R.tier == 'quick'
    if quick:
        params = [(1, 2, 1, False), (2, 3, 0, True), (3, 1, 2, True)]
    else:
        params = [(1, 1, 0, False), (1, 2, 1, False), (1, 3, 2, True), (2, 1, 1, True), (2, 2, 2, False),
                  (2, 3, 0, True), (3, 1, 2, True), (3, 2, 0, True), (3, 3, 1, True)]
    for si, prm in enumerate(params):
        S = Schema(*prm)
        A = Alphabet(S)
        ix = A.index

        def go(hist, sites=PRIMARY, mode='primary'):
            explore(S, si, hist, tuple(ix[id(o)] for o in hist), sites, mode)

        # (1) every state prefix x every op of the full alphabet
        prefixes = A.prefixes
        for pi, pre in enumerate(prefixes):
            ops = A.ALL
            if quick and pi >= 2:
                ops = A.W + A.CO          # the bigger states: all write ops, core observers
            for op in ops:
                go(pre + [op])
        # (2) all pairs of core write ops from the empty store and from one stored instance
        #     (quick: a first op that the model expects to fail adds nothing over part 1 and is skipped)
        for pre in ([], [A.cr['root_a']]):
            for w1 in A.CW:
                if quick:
                    m = Model(S)
                    for p in pre:
                        m.expect(p).apply()
                    if not m.expect(w1).ok or (pre and w1[0] == 'create'):
                        continue
                for w2 in A.CW:
                    go(pre + [w1, w2])
        # (3) the returned path of CreateInstance mutated as well (separately: it is a known leak)
        for w1 in A.CW:
            if w1[0] == 'create':
                for op in (A.CW + A.CO if not quick else A.CO):
                    go([w1, op], EVERY, 'every')
        # (4) seeded random histories of length 3..6, writes twice as likely as observers
        n = 300 if quick else 1200
        for _ in range(n):
            ln = rnd.randint(3, 6)
            hist = []
            for _j in range(ln):
                r = rnd.random()
                pool = A.CW if r < 0.35 else A.W if r < 0.67 else A.O
                hist.append(pool[rnd.randrange(len(pool))])
            go(hist)
        for _ in range(n // 10):
            ln = rnd.randint(3, 6)
            hist = [(A.CW + A.CO)[rnd.randrange(len(A.CW) + len(A.CO))] for _j in range(ln)]
            go(hist, EVERY, 'every')
        # (5) PropertyList sweep: list shape x case of the entries x case of the ModifiedInstance names
        A.build_pl(quick)
        for hist in A.PLH:
            go(hist)
        # (6) seeded random histories over the sweep ops: a sweep state, then 3..6 PropertyList modifies that the model
        #     expects to succeed / PropertyList observers / core write ops (its own generator: parts 1-4 stay as they were)
        rnd2 = random.Random(R.seed * 7919 + 17 + si)
        for _ in range(100 if quick else 800):
            hist = list(A.PLPRE[rnd2.randrange(len(A.PLPRE))])
            for _j in range(rnd2.randint(3, 6)):
                r = rnd2.random()
                pool = A.PLW if r < 0.5 else A.PLO if r < 0.8 else A.CW
                hist.append(pool[rnd2.randrange(len(pool))])
            go(hist)
    # Run.violation keeps the first 5 ids only: unknown ones first; the full list goes to stderr
    order = sorted(FOUND, key=lambda v: (v.startswith('known:'), v))
    for vid in order:
        R.violation(vid, **FOUND[vid])
    sys.stderr.write('C10 violation ids found: %s\n' % (', '.join(order) or 'none'))
    R.finish()


main()
