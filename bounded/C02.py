"""Bounded stand-in for C02: whatever a server sends back, every WBEMConnection operation returns a value of its
documented result type or raises a documented pywbem.Error; nothing else escapes, and the call terminates.

How it works: every public operation of a real WBEMConnection is driven against a scripted transport adapter
(mounted on conn.session) and, for the HTTP layer, against a raw loopback socket server.  Responses are built
from a tiny independent XML model (not pywbem's) and mutated by a grammar (delete/duplicate/rename/replace/
insert elements, delete/set/add attributes from per-attribute-class value pools, text values from a pool incl.
INF/NaN/1e400/''/x); arbitrary bytes, truncations and byte flips go in at the SAX boundary.

Oracle (independent of pywbem):
 * exception class: only the documented pywbem.Error subclasses may come out; str()/repr() of them must work;
 * result shape: a structural checker of the documented result type per operation (written from the docs); for list
   results EVERY element is checked (instance-level requests: only instances / instance paths, class-level: only
   (class path, class) tuples / class paths).  Result lists of length 0..4 are sent with one element of another kind
   (instance among classes inside VALUE.OBJECTWITHPATH, CLASSPATH among INSTANCEPATHs, CLASSNAME among INSTANCENAMEs,
   VALUE.NAMEDINSTANCE among VALUE.INSTANCEWITHPATH, wrappers with children of the wrong kind, ...) at the first, a
   middle and the last position; a result of the right type that is shorter than the list sent counts as well (the odd
   element was dropped silently).  Single-object operations get several objects / objects of another kind; array output
   parameters of InvokeMethod get one odd item (every element must be of the declared numeric/boolean/datetime type);
 * outcome reference model: HTTP status -> HTTPError/AuthError, Content-type -> HeaderParseError, libxml2 (lxml)
   says ill-formed -> XMLParseError, a hand-written model of the DSP0200 envelope (CIM/MESSAGE/SIMPLERSP/
   xMETHODRESPONSE, versions, NAME, ERROR -> CIMError(code, description)); untouched baselines must return the
   hand-specified values;
 * parse errors must carry request_data/response_data equal to what the adapter saw/sent;
 * a watchdog timer turns a hang into a violation; after failures the connection must still serve a good reply.
"""
import gzip
import inspect
import os
import logging
import random
import re
import signal
import socket
import sys
import threading
import traceback
import warnings
import zlib

import requests
from requests.adapters import BaseAdapter
from lxml import etree

from bounded.common import Run

warnings.simplefilter('ignore')
logging.getLogger('pywbem').addHandler(logging.NullHandler())
logging.getLogger('pywbem').propagate = False

import pywbem  # noqa: E402
from pywbem import (WBEMConnection, CIMInstanceName, CIMClassName, CIMInstance, CIMClass, CIMProperty,  # noqa: E402
                    CIMMethod, CIMParameter, CIMQualifier, CIMQualifierDeclaration, CIMDateTime, CIMInt, CIMFloat,
                    Uint8, Sint8, Uint16, Sint16, Uint32, Sint32, Uint64, Sint64, Real32, Real64)

R = Run('all 41 public WBEMConnection operations (60 variants: instance/class level, Iter* via open/pull/fallback) x '
        'scripted replies: 31 reply kinds fed to every variant; single mutations (del/dup/rename/replace/insert element, '
        'del/set/add attribute from per-attribute value pools, text from a pool incl. INF/NaN/1e400/""/x/4400 digits) of '
        'every reply below xMETHODRESPONSE to depth 3, of the upper envelope for 4 variants, and of 135 small fragments '
        '(property/qualifier/method/parameter/keybinding/path/RETURNVALUE/PARAMVALUE/ERROR of every CIM type and child '
        'kind); 20 HTTP statuses x 11 header sets, 15 Content-types, redirects, 26 requests/urllib3 exceptions; 126 '
        'garbage/ill-formed-UTF-8/ill-formed-XML bodies, all truncations and byte flips of a reply; 62 raw HTTP byte '
        'streams + stalls over a loopback socket; nesting depth <= 400; result lists of length 0..4 of every '
        'list-returning variant with one element of another kind (59 element shapes: instance/class content of '
        'VALUE.OBJECTWITHPATH/-LOCALPATH/VALUE.OBJECT/OBJECTPATH, INSTANCENAME/CLASSNAME, INSTANCEPATH/CLASSPATH, '
        'VALUE.NAMEDINSTANCE/VALUE.INSTANCEWITHPATH, wrappers with wrong children) at the first/middle/last position, every '
        'element of the result checked, dropped elements detected; GetInstance/GetClass/GetQualifier/CreateInstance given '
        '1..4 objects of every shape; InvokeMethod array output parameters/return values of 7 types with one odd item '
        '(quick: reduced pools/depths, representative variants for the byte level, odd elements of the same tag or easily '
        'confused; thorough: full pools/snippets, depth 3000, 60000 seeded pairs of mutations, every odd element shape, '
        'lists up to 5, two odd elements)')

THOROUGH = R.tier == 'thorough'
RND = random.Random(R.seed)
NS = 'root/cimv2'


# ---------------------------------------------------------------------------------------------------------
# tiny XML model, independent of pywbem
# ---------------------------------------------------------------------------------------------------------

class N:
    __slots__ = ('tag', 'attrs', 'kids')

    def __init__(self, tag, attrs=None, *kids):
        self.tag = tag
        self.attrs = dict(attrs or {})
        self.kids = list(kids)

    def copy(self):
        return N(self.tag, self.attrs, *[k.copy() if isinstance(k, N) else k for k in self.kids])


def esc_t(s):
    return s.replace('&', '&amp;').replace('<', '&lt;').replace('>', '&gt;')


def esc_a(s):
    return esc_t(s).replace('"', '&quot;').replace('\n', '&#10;').replace('\t', '&#9;').replace('\r', '&#13;')


def ser(n):
    if isinstance(n, str):
        return esc_t(n)
    a = ''.join(' %s="%s"' % (k, esc_a(v)) for k, v in n.attrs.items())
    if not n.kids:
        return '<%s%s/>' % (n.tag, a)
    return '<%s%s>%s</%s>' % (n.tag, a, ''.join(ser(k) for k in n.kids), n.tag)


PROLOG = '<?xml version="1.0" encoding="utf-8" ?>\n'


def doc(n):
    return (PROLOG + ser(n)).encode('utf-8')


def walk(n, path=()):
    yield path, n
    if isinstance(n, N):
        for i, k in enumerate(n.kids):
            yield from walk(k, path + (i,))


def at(root, path):
    n = root
    for i in path:
        n = n.kids[i]
    return n


def tagpath(root, path):
    out = [root.tag]
    n = root
    for i in path:
        n = n.kids[i]
        out.append('%s[%d]' % (n.tag, i) if isinstance(n, N) else '#text[%d]' % i)
    return '/'.join(out)


def ekids(n):
    return [k for k in n.kids if isinstance(k, N)]


# ---------------------------------------------------------------------------------------------------------
# building blocks of replies
# ---------------------------------------------------------------------------------------------------------

def V_(txt):
    return N('VALUE', None, txt)


def keyb(name='Key', *kid):
    return N('KEYBINDING', {'NAME': name}, *(kid or (N('KEYVALUE', {'VALUETYPE': 'string', 'TYPE': 'string'}, 'k1'),)))


def iname(cls='CIM_Foo', *kbs):
    return N('INSTANCENAME', {'CLASSNAME': cls}, *(kbs or (keyb(),)))


def cname(c='CIM_Foo'):
    return N('CLASSNAME', {'NAME': c})


def lnsp():
    return N('LOCALNAMESPACEPATH', None, N('NAMESPACE', {'NAME': 'root'}), N('NAMESPACE', {'NAME': 'cimv2'}))


def nsp():
    return N('NAMESPACEPATH', None, N('HOST', None, 'srv1'), lnsp())


def ipath():
    return N('INSTANCEPATH', None, nsp(), iname())


def lipath():
    return N('LOCALINSTANCEPATH', None, lnsp(), iname())


def cpath():
    return N('CLASSPATH', None, nsp(), cname())


def lcpath():
    return N('LOCALCLASSPATH', None, lnsp(), cname())


def prop(name='Key', typ='string', txt='k1', **extra):
    a = {'NAME': name, 'TYPE': typ}
    a.update(extra)
    return N('PROPERTY', a, V_(txt))


def inst(*members, cls='CIM_Foo'):
    return N('INSTANCE', {'CLASSNAME': cls}, *(members or (prop(), prop('Num', 'uint8', '42'))))


def qual(name='Description', typ='string', *val, **extra):
    a = {'NAME': name, 'TYPE': typ}
    a.update(extra)
    return N('QUALIFIER', a, *(val or (V_('text'),)))


def klass(*members):
    return N('CLASS', {'NAME': 'CIM_Foo', 'SUPERCLASS': 'CIM_Base'},
             *(members or (qual(), N('PROPERTY', {'NAME': 'Key', 'TYPE': 'string'}, qual('Key', 'boolean', V_('true'))))))


def qdecl(name='Q', typ='string', *kids, **extra):
    a = {'NAME': name, 'TYPE': typ}
    a.update(extra)
    return N('QUALIFIER.DECLARATION', a, *kids)


def pv(name, ptype, *kid, **extra):
    a = {'NAME': name}
    if ptype is not None:
        a['PARAMTYPE'] = ptype
    a.update(extra)
    return N('PARAMVALUE', a, *kid)


def envelope(rsptag, name, kids, outer=None):
    outer = outer or ('SIMPLEEXPRSP' if rsptag == 'EXPMETHODRESPONSE' else 'SIMPLERSP')
    return N('CIM', {'CIMVERSION': '2.0', 'DTDVERSION': '2.0'},
             N('MESSAGE', {'ID': '1001', 'PROTOCOLVERSION': '1.0'},
               N(outer, None, N(rsptag, {'NAME': name}, *kids))))


RSP_PATH = (0, 0, 0)        # CIM -> MESSAGE -> SIMPLERSP -> xMETHODRESPONSE


def irv(*kids):
    return N('IRETURNVALUE', None, *kids)


def eos(val):
    return pv('EndOfSequence', 'boolean', V_(val))


def ectx(val='ctx1'):
    return pv('EnumerationContext', 'string', V_(val))


# reply kinds: what can stand below IMETHODRESPONSE (each a list of child builders)
KINDS = {
    'none': lambda: [],
    'empty': lambda: [irv()],
    'namedinstances': lambda: [irv(N('VALUE.NAMEDINSTANCE', None, iname(), inst()),
                                   N('VALUE.NAMEDINSTANCE', None, iname('CIM_Foo', keyb('Key', N('KEYVALUE', None, 'k2'))), inst()))],
    'instancenames': lambda: [irv(iname(), iname('CIM_Bar'))],
    'instance': lambda: [irv(inst())],
    'instances': lambda: [irv(inst(), inst(cls='CIM_Bar'))],
    'objwithpath_inst': lambda: [irv(N('VALUE.OBJECTWITHPATH', None, ipath(), inst()))],
    'objwithpath_class': lambda: [irv(N('VALUE.OBJECTWITHPATH', None, cpath(), klass()))],
    'objwithlocalpath_inst': lambda: [irv(N('VALUE.OBJECTWITHLOCALPATH', None, lipath(), inst()))],
    'objwithlocalpath_class': lambda: [irv(N('VALUE.OBJECTWITHLOCALPATH', None, lcpath(), klass()))],
    'objectpath_inst': lambda: [irv(N('OBJECTPATH', None, ipath()))],
    'objectpath_class': lambda: [irv(N('OBJECTPATH', None, cpath()))],
    'valueobject_inst': lambda: [irv(N('VALUE.OBJECT', None, inst()))],
    'valueobject_class': lambda: [irv(N('VALUE.OBJECT', None, klass()))],
    'classes': lambda: [irv(klass())],
    'classnames': lambda: [irv(cname(), cname('CIM_Bar'))],
    'qualdecls': lambda: [irv(qdecl('Q', 'string', N('SCOPE', {'CLASS': 'true'}), V_('dflt')),
                              qdecl('Key', 'boolean', N('SCOPE', {'PROPERTY': 'true'})))],
    'instwithpath': lambda: [irv(N('VALUE.INSTANCEWITHPATH', None, ipath(), inst()))],
    'instancepaths': lambda: [irv(ipath())],
    'values': lambda: [irv(V_('abc'), V_('de'))],
    'valuearray': lambda: [irv(N('VALUE.ARRAY', None, V_('a'), N('VALUE.NULL')))],
    'valuereference': lambda: [irv(N('VALUE.REFERENCE', None, ipath()))],
    'error': lambda: [N('ERROR', {'CODE': '5', 'DESCRIPTION': 'scripted'})],
    'error_after': lambda: [irv(), N('ERROR', {'CODE': '5'})],
    'two_irv': lambda: [irv(inst()), irv(inst())],
    'pv_only': lambda: [eos('TRUE')],
    'returnvalue': lambda: [N('RETURNVALUE', {'PARAMTYPE': 'uint32'}, V_('0'))],
    # output parameters that carry the name of an element
    'pv_named_irv': lambda: [pv('IRETURNVALUE', None, V_('x'))],
    'pv_named_irv_typed': lambda: [pv('IRETURNVALUE', 'string', N('VALUE.ARRAY', None, V_('x')))],
    'pv_named_error': lambda: [pv('ERROR', 'string', V_('x'))],
    'pv_named_returnvalue': lambda: [pv('RETURNVALUE', 'string', V_('x'))],
}


# ---------------------------------------------------------------------------------------------------------
# documented result types: structural checkers written from the API documentation
# ---------------------------------------------------------------------------------------------------------

TYPE_CLASSES = {'boolean': bool, 'string': str, 'char16': str, 'datetime': CIMDateTime, 'uint8': Uint8, 'sint8': Sint8,
                'uint16': Uint16, 'sint16': Sint16, 'uint32': Uint32, 'sint32': Sint32, 'uint64': Uint64,
                'sint64': Sint64, 'real32': Real32, 'real64': Real64, 'reference': (CIMInstanceName, CIMClassName)}


def ok_iname(x):
    todo = [x]
    while todo:
        x = todo.pop()
        if not isinstance(x, CIMInstanceName) or not isinstance(x.classname, str):
            return False
        if x.namespace is not None and not isinstance(x.namespace, str):
            return False
        if x.host is not None and not isinstance(x.host, str):
            return False
        for k, v in x.keybindings.items():
            if not (k is None or isinstance(k, str)):
                return False
            if isinstance(v, CIMInstanceName):
                todo.append(v)
            elif not isinstance(v, (str, bool, int, float, CIMDateTime, CIMClassName)):
                return False
    return True


def ok_cname(x):
    return isinstance(x, CIMClassName) and isinstance(x.classname, str) and \
        (x.namespace is None or isinstance(x.namespace, str)) and (x.host is None or isinstance(x.host, str))


def ok_typed(v, typ, is_array, embedded, depth=0):
    cls = TYPE_CLASSES.get(typ)
    if cls is None:
        return False
    if v is None:
        return True
    if is_array:
        return isinstance(v, list) and all(ok_typed(x, typ, False, embedded, depth) for x in v)
    if isinstance(v, list):
        return False
    if typ == 'string' and embedded:
        return (isinstance(v, CIMInstance) and ok_inst(v, depth + 1)) or (isinstance(v, CIMClass) and ok_class(v, depth + 1))
    if typ == 'reference':
        return ok_iname(v) or ok_cname(v)
    if cls is not bool and isinstance(v, bool):
        return False
    return isinstance(v, cls)


def ok_quals(qs):
    for q in qs.values():
        if not isinstance(q, CIMQualifier) or not isinstance(q.name, str):
            return False
        if not ok_typed(q.value, q.type, isinstance(q.value, list), False):
            return False
        for f in (q.propagated, q.overridable, q.tosubclass, q.toinstance, q.translatable):
            if f is not None and not isinstance(f, bool):
                return False
    return True


def ok_prop(p, depth=0):
    if not isinstance(p, CIMProperty) or not isinstance(p.name, str) or depth > 20:
        return False
    if not isinstance(p.is_array, bool) or not (p.array_size is None or isinstance(p.array_size, int)):
        return False
    if p.propagated is not None and not isinstance(p.propagated, bool):
        return False
    return ok_typed(p.value, p.type, p.is_array, p.embedded_object, depth) and ok_quals(p.qualifiers)


def ok_inst(x, depth=0, need_path=False):
    if not isinstance(x, CIMInstance) or not isinstance(x.classname, str):
        return False
    if x.path is None:
        if need_path:
            return False
    elif not ok_iname(x.path):
        return False
    return all(ok_prop(p, depth) for p in x.properties.values()) and ok_quals(x.qualifiers)


def ok_param(p):
    return isinstance(p, CIMParameter) and isinstance(p.name, str) and p.type in TYPE_CLASSES and \
        isinstance(p.is_array, bool) and (p.array_size is None or isinstance(p.array_size, int)) and ok_quals(p.qualifiers)


def ok_class(x, depth=0):
    if not isinstance(x, CIMClass) or not isinstance(x.classname, str):
        return False
    if x.path is not None and not ok_cname(x.path):
        return False
    if x.superclass is not None and not isinstance(x.superclass, str):
        return False
    for m in x.methods.values():
        if not isinstance(m, CIMMethod) or m.return_type not in TYPE_CLASSES or not ok_quals(m.qualifiers):
            return False
        if not all(ok_param(p) for p in m.parameters.values()):
            return False
    return all(ok_prop(p, depth) for p in x.properties.values()) and ok_quals(x.qualifiers)


def ok_qdecl(x):
    if not isinstance(x, CIMQualifierDeclaration) or not isinstance(x.name, str) or x.type not in TYPE_CLASSES:
        return False
    if not isinstance(x.is_array, bool) or not (x.array_size is None or isinstance(x.array_size, int)):
        return False
    if not all(isinstance(k, str) and isinstance(v, bool) for k, v in x.scopes.items()):
        return False
    return ok_typed(x.value, x.type, x.is_array, False)


def ok_cimdata(v, depth=0):
    if v is None or isinstance(v, (bool, str, CIMInt, CIMFloat, CIMDateTime)):
        return True
    if isinstance(v, CIMInstanceName):
        return ok_iname(v)
    if isinstance(v, CIMClassName):
        return ok_cname(v)
    if isinstance(v, CIMInstance):
        return ok_inst(v)
    if isinstance(v, CIMClass):
        return ok_class(v)
    if isinstance(v, list) and depth == 0:
        return all(ok_cimdata(x, 1) for x in v)
    return False


WRONG_ITEMS = 'items-of-wrong-class'
NOT_A_LIST = 'items-not-a-list'


def list_of(pred):
    return lambda r: isinstance(r, list) and (all(pred(x) for x in r) or WRONG_ITEMS)


def is_none(r):
    return r is None


def ok_inst_p(x):
    return ok_inst(x, need_path=True)


def ok_classtuple(x):
    return isinstance(x, tuple) and len(x) == 2 and ok_cname(x[0]) and ok_class(x[1])


def ok_invoke(r):
    if not (isinstance(r, tuple) and len(r) == 2 and ok_cimdata(r[0])):
        return False
    try:
        items = list(r[1].items())
    except Exception:
        return False
    return all(isinstance(k, str) and ok_cimdata(v) for k, v in items)


def pull_tuple(field, pred, query=False):
    def chk(r):
        if not isinstance(r, tuple) or not hasattr(r, 'eos') or not hasattr(r, 'context') or not hasattr(r, field):
            return False
        items = getattr(r, field)
        if not isinstance(items, list):
            return NOT_A_LIST
        if not all(pred(x) for x in items):
            return WRONG_ITEMS
        if not isinstance(r.eos, bool):
            return False
        if r.eos:
            if r.context is not None:
                return False
        else:
            c = r.context
            if not (isinstance(c, tuple) and len(c) == 2 and isinstance(c[0], str) and (c[1] is None or isinstance(c[1], str))):
                return False
        if query:
            q = r.query_result_class
            if q is not None and not ok_class(q):
                return False
        return True
    return chk


def ok_iterquery(r):
    items, qrc = r
    if isinstance(items, list) and not all(ok_inst(x) for x in items):
        return WRONG_ITEMS
    return isinstance(items, list) and (qrc is None or ok_class(qrc))


# ---------------------------------------------------------------------------------------------------------
# the operations: arguments, baseline replies per wire method, result checker
# ---------------------------------------------------------------------------------------------------------

def IP():
    return CIMInstanceName('CIM_Foo', {'Key': 'k1'}, namespace=NS)


def INST():
    return CIMInstance('CIM_Foo', {'Key': 'k1', 'Num': Uint8(42)}, path=IP())


CTX = ('ctx1', NS)


class Spec:
    """One operation variant.  plan: wire method -> (rsptag, list-of-children builder); primary: the wire method
    whose reply is varied; pull: value of use_pull_operations for the connection."""

    def __init__(self, key, meth, args, kwargs, primary, kind, check, extra=None, pull=None, params=None,
                 rsptag='IMETHODRESPONSE', wirename=None, base=None):
        self.key, self.meth, self.args, self.kwargs = key, meth, args, kwargs
        self.primary, self.kind, self.check = primary, kind, check
        self.extra = extra or {}        # other wire methods -> children builder
        self.pull = pull
        self.params = params or (lambda: [])    # PARAMVALUEs after the IRETURNVALUE
        self.rsptag = rsptag
        self.wirename = wirename or primary
        self.base = base                # expected value check of the untouched baseline
        self.conn = None

    def children(self, kind=None):
        return KINDS[kind or self.kind]() + self.params()

    def root(self, kind=None, kids=None):
        return envelope(self.rsptag, self.wirename, self.children(kind) if kids is None else kids)


def open_params():
    return [eos('FALSE'), ectx()]


def last_params():
    return [eos('TRUE')]


def good(method, kind, params=None, rsptag='IMETHODRESPONSE'):
    """Reply builder for a secondary wire method."""
    return lambda: envelope(rsptag, method, KINDS[kind]() + (params() if params else []))


def err_reply(method, code):
    return lambda: envelope('IMETHODRESPONSE', method, [N('ERROR', {'CODE': str(code), 'DESCRIPTION': 'not supported'})])


def base_enum_inst(r):
    return len(r) == 2 and r[0].classname == 'CIM_Foo' and r[0]['Key'] == 'k1' and r[0]['Num'] == 42 and \
        r[0].path.namespace == NS and r[0].path.keybindings['Key'] == 'k1' and r[1].path.keybindings['Key'] == 'k2'


def base_get_inst(r):
    return r.classname == 'CIM_Foo' and r['Key'] == 'k1' and r['Num'] == 42 and isinstance(r['Num'], Uint8) and \
        r.path == CIMInstanceName('CIM_Foo', {'Key': 'k1'}, namespace=NS)


def base_names(r):
    return [x.classname for x in r] == ['CIM_Foo', 'CIM_Bar'] and r[0].keybindings['Key'] == 'k1' and r[0].namespace == NS


def base_assoc_inst(r):
    return len(r) == 1 and r[0].path.host == 'srv1' and r[0].path.namespace == NS and r[0]['Num'] == 42


def base_assoc_class(r):
    return len(r) == 1 and r[0][0].classname == 'CIM_Foo' and r[0][0].host == 'srv1' and r[0][1].classname == 'CIM_Foo' \
        and r[0][1].superclass == 'CIM_Base' and r[0][1].qualifiers['Description'].value == 'text'


def base_open_inst(r):
    return len(r.instances) == 1 and r.instances[0]['Key'] == 'k1' and r.eos is False and r.context == ('ctx1', NS)


def base_open_path(r):
    return len(r.paths) == 1 and r.paths[0].keybindings['Key'] == 'k1' and r.paths[0].host == 'srv1' and \
        r.eos is False and r.context == ('ctx1', NS)


def build_specs():
    S = []

    def add(key, meth, args, kwargs, primary, kind, check, **kw):
        S.append(Spec(key, meth, args, kwargs, primary, kind, check, **kw))

    add('EnumerateInstances', 'EnumerateInstances', lambda: ('CIM_Foo',), {}, 'EnumerateInstances', 'namedinstances',
        list_of(ok_inst_p), base=base_enum_inst)
    add('EnumerateInstanceNames', 'EnumerateInstanceNames', lambda: ('CIM_Foo',), {}, 'EnumerateInstanceNames',
        'instancenames', list_of(ok_iname), base=base_names)
    add('GetInstance', 'GetInstance', lambda: (IP(),), {}, 'GetInstance', 'instance', ok_inst_p, base=base_get_inst)
    add('ModifyInstance', 'ModifyInstance', lambda: (INST(),), {}, 'ModifyInstance', 'none', is_none)
    add('CreateInstance', 'CreateInstance', lambda: (INST(),), {}, 'CreateInstance', 'instancenames', ok_iname,
        base=lambda r: r.classname == 'CIM_Foo' and r.namespace == NS and r.keybindings['Key'] == 'k1')
    add('DeleteInstance', 'DeleteInstance', lambda: (IP(),), {}, 'DeleteInstance', 'none', is_none)
    for op in ('Associators', 'References'):
        add(op + '/inst', op, lambda: (IP(),), {}, op, 'objwithpath_inst', list_of(ok_inst), base=base_assoc_inst)
        add(op + '/class', op, lambda: ('CIM_Foo',), {}, op, 'objwithpath_class', list_of(ok_classtuple),
            base=base_assoc_class)
    for op in ('AssociatorNames', 'ReferenceNames'):
        add(op + '/inst', op, lambda: (IP(),), {}, op, 'objectpath_inst', list_of(ok_iname),
            base=lambda r: len(r) == 1 and r[0].host == 'srv1' and r[0].keybindings['Key'] == 'k1')
        add(op + '/class', op, lambda: (CIMClassName('CIM_Foo', namespace=NS),), {}, op, 'objectpath_class',
            list_of(ok_cname), base=lambda r: len(r) == 1 and r[0].classname == 'CIM_Foo' and r[0].namespace == NS)

    def invoke_kids():
        return [N('RETURNVALUE', {'PARAMTYPE': 'uint32'}, V_('7')), pv('Out1', 'string', V_('s')),
                pv('Out2', 'reference', N('VALUE.REFERENCE', None, ipath()))]

    def base_invoke(r):
        return r[0] == 7 and isinstance(r[0], Uint32) and r[1]['out1'] == 's' and r[1]['Out2'].host == 'srv1' and len(r[1]) == 2

    add('InvokeMethod/inst', 'InvokeMethod', lambda: ('M', IP()), {'P1': 'x'}, 'M', 'none', ok_invoke,
        params=invoke_kids, rsptag='METHODRESPONSE', base=base_invoke)
    add('InvokeMethod/class', 'InvokeMethod', lambda: ('M', 'CIM_Foo', [('P1', Uint8(1))]), {}, 'M', 'none', ok_invoke,
        params=invoke_kids, rsptag='METHODRESPONSE', base=base_invoke)
    add('ExecQuery', 'ExecQuery', lambda: ('WQL', 'select * from CIM_Foo'), {}, 'ExecQuery', 'valueobject_inst',
        list_of(ok_inst_p), base=lambda r: len(r) == 1 and r[0]['Num'] == 42 and r[0].path.namespace == NS)

    opens = [('OpenEnumerateInstances', lambda: ('CIM_Foo',), 'instwithpath', 'instances', ok_inst_p, 'PullInstancesWithPath',
              'EnumerateInstances', 'namedinstances', 'IterEnumerateInstances'),
             ('OpenEnumerateInstancePaths', lambda: ('CIM_Foo',), 'instancepaths', 'paths', ok_iname, 'PullInstancePaths',
              'EnumerateInstanceNames', 'instancenames', 'IterEnumerateInstancePaths'),
             ('OpenAssociatorInstances', lambda: (IP(),), 'instwithpath', 'instances', ok_inst, 'PullInstancesWithPath',
              'Associators', 'objwithpath_inst', 'IterAssociatorInstances'),
             ('OpenAssociatorInstancePaths', lambda: (IP(),), 'instancepaths', 'paths', ok_iname, 'PullInstancePaths',
              'AssociatorNames', 'objectpath_inst', 'IterAssociatorInstancePaths'),
             ('OpenReferenceInstances', lambda: (IP(),), 'instwithpath', 'instances', ok_inst, 'PullInstancesWithPath',
              'References', 'objwithpath_inst', 'IterReferenceInstances'),
             ('OpenReferenceInstancePaths', lambda: (IP(),), 'instancepaths', 'paths', ok_iname, 'PullInstancePaths',
              'ReferenceNames', 'objectpath_inst', 'IterReferenceInstancePaths')]
    for (op, args, kind, field, pred, pullop, enumop, enumkind, iterop) in opens:
        add(op, op, args, {'MaxObjectCount': 10}, op, kind, pull_tuple(field, pred), params=open_params,
            base=base_open_inst if field == 'instances' else base_open_path)
        close = {'CloseEnumeration': good('CloseEnumeration', 'none')}
        add(iterop + '/open', iterop, args, {'MaxObjectCount': 10}, op, kind, list_of(pred), params=open_params,
            extra=dict(close, **{pullop: good(pullop, kind, last_params)}), pull=True,
            base=lambda r: len(r) == 2)
        add(iterop + '/pull', iterop, args, {'MaxObjectCount': 10}, pullop, kind, list_of(pred), params=last_params,
            extra=dict(close, **{op: good(op, kind, open_params)}), pull=None, base=lambda r: len(r) == 2)
        add(iterop + '/fallback', iterop, args, {}, enumop, enumkind, list_of(pred),
            extra={op: err_reply(op, 7)}, pull=None, base=lambda r: len(r) >= 1)

    def qrc():
        return [eos('FALSE'), ectx(), pv('QueryResultClass', None, klass())]

    add('OpenQueryInstances', 'OpenQueryInstances', lambda: ('WQL', 'select'), {'ReturnQueryResultClass': True,
        'MaxObjectCount': 10}, 'OpenQueryInstances', 'instances', pull_tuple('instances', ok_inst, query=True), params=qrc,
        base=lambda r: len(r.instances) == 2 and r.query_result_class.classname == 'CIM_Foo' and r.context == ('ctx1', NS))
    close = {'CloseEnumeration': good('CloseEnumeration', 'none')}
    add('IterQueryInstances/open', 'IterQueryInstances', lambda: ('WQL', 'select'), {'ReturnQueryResultClass': True,
        'MaxObjectCount': 10}, 'OpenQueryInstances', 'instances', ok_iterquery, params=qrc, pull=True,
        extra=dict(close, PullInstances=good('PullInstances', 'instances', last_params)),
        base=lambda r: len(r[0]) == 4 and r[1].classname == 'CIM_Foo')
    add('IterQueryInstances/pull', 'IterQueryInstances', lambda: ('WQL', 'select'), {'MaxObjectCount': 10},
        'PullInstances', 'instances', ok_iterquery, params=last_params, pull=None,
        extra=dict(close, OpenQueryInstances=good('OpenQueryInstances', 'instances', open_params)),
        base=lambda r: len(r[0]) == 4 and r[1] is None)
    add('IterQueryInstances/fallback', 'IterQueryInstances', lambda: ('WQL', 'select'), {}, 'ExecQuery',
        'valueobject_inst', ok_iterquery, pull=None, extra={'OpenQueryInstances': err_reply('OpenQueryInstances', 7)},
        base=lambda r: len(r[0]) == 1 and r[1] is None)

    add('PullInstancesWithPath', 'PullInstancesWithPath', lambda: (CTX, 10), {}, 'PullInstancesWithPath', 'instwithpath',
        pull_tuple('instances', ok_inst_p), params=open_params, base=base_open_inst)
    add('PullInstancePaths', 'PullInstancePaths', lambda: (CTX, 10), {}, 'PullInstancePaths', 'instancepaths',
        pull_tuple('paths', ok_iname), params=open_params, base=base_open_path)
    add('PullInstances', 'PullInstances', lambda: (CTX, 10), {}, 'PullInstances', 'instances',
        pull_tuple('instances', ok_inst), params=last_params,
        base=lambda r: len(r.instances) == 2 and r.eos is True and r.context is None)
    add('CloseEnumeration', 'CloseEnumeration', lambda: (CTX,), {}, 'CloseEnumeration', 'none', is_none)

    add('EnumerateClasses', 'EnumerateClasses', lambda: (), {}, 'EnumerateClasses', 'classes', list_of(ok_class),
        base=lambda r: len(r) == 1 and r[0].classname == 'CIM_Foo' and r[0].path.namespace == NS and
        r[0].properties['Key'].qualifiers['Key'].value is True)
    add('EnumerateClassNames', 'EnumerateClassNames', lambda: (), {}, 'EnumerateClassNames', 'classnames',
        list_of(lambda x: isinstance(x, str)), base=lambda r: r == ['CIM_Foo', 'CIM_Bar'])
    add('GetClass', 'GetClass', lambda: ('CIM_Foo',), {}, 'GetClass', 'classes', ok_class,
        base=lambda r: r.classname == 'CIM_Foo' and r.superclass == 'CIM_Base' and r.path.namespace == NS)
    add('ModifyClass', 'ModifyClass', lambda: (CIMClass('CIM_Foo'),), {}, 'ModifyClass', 'none', is_none)
    add('CreateClass', 'CreateClass', lambda: (CIMClass('CIM_Foo'),), {}, 'CreateClass', 'none', is_none)
    add('DeleteClass', 'DeleteClass', lambda: ('CIM_Foo',), {}, 'DeleteClass', 'none', is_none)
    add('EnumerateQualifiers', 'EnumerateQualifiers', lambda: (), {}, 'EnumerateQualifiers', 'qualdecls',
        list_of(ok_qdecl), base=lambda r: [q.name for q in r] == ['Q', 'Key'] and r[0].value == 'dflt' and
        r[0].scopes['CLASS'] is True and r[1].type == 'boolean')
    add('GetQualifier', 'GetQualifier', lambda: ('Q',), {}, 'GetQualifier', 'qualdecls', ok_qdecl,
        base=lambda r: r.name == 'Q' and r.type == 'string' and r.value == 'dflt')
    add('SetQualifier', 'SetQualifier', lambda: (CIMQualifierDeclaration('Q', 'string'),), {}, 'SetQualifier', 'none', is_none)
    add('DeleteQualifier', 'DeleteQualifier', lambda: ('Q',), {}, 'DeleteQualifier', 'none', is_none)
    add('ExportIndication', 'ExportIndication', lambda: (INST(),), {}, 'ExportIndication', 'none', is_none,
        rsptag='EXPMETHODRESPONSE')
    return S


SPECS = build_specs()
SPEC = {s.key: s for s in SPECS}
PUBLIC_OPS = sorted(n for n, f in inspect.getmembers(WBEMConnection, inspect.isfunction) if n[0].isupper())


# ---------------------------------------------------------------------------------------------------------
# scripted transport adapter
# ---------------------------------------------------------------------------------------------------------

XML_CT = 'application/xml; charset="utf-8"'


class Reply:
    __slots__ = ('status', 'reason', 'headers', 'body', 'raises')

    def __init__(self, body=b'', status=200, reason='OK', headers=None, raises=None):
        self.body, self.status, self.reason, self.raises = body, status, reason, raises
        self.headers = {'Content-type': XML_CT} if headers is None else headers


class FakeRaw:
    version = 11

    def close(self):
        pass

    def release_conn(self):
        pass


class Script(BaseAdapter):
    def __init__(self):
        super().__init__()
        self.first = {}     # wire method -> Reply served the first time only
        self.plan = {}      # wire method -> Reply afterwards / otherwise
        self.log = []

    def close(self):
        pass

    def set(self, first, plan):
        self.first, self.plan, self.log = dict(first), plan, []

    def send(self, request, **kwargs):
        h = request.headers
        method = h.get('CIMMethod') or h.get('CIMExportMethod') or '?'
        if isinstance(method, bytes):
            method = method.decode('latin-1')
        if len(self.log) > 60:
            raise Hang('more than 60 requests in one operation call')
        rep = self.first.pop(method, None) or self.plan.get(method)
        if rep is None:
            rep = Reply(doc(envelope('IMETHODRESPONSE', method, [])))
        self.log.append((method, request.body, rep))
        if rep.raises is not None:
            raise rep.raises
        resp = requests.Response()
        resp.status_code = rep.status
        resp.reason = rep.reason
        resp.url = request.url
        resp.request = request
        resp.raw = FakeRaw()
        for k, v in rep.headers.items():
            resp.headers[k] = v
        resp._content = rep.body
        resp._content_consumed = True
        return resp


class Hang(BaseException):
    pass


def _on_alarm(signum, frame):
    raise Hang('watchdog: operation did not return within the time limit')


signal.signal(signal.SIGALRM, _on_alarm)
WATCHDOG_S = 40 * float(os.environ.get('PYVC_BOUNDED_SLOW', '1'))     # confirmation run: x4 (runner)

AD = Script()
ALL_CONNS = []


def make_conn(pull=None, stats=False, url='http://127.0.0.1:5988', timeout=None, adapter=AD):
    conn = WBEMConnection(url, ('user', 'pw'), default_namespace=NS, use_pull_operations=pull, stats_enabled=stats,
                          timeout=timeout)
    conn.session.trust_env = False      # no proxy/netrc lookups from the environment of the test run
    if adapter is not None:
        conn.session.mount('http://', adapter)
        conn.session.mount('https://', adapter)
    ALL_CONNS.append(conn)
    return conn


def spec_conn(spec):
    if spec.pull is None and spec.meth.startswith('Iter'):
        # pull support undetermined: the sticky decision must start fresh for every case
        if spec.conn is not None:
            ALL_CONNS.remove(spec.conn)
            spec.conn.close()
        spec.conn = make_conn(None)
    elif spec.conn is None:
        spec.conn = make_conn(spec.pull)
    return spec.conn


def drain(result):
    gen = getattr(result, 'generator', None)
    if gen is not None:
        return (list(gen), result.query_result_class)
    if inspect.isgenerator(result):
        return list(result)
    return result


# ---------------------------------------------------------------------------------------------------------
# classification of outcomes, violation ids
# ---------------------------------------------------------------------------------------------------------

DOCUMENTED = (pywbem.CIMError, pywbem.CIMXMLParseError, pywbem.XMLParseError, pywbem.HeaderParseError,
              pywbem.VersionError, pywbem.HTTPError, pywbem.AuthError, pywbem.ConnectionError, pywbem.TimeoutError)
RESPONSE_PATH_FILES = ('_cim_operations.py', '_tupleparse.py', '_tupletree.py', '_cim_http.py')

VIOL = {}
STATS = {'ret': 0, 'err': 0, 'esc': 0}


def _short(v, n=6000):
    if isinstance(v, bytes):
        s = repr(v)
    else:
        s = v if isinstance(v, str) else repr(v)
        s = s.encode('ascii', 'backslashreplace').decode('ascii')
    return s if len(s) <= n else s[:n] + '...[%d more]' % (len(s) - n)


def V(vid, **detail):
    if vid not in VIOL:
        VIOL[vid] = {k: (v if isinstance(v, (int, bool, type(None))) else _short(v)) for k, v in detail.items()}


def escape_site(exc):
    """(site, via): site = function of the innermost frame in the response path (the code that let the exception
    through), via = function of the innermost frame overall (where it was raised)."""
    tb = traceback.extract_tb(exc.__traceback__)
    site = None
    for f in tb:
        fn = f.filename.replace('\\', '/')
        if '/pywbem/' in fn and fn.rsplit('/', 1)[-1] in RESPONSE_PATH_FILES:
            site = f.name
    if site is None:
        for f in tb:
            if '/pywbem/' in f.filename.replace('\\', '/'):
                site = f.name
    return site or '?', (tb[-1].name if tb else '?')


INT_MSG = r'invalid literal for int\(\)|Exceeds the limit \(\d+ digits\) for integer string conversion'
CALLS = r'^(_imethodcall|_methodcall|_iexportcall)$'
CIMVALUE_VIA = r'^(cimvalue|cimtype|type_from_name|__new__|__init__|from_wbem_uri|_ensure_unicode|_kbstr_to_cimval|<listcomp>)$'
WRONG_CHILD = (r"object is not subscriptable|object has no attribute|index out of range|cannot unpack|values to unpack|"
               r"^$|is not iterable")
# Defects reproduced on the unchanged tree: (exception, site regex, via regex, message regex, known id).
# {site} in the id is replaced by the site.  Anything that does not match exactly one row gets a fresh,
# non-'known:' id made of exception class, site and normalized message.
KNOWN_ESCAPES = [
    ('ValueError', CALLS, CALLS, INT_MSG, 'ERROR-CODE-not-an-integer-ValueError-in-{site}'),
    ('TypeError', CALLS, CALLS, r"object is not subscriptable|string indices must be", 'PARAMVALUE-named-like-an-element-TypeError-in-{site}'),
    ('KeyError', r'^_methodcall$', r'^_methodcall$', r'PARAMTYPE', 'RETURNVALUE-without-PARAMTYPE-KeyError-in-_methodcall'),
    ('ValueError', r'^_methodcall$', CIMVALUE_VIA, r'.', 'cimvalue-of-output-parameter-unguarded-ValueError-in-_methodcall'),
    ('TypeError', r'^_methodcall$', CIMVALUE_VIA, r'.', 'cimvalue-of-output-parameter-unguarded-TypeError-in-_methodcall'),
    ('ValueError', r'^parse_(property_array|parameter_array|parameter_refarray|qualifier_declaration)$', r'^parse_', INT_MSG,
     'ARRAYSIZE-not-an-integer-ValueError-in-{site}'),
    ('AttributeError', r'^EnumerateInstances$', r'^EnumerateInstances$', r"'NoneType' object has no attribute 'namespace'",
     'EnumerateInstances-instance-without-path-AttributeError'),
    ('AttributeError', r'^(ExecQuery|_get_returned_objects|_get_returned_objectnames)$', r'.', WRONG_CHILD, 'unexpected-IRETURNVALUE-child-AttributeError-in-{site}'),
    ('IndexError', r'^(ExecQuery|_get_returned_objects|_get_returned_objectnames)$', r'.', WRONG_CHILD, 'unexpected-IRETURNVALUE-child-IndexError-in-{site}'),
    ('TypeError', r'^(ExecQuery|_get_returned_objects|_get_returned_objectnames)$', r'.', WRONG_CHILD, 'unexpected-IRETURNVALUE-child-TypeError-in-{site}'),
    ('ValueError', r'^_get_returned_objects$', r'.', WRONG_CHILD, 'unexpected-IRETURNVALUE-child-ValueError-in-{site}'),
    ('AssertionError', r'^ExecQuery$', r'^path$', r'^$', 'unexpected-IRETURNVALUE-child-AssertionError-in-{site}'),
    ('AttributeError', r'^IterQueryInstances$', r'^IterQueryInstances$', r"'str' object has no attribute 'extend'",
     'PARAMVALUE-named-IRETURNVALUE-AttributeError-in-IterQueryInstances'),
    ('TypeError', r'^_get_rslt_params$', r'^_get_rslt_params$', r"'NoneType' object is not iterable", 'open-pull-empty-IMETHODRESPONSE-TypeError-in-_get_rslt_params'),
    ('LookupError', r'^xml_to_tupletree_sax$', r'.', r'unknown encoding', 'xml-declaration-unknown-encoding-LookupError'),
    ('ValueError', r'^xml_to_tupletree_sax$', r'.', r'multi-byte encodings are not supported', 'xml-declaration-multibyte-encoding-ValueError'),
    ('TypeError', r'^xml_to_tupletree_sax$', r'.', r'a bytes-like object is required', 'EmbeddedObject-attribute-on-non-string-child-TypeError'),
    ('ValueError', r'^wbem_request$', r'.', r'Invalid IPv6 URL', 'redirect-Location-invalid-url-ValueError'),
    ('UnicodeDecodeError', r'^wbem_request$', r'.', r"'utf-8' codec can't decode", 'redirect-Location-not-utf8-UnicodeDecodeError'),
    ('TypeError', r'.', r'^stop_timer$', r"unsupported operand type\(s\) for \+=: 'float' and 'str'", 'WBEMServerResponseTime-not-a-number-TypeError-in-statistics'),
    ('RecursionError', r'.', r'.', r'maximum recursion depth', 'deeply-nested-reply-RecursionError'),
]


def norm_msg(msg):
    msg = re.sub(r"'[^']*'", "'..'", msg)
    msg = re.sub(r'"[^"]*"', '".."', msg)
    msg = re.sub(r'\d+', 'N', msg)
    return re.sub(r'[^A-Za-z.]+', '-', msg)[:60].strip('-')


def escape_id(exc):
    name, (site, via), msg = type(exc).__name__, escape_site(exc), str(exc)
    hits = [kid for (n, s, v, rx, kid) in KNOWN_ESCAPES
            if n == name and re.search(s, site) and re.search(v, via) and re.search(rx, msg)]
    if len(hits) == 1:
        return 'known:' + hits[0].replace('{site}', site)
    return 'escape-%s-in-%s-via-%s-%s' % (name, site, via, norm_msg(msg))


def describe(spec, first, plan):
    d = {'operation': spec.meth, 'variant': spec.key,
         'call': 'conn.%s(*%s, **%s)  # use_pull_operations=%r' % (spec.meth, _short(spec.args(), 300), _short(spec.kwargs, 300), spec.pull)}
    replies = dict(plan)
    replies.update(first)
    for m, rep in sorted(replies.items()):
        tag = 'reply[%s]%s' % (m, '(first request only)' if m in first and m in plan else '')
        if rep.raises is not None:
            d[tag] = 'adapter raises ' + repr(rep.raises)
        else:
            d[tag] = 'HTTP %s %s; headers=%r; body=%s' % (rep.status, rep.reason, rep.headers, _short(rep.body, 5000))
    return d


def run_call(spec, first, plan):
    """-> ('ret', value) | ('err', pywbem.Error) | ('esc', Exception) | ('hang', msg)"""
    conn = spec_conn(spec)
    AD.set(first, plan)
    signal.setitimer(signal.ITIMER_REAL, WATCHDOG_S)
    try:
        try:
            return 'ret', drain(getattr(conn, spec.meth)(*spec.args(), **spec.kwargs))
        finally:
            signal.setitimer(signal.ITIMER_REAL, 0)
    except pywbem.Error as e:
        return 'err', e
    except Hang as e:
        return 'hang', e
    except Exception as e:          # includes AssertionError, RecursionError
        return 'esc', e


PLAN_CACHE = {}


def plan_for(spec, primary_reply):
    plan = PLAN_CACHE.get(spec.key)
    if plan is None:
        plan = {m: Reply(doc(b())) for m, b in spec.extra.items()}
        plan[spec.primary] = Reply(doc(spec.root()))
        PLAN_CACHE[spec.key] = plan
    plan = dict(plan)
    first = {spec.primary: primary_reply} if primary_reply is not None else {}
    return first, plan


NCASE = [0]


def case(spec, key, reply, expect=None, why='', all_replies=None):
    """Run one scripted case and judge it.  expect: None | 'return' | exception class | (class, checker)."""
    R.case((spec.key,) + tuple(key))
    NCASE[0] += 1
    first, plan = plan_for(spec, reply)
    if all_replies is not None:         # the same reply for every wire method
        first, plan = {}, {m: all_replies for m in list(plan) + ['CloseEnumeration']}
    kind, val = run_call(spec, first, plan)
    STATS[kind if kind in STATS else 'esc'] += 1
    log = list(AD.log)

    def viol(vid):
        V(vid, case=repr(key), outcome=('%s: %s' % (type(val).__name__, _short(str(val), 300)) if kind != 'ret' else 'returned ' + _short(val, 300)),
          expected=why or None, **describe(spec, first, plan))

    if kind == 'hang':
        viol('no-termination')
        spec.conn = None
        return kind, val
    if kind == 'esc':
        viol(escape_id(val))
    elif kind == 'err':
        if not isinstance(val, DOCUMENTED):
            viol('undocumented-error-class-' + type(val).__name__)
        try:
            str(val), repr(val)
        except Exception as e:
            viol('error-str-raises-' + type(e).__name__)
        if isinstance(val, (pywbem.CIMXMLParseError, pywbem.XMLParseError)):
            check_parse_error_data(val, log, viol)
    else:
        try:
            ok = spec.check(val)
        except Exception as e:
            viol('result-checker-crashed-' + type(e).__name__)
            ok = True
        if ok is not True:
            if ok == WRONG_ITEMS and spec.meth.startswith(('Open', 'Pull', 'Iter')) and not spec.key.endswith('/fallback'):
                # reproduced on the unchanged tree: _get_rslt_params hands back whatever IRETURNVALUE held
                viol('known:open-pull-result-objects-of-wrong-class-not-rejected')
            elif ok == NOT_A_LIST and spec.meth.startswith(('Open', 'Pull')) and isinstance(val[0], str):
                # reproduced on the unchanged tree: <PARAMVALUE NAME="IRETURNVALUE"> is taken for the IRETURNVALUE element
                viol('known:open-pull-PARAMVALUE-named-IRETURNVALUE-returned-as-the-result-objects')
            else:
                viol('wrong-result-type-%s-%s' % (spec.meth, ok or 'shape'))
    # outcome reference model
    if expect is not None and kind != 'esc':
        if expect == 'return':
            if kind != 'ret':
                viol('valid-reply-rejected-' + type(val).__name__)
        else:
            cls, chk = expect, None
            if isinstance(expect, tuple) and not isinstance(expect[1], type):
                cls, chk = expect
            cname_ = '-or-'.join(c.__name__ for c in cls) if isinstance(cls, tuple) else cls.__name__
            if kind == 'ret':
                viol('bad-reply-accepted-expected-' + cname_)
            elif not isinstance(val, cls):
                viol('wrong-error-class-%s-expected-%s' % (type(val).__name__, cname_))
            elif chk is not None and not chk(val):
                viol('error-details-wrong-' + cls.__name__)
    # the connection must stay usable (checked on a sample to keep the cost down)
    if kind != 'ret' and NCASE[0] % 40 == 0 and not (spec.pull is None and spec.meth.startswith('Iter')):
        first2, plan2 = plan_for(spec, None)
        k2, v2 = run_call(spec, first2, plan2)
        if k2 != 'ret':
            V('connection-unusable-after-failure', first_failure=_short(str(val), 300), then=_short(str(v2), 300),
              **describe(spec, first, plan))
    return kind, val


def check_parse_error_data(exc, log, viol):
    """Parse errors expose the request and the response: compare with what the adapter saw and sent."""
    if not log:
        return
    req, rsp = exc.request_data, exc.response_data
    if req is None or rsp is None:
        viol('parse-error-without-request-or-response-data')
        return
    sent = [(m, b if isinstance(b, bytes) else (b or '').encode('utf-8'), rep) for m, b, rep in log]
    rb = rsp if isinstance(rsp, bytes) else str(rsp).encode('utf-8', 'surrogateescape')
    qb = req if isinstance(req, bytes) else str(req).encode('utf-8', 'surrogateescape')
    if not any(rb == rep.body and qb and qb in body for m, body, rep in sent if rep.raises is None):
        viol('parse-error-data-not-the-exchanged-data')


# ---------------------------------------------------------------------------------------------------------
# reference model of the outcome (HTTP level, XML level, CIM-XML envelope)
# ---------------------------------------------------------------------------------------------------------

LX = etree.XMLParser(resolve_entities=False, no_network=True, huge_tree=False, load_dtd=False)


def wellformed(body):
    try:
        etree.fromstring(body, LX)
        return True
    except etree.XMLSyntaxError:
        return False
    except ValueError:
        return False


def blank(n):
    return all(isinstance(k, N) or k.strip(' \t\n') == '' for k in n.kids)


MESSAGE_KIDS = ('SIMPLEREQ', 'MULTIREQ', 'SIMPLERSP', 'MULTIRSP', 'SIMPLEEXPREQ', 'MULTIEXPREQ', 'SIMPLEEXPRSP',
                'MULTIEXPRSP')


def envelope_model(root, spec):
    """Expected outcome of a reply whose deviation (if any) is at or above xMETHODRESPONSE level.
    -> exception class | (CIMError, checker) | None when the envelope is intact."""
    P = pywbem.CIMXMLParseError
    outer = 'SIMPLEEXPRSP' if spec.rsptag == 'EXPMETHODRESPONSE' else 'SIMPLERSP'
    if root.tag != 'CIM' or set(root.attrs) != {'CIMVERSION', 'DTDVERSION'} or not blank(root):
        return P
    if not root.attrs['CIMVERSION'].startswith('2.'):
        return pywbem.CIMVersionError
    if not root.attrs['DTDVERSION'].startswith('2.'):
        return pywbem.DTDVersionError
    k = ekids(root)
    if len(k) != 1 or k[0].tag != 'MESSAGE':
        return P
    msg = k[0]
    if set(msg.attrs) != {'ID', 'PROTOCOLVERSION'} or not blank(msg):
        return P
    if not msg.attrs['PROTOCOLVERSION'].startswith('1.'):
        return pywbem.ProtocolVersionError
    k = ekids(msg)
    if len(k) != 1 or k[0].tag != outer:
        return P
    srsp = k[0]
    if srsp.attrs or not blank(srsp):
        return P
    k = ekids(srsp)
    if len(k) != 1 or k[0].tag != spec.rsptag:
        return P
    rsp = k[0]
    if set(rsp.attrs) != {'NAME'} or not blank(rsp):
        return P
    allowed = {'IMETHODRESPONSE': ('ERROR', 'IRETURNVALUE', 'PARAMVALUE'), 'METHODRESPONSE': ('ERROR', 'RETURNVALUE', 'PARAMVALUE'),
               'EXPMETHODRESPONSE': ('ERROR', 'IRETURNVALUE')}[spec.rsptag]
    k = ekids(rsp)
    if any(x.tag not in allowed for x in k):
        return P
    return None


def error_model(err):
    """ERROR element as first child -> CIMError with that code and description (None: model does not apply)."""
    if set(err.attrs) - {'CODE', 'DESCRIPTION'} or 'CODE' not in err.attrs or err.kids:
        return None
    if not re.fullmatch(r'[0-9]{1,6}', err.attrs['CODE']):
        return None
    code, desc = int(err.attrs['CODE']), err.attrs.get('DESCRIPTION')

    def chk(e):
        return e.status_code == code and (not desc or e.status_description == desc) and e.request_data is not None
    return (pywbem.CIMError, chk)


# ---------------------------------------------------------------------------------------------------------
# mutation grammar
# ---------------------------------------------------------------------------------------------------------

BIGINT = '9' * 4400          # beyond the int() digit limit of the interpreter
NUM_POOL = ['', ' ', 'x', 'INF', '-INF', 'NaN', '1e400', '-1e400', '0', '-1', '256', '-129', '65536', '4294967296',
            '18446744073709551616', '-9223372036854775809', '0x1G', '0xFF', '1.5', ' 7 ', 'true', 'FALSE', BIGINT,
            '٣', '1_0', '20240101120000.000000+000', '00000001000000.000000:000', '99999999999999.999999+999',
            '\U0001F600', 'ab', '<INSTANCE CLASSNAME="C"/>', '<BAD', '<VALUE>x</VALUE>', '&']
NUM_POOL_Q = NUM_POOL[:8] + ['-1', '256', '18446744073709551616', '0x1G', '1.5', 'true', BIGINT, '\U0001F600', 'ab',
                             '<INSTANCE CLASSNAME="C"/>', '<BAD', '00000001000000.000000:000']
TYPE_POOL = ['', 'x', 'boolean', 'string', 'char16', 'datetime', 'uint8', 'sint64', 'real32', 'reference', 'STRING',
             'uint', 'object', 'instance'] + (['uint16', 'sint8', 'sint16', 'uint32', 'sint32', 'uint64', 'real64', ' uint8']
                                              if THOROUGH else [])
BOOL_POOL = ['', 'x', 'TRUE', 'false', ' true ', '1', 'INF']
NAME_POOL = ['', ' ', 'x', '\U0001F600'] + (['ERROR', 'IRETURNVALUE', 'a' * 300] if THOROUGH else [])
EMB_POOL = ['instance', 'object', '', 'x', 'INSTANCE']
VT_POOL = ['string', 'boolean', 'numeric', '', 'x']
VER_POOL = ['', 'x', '2', '2.', '1.0', '3.0', '2.x', ' 2.0', '20', 'INF']
BOOL_ATTRS = {'PROPAGATED', 'OVERRIDABLE', 'TOSUBCLASS', 'TOINSTANCE', 'TRANSLATABLE', 'ISARRAY', 'CLASS', 'ASSOCIATION',
              'REFERENCE', 'PROPERTY', 'METHOD', 'PARAMETER', 'INDICATION'}


def attr_pool(tag, attr):
    if attr in ('TYPE', 'PARAMTYPE'):
        return TYPE_POOL
    if attr in BOOL_ATTRS:
        return BOOL_POOL
    if attr in ('ARRAYSIZE', 'CODE'):
        return NUM_POOL if THOROUGH else NUM_POOL_Q
    if attr in ('EmbeddedObject', 'EMBEDDEDOBJECT'):
        return EMB_POOL
    if attr == 'VALUETYPE':
        return VT_POOL
    if attr in ('CIMVERSION', 'DTDVERSION', 'PROTOCOLVERSION'):
        return VER_POOL
    return NAME_POOL


SNIPPETS = {
    'VALUE.NULL': lambda: N('VALUE.NULL'),
    'VALUE': lambda: V_('x'),
    'INSTANCE': lambda: N('INSTANCE', {'CLASSNAME': 'C'}),
    'CLASSNAME': lambda: cname('C'),
    'PV-ERROR': lambda: N('PARAMVALUE', {'NAME': 'ERROR'}),
    'BOGUS': lambda: N('BOGUS'),
    'VALUE.ARRAY': lambda: N('VALUE.ARRAY', None, N('VALUE.NULL'), V_('1')),
    'INSTANCENAME': lambda: N('INSTANCENAME', {'CLASSNAME': 'C'}),
    'CLASS': lambda: N('CLASS', {'NAME': 'C'}),
    'ERROR': lambda: N('ERROR', {'CODE': 'x'}),
    'PV-IRV': lambda: N('PARAMVALUE', {'NAME': 'IRETURNVALUE'}, V_('x')),
    'PV-RV': lambda: N('PARAMVALUE', {'NAME': 'RETURNVALUE'}, V_('x')),
    'QUALIFIER': lambda: qual('Q', 'boolean', V_('true')),
    'VALUE.REFERENCE': lambda: N('VALUE.REFERENCE', None, cname('C')),
    'KEYVALUE': lambda: N('KEYVALUE', None, 'x'),
    'IRETURNVALUE': lambda: irv(V_('x')),
    'PROPERTY': lambda: prop('P', 'uint8', 'INF'),
}
SNIP_Q = ['VALUE.NULL', 'VALUE', 'INSTANCE', 'CLASSNAME', 'PV-ERROR', 'BOGUS']
SNIP_REPL = list(SNIPPETS) if THOROUGH else ['VALUE.NULL', 'INSTANCE', 'CLASSNAME', 'BOGUS']
SNIP_INS = list(SNIPPETS) if THOROUGH else ['VALUE', 'VALUE.NULL', 'PV-ERROR']
RENAMES = ['VALUE', 'VALUE.NULL', 'INSTANCE', 'BOGUS'] + (['VALUE.ARRAY', 'CLASS', 'INSTANCENAME', 'PROPERTY', 'ERROR',
                                                            'IRETURNVALUE', 'PARAMVALUE', 'value', 'ANY', 'CHECK_NODE']
                                                           if THOROUGH else [])
EXTRA_ATTRS = [('BOGUS', 'x'), ('TYPE', 'uint8'), ('EmbeddedObject', 'instance')] + \
    ([('PARAMTYPE', 'x'), ('ARRAYSIZE', 'x'), ('NAME', 'n'), ('xml:lang', 'en'), ('EMBEDDEDOBJECT', 'object'),
      ('VALUETYPE', 'numeric')] if THOROUGH else [])


def gen_mutations(root, start=(), maxdepth=99, text_pool=None, mode='full'):
    """Yield mutation tuples (kind, path, arg...) for the subtree at `start`, down to maxdepth levels below it.
    mode 'full': everything; 'struct': element/attribute deletion, duplication, emptying, one rename, stray text;
    'light': only the text values (for fragments that differ from a fully treated one just by the CIM type)."""
    text_pool = text_pool or (NUM_POOL if THOROUGH else NUM_POOL_Q)
    full = mode == 'full'
    for path, node in walk(at(root, start), start):
        if len(path) - len(start) > maxdepth:
            continue
        if isinstance(node, str):
            if mode != 'struct':
                for v in text_pool:
                    if v != node:
                        yield ('text', path, v)
            continue
        if mode == 'light':
            continue
        if path:
            yield ('del', path)
            yield ('dup', path)
            for s in SNIP_REPL if full else ('VALUE.NULL',):
                yield ('repl', path, s)
        for t in RENAMES if full else ('BOGUS',):
            if t != node.tag:
                yield ('ren', path, t)
        if node.kids:
            yield ('empty', path)
        if not any(isinstance(k, str) for k in node.kids):
            yield ('addtext', path, 'x')
        if full:
            for s in SNIP_INS:
                yield ('ins', path, s)
            if THOROUGH and node.kids:
                for s in SNIP_Q:
                    yield ('app', path, s)
        for a in list(node.attrs):
            yield ('adel', path, a)
            if full:
                for v in attr_pool(node.tag, a):
                    if v != node.attrs[a]:
                        yield ('aset', path, a, v)
        if full:
            for a, v in EXTRA_ATTRS:
                if a not in node.attrs:
                    yield ('aadd', path, a, v)


def apply_mut(root, mut):
    root = root.copy()
    kind, path = mut[0], mut[1]
    node = at(root, path)
    parent = at(root, path[:-1]) if path else None
    if kind == 'text':
        parent.kids[path[-1]] = mut[2]
    elif kind == 'del':
        del parent.kids[path[-1]]
    elif kind == 'dup':
        parent.kids.insert(path[-1], node.copy())
    elif kind == 'repl':
        parent.kids[path[-1]] = SNIPPETS[mut[2]]()
    elif kind == 'ren':
        node.tag = mut[2]
    elif kind == 'empty':
        node.kids = []
    elif kind == 'addtext':
        node.kids.append(mut[2])
    elif kind == 'ins':
        node.kids.insert(0, SNIPPETS[mut[2]]())
    elif kind == 'app':
        node.kids.append(SNIPPETS[mut[2]]())
    elif kind == 'adel':
        del node.attrs[mut[2]]
    elif kind in ('aset', 'aadd'):
        node.attrs[mut[2]] = mut[3]
    else:
        raise AssertionError(kind)
    return root


def mut_key(root, mut):
    arg = tuple('BIGINT' if a == BIGINT else a for a in mut[2:])
    return (mut[0], tagpath(root, mut[1])) + arg


def run_mutations(spec, root, muts, tag, model=False):
    for mut in muts:
        m = apply_mut(root, mut)
        expect, why = None, ''
        if model:
            expect = envelope_model(m, spec)
            why = 'envelope model (DSP0200/DSP0201 structure, versions)'
            if expect is None:
                rsp = at(m, RSP_PATH) if len(ekids(m)) == 1 else None
                if rsp is not None and rsp.attrs.get('NAME') != spec.wirename:
                    expect = pywbem.CIMXMLParseError
        case(spec, (tag,) + mut_key(root, mut), Reply(doc(m)), expect, why)


# ---------------------------------------------------------------------------------------------------------
# sections
# ---------------------------------------------------------------------------------------------------------

def sec_baselines():
    """Untouched replies: every variant returns the hand-specified value; every public operation is covered."""
    covered = set()
    for spec in SPECS:
        covered.add(spec.meth)
        kind, val = case(spec, ('baseline',), None, 'return', 'valid, DTD-conformant reply')
        if kind == 'ret' and spec.base is not None:
            try:
                ok = bool(spec.base(val))
            except Exception:
                ok = False
            if not ok:
                first, plan = plan_for(spec, None)
                V('baseline-value-differs-' + spec.meth, outcome=_short(val, 500), **describe(spec, first, plan))
    missing = [n for n in PUBLIC_OPS if n not in covered]
    if missing:
        V('harness-operation-not-covered', operations=missing)
    # ERROR replies: CIMError with the code/description sent, for every variant and a grid of codes
    for spec in SPECS:
        for code, desc in (('1', None), ('5', 'scripted'), ('28', ''), ('0', 'zero'), ('99', 'unassigned'), ('007', 'z')):
            a = {'CODE': code}
            if desc is not None:
                a['DESCRIPTION'] = desc
            err = N('ERROR', a)
            if spec.key.endswith('/fallback') and int(code) in (1, 7):
                continue
            case(spec, ('error', code, desc), Reply(doc(spec.root(kids=[err]))), error_model(err), 'ERROR element -> CIMError')
        if THOROUGH or spec.key in ('GetInstance', 'InvokeMethod/inst', 'InvokeMethod/class', 'ExportIndication', 'PullInstances'):
            for v in NUM_POOL if THOROUGH else NUM_POOL_Q:      # CODE from the value pool
                for a in ({'CODE': v}, {'CODE': v, 'DESCRIPTION': v}):
                    err = N('ERROR', a)
                    case(spec, ('error-code-pool', 'BIGINT' if v == BIGINT else v, len(a)), Reply(doc(spec.root(kids=[err]))),
                         error_model(err), 'ERROR element -> CIMError')
        # ERROR carrying instances
        err = N('ERROR', {'CODE': '4', 'DESCRIPTION': 'with instance'}, inst(prop('Msg', 'string', 'm'), cls='CIM_Error'))
        case(spec, ('error-with-instance',), Reply(doc(spec.root(kids=[err]))),
             (pywbem.CIMError, lambda e: e.status_code == 4 and len(e.instances) == 1 and e.instances[0]['Msg'] == 'm'),
             'ERROR with INSTANCE -> CIMError.instances')


def sec_cross():
    """Every reply kind to every operation variant (wrong element for the operation)."""
    for spec in SPECS:
        for kind in KINDS:
            for params in ('own', 'none', 'open', 'last'):
                if params != 'own' and not (THOROUGH or kind in ('instancenames', 'instances', 'none', 'empty', 'values')):
                    continue
                kids = KINDS[kind]()
                kids += {'own': spec.params, 'none': lambda: [], 'open': open_params, 'last': last_params}[params]()
                if spec.rsptag == 'METHODRESPONSE' and kind != 'none' and kind != 'returnvalue' and params == 'own':
                    kids = KINDS[kind]()    # keep a variant without the RETURNVALUE in front
                case(spec, ('cross', kind, params), Reply(doc(spec.root(kids=kids))))


def sec_envelope():
    """Single mutations: below xMETHODRESPONSE (depth 3) for every variant; upper envelope for three."""
    for spec in SPECS:
        root = spec.root()
        shallow = not THOROUGH and spec.meth.startswith('Iter')
        run_mutations(spec, root, gen_mutations(root, RSP_PATH, 1 if shallow else 3, mode='struct' if shallow else 'full'), 'env')
    for key in ('GetInstance', 'InvokeMethod/inst', 'ExportIndication', 'IterEnumerateInstances/pull'):
        spec = SPEC[key]
        root = spec.root()
        muts = [m for m in gen_mutations(root, (), 3) if len(m[1]) <= 3]
        run_mutations(spec, root, muts, 'upper', model=True)
        # wrong children of MESSAGE / request elements coming back
        for outer in MESSAGE_KIDS + ('DECLARATION',):
            for inner in ('IMETHODRESPONSE', 'METHODRESPONSE', 'EXPMETHODRESPONSE', 'IMETHODCALL', 'METHODCALL', 'EXPMETHODCALL',
                          'DECLGROUP'):
                r = envelope(inner, spec.wirename, spec.children(), outer=outer)
                if outer == 'DECLARATION':
                    r = N('CIM', {'CIMVERSION': '2.0', 'DTDVERSION': '2.0'}, N('DECLARATION', None, N(inner, None, *spec.children())))
                exp = None if (outer == ('SIMPLEEXPRSP' if spec.rsptag == 'EXPMETHODRESPONSE' else 'SIMPLERSP') and
                               inner == spec.rsptag) else pywbem.CIMXMLParseError
                case(spec, ('outer', outer, inner), Reply(doc(r)), exp, 'wrong MESSAGE child / response element')


# ---------------------------------------------------------------------------------------------------------
# fragments: one small construct each, hosted in the reply of a representative operation, mutated exhaustively
# ---------------------------------------------------------------------------------------------------------

SCALARS = [('boolean', 'TRUE', True), ('string', 'a&b <c>', 'a&b <c>'), ('char16', 'c', 'c'),
           ('datetime', '20240101120000.000000+000', CIMDateTime('20240101120000.000000+000')),
           ('uint8', '255', 255), ('sint8', '-128', -128), ('uint16', '65535', 65535), ('sint16', '-32768', -32768),
           ('uint32', '4294967295', 4294967295), ('sint32', '-2147483648', -2147483648),
           ('uint64', '18446744073709551615', 18446744073709551615), ('sint64', '-9223372036854775808', -9223372036854775808),
           ('real32', '1.5', 1.5), ('real64', '-1.0E+10', -1.0e10)]
FULL_TYPES = ('boolean', 'string', 'char16', 'datetime', 'uint8', 'sint64', 'real32')


def emb_inst_text():
    return ser(inst(prop('Inner', 'uint8', '1'), cls='CIM_Emb'))


def emb_class_text():
    return ser(N('CLASS', {'NAME': 'CIM_Emb'}))


def fragments():
    """-> list of (id, spec key, root, focus path, light, expected-value check or None)"""
    F = []
    gi, gc, gq = SPEC['GetInstance'], SPEC['GetClass'], SPEC['GetQualifier']
    ein, inv = SPEC['EnumerateInstanceNames'], SPEC['InvokeMethod/inst']
    INSTP = RSP_PATH + (0, 0)       # ... IMETHODRESPONSE -> IRETURNVALUE -> INSTANCE/CLASS/QUALIFIER.DECLARATION/INSTANCENAME

    def in_instance(fid, member, light=False, chk=None):
        root = gi.root(kids=[irv(inst(member))])
        F.append((fid, gi.key, root, INSTP + (0,), light, chk))

    for t, txt, py in SCALARS:
        in_instance('prop-' + t, prop('P', t, txt), t not in FULL_TYPES,
                    (lambda r, py=py, t=t: r.properties['P'].value == py and r.properties['P'].type == t))
        arr = N('PROPERTY.ARRAY', {'NAME': 'P', 'TYPE': t, 'ARRAYSIZE': '2'}, N('VALUE.ARRAY', None, V_(txt), V_(txt)))
        in_instance('proparray-' + t, arr, t not in FULL_TYPES,
                    (lambda r, py=py: r.properties['P'].value == [py, py] and r.properties['P'].is_array is True
                     and r.properties['P'].array_size == 2))
    in_instance('proparray-string-null', N('PROPERTY.ARRAY', {'NAME': 'P', 'TYPE': 'string'},
                                           N('VALUE.ARRAY', None, V_('a'), N('VALUE.NULL'), V_(''))),
                chk=lambda r: r.properties['P'].value == ['a', None, ''])
    in_instance('prop-null', N('PROPERTY', {'NAME': 'P', 'TYPE': 'uint8'}), chk=lambda r: r.properties['P'].value is None)
    in_instance('proparray-empty', N('PROPERTY.ARRAY', {'NAME': 'P', 'TYPE': 'uint8'}, N('VALUE.ARRAY')),
                chk=lambda r: r.properties['P'].value == [])
    in_instance('prop-attrs', N('PROPERTY', {'NAME': 'P', 'TYPE': 'string', 'CLASSORIGIN': 'CIM_Base', 'PROPAGATED': 'true',
                                             'xml:lang': 'en'}, qual('Q', 'uint32', V_('3'), TRANSLATABLE='true'), V_('v')),
                chk=lambda r: r.properties['P'].propagated is True and r.properties['P'].qualifiers['Q'].value == 3)
    in_instance('prop-embinst', N('PROPERTY', {'NAME': 'P', 'TYPE': 'string', 'EmbeddedObject': 'instance'}, V_(emb_inst_text())),
                chk=lambda r: r.properties['P'].value.classname == 'CIM_Emb' and r.properties['P'].value['Inner'] == 1)
    in_instance('prop-embobj', N('PROPERTY', {'NAME': 'P', 'TYPE': 'string', 'EMBEDDEDOBJECT': 'object'}, V_(emb_class_text())),
                chk=lambda r: r.properties['P'].value.classname == 'CIM_Emb')
    in_instance('proparray-embinst', N('PROPERTY.ARRAY', {'NAME': 'P', 'TYPE': 'string', 'EmbeddedObject': 'instance'},
                                       N('VALUE.ARRAY', None, V_(emb_inst_text()), V_(emb_inst_text()))),
                chk=lambda r: [x.classname for x in r.properties['P'].value] == ['CIM_Emb'] * 2)
    for nm, ref in (('instancename', iname), ('localinstancepath', lipath), ('instancepath', ipath), ('classname', cname),
                    ('localclasspath', lcpath), ('classpath', cpath)):
        in_instance('propref-' + nm, N('PROPERTY.REFERENCE', {'NAME': 'P', 'REFERENCECLASS': 'CIM_Foo', 'CLASSORIGIN': 'C',
                                                              'PROPAGATED': 'false'}, N('VALUE.REFERENCE', None, ref())),
                    chk=lambda r: r.properties['P'].value.classname == 'CIM_Foo' and r.properties['P'].type == 'reference')
    in_instance('propref-null', N('PROPERTY.REFERENCE', {'NAME': 'P'}), chk=lambda r: r.properties['P'].value is None)
    root = gi.root(kids=[irv(N('INSTANCE', {'CLASSNAME': 'CIM_Foo', 'xml:lang': 'en'}, qual('Q', 'string', N('VALUE.ARRAY', None, V_('a'))),
                               prop()))])
    F.append(('instance-qualifier', gi.key, root, INSTP, False, lambda r: r.qualifiers['Q'].value == ['a']))

    def in_class(fid, member, chk=None):
        root = gc.root(kids=[irv(N('CLASS', {'NAME': 'CIM_Foo', 'SUPERCLASS': 'CIM_Base'}, member))])
        F.append((fid, gc.key, root, INSTP + (0,), False, chk))

    in_class('class-qual-flavors', qual('Q', 'boolean', V_('true'), OVERRIDABLE='false', TOSUBCLASS='true', TOINSTANCE='false',
                                        TRANSLATABLE='false', PROPAGATED='false'),
             lambda r: r.qualifiers['Q'].value is True and r.qualifiers['Q'].overridable is False)
    in_class('class-qual-array', qual('Q', 'string', N('VALUE.ARRAY', None, V_('a'), V_('b'))),
             lambda r: r.qualifiers['Q'].value == ['a', 'b'])
    in_class('class-qual-uint32', qual('Q', 'uint32', V_('7')), lambda r: r.qualifiers['Q'].value == 7)
    in_class('class-prop', N('PROPERTY', {'NAME': 'P', 'TYPE': 'uint16', 'CLASSORIGIN': 'CIM_Base', 'PROPAGATED': 'true'},
                             qual('Key', 'boolean', V_('true')), V_('5')),
             lambda r: r.properties['P'].value == 5 and r.properties['P'].class_origin == 'CIM_Base')
    in_class('class-proparray', N('PROPERTY.ARRAY', {'NAME': 'P', 'TYPE': 'string', 'ARRAYSIZE': '4'}, qual()),
             lambda r: r.properties['P'].array_size == 4 and r.properties['P'].value is None)
    in_class('class-propref', N('PROPERTY.REFERENCE', {'NAME': 'P', 'REFERENCECLASS': 'CIM_Bar'}, qual('Key', 'boolean', V_('true'))),
             lambda r: r.properties['P'].reference_class == 'CIM_Bar')
    in_class('class-method', N('METHOD', {'NAME': 'M', 'TYPE': 'uint32', 'CLASSORIGIN': 'CIM_Foo', 'PROPAGATED': 'false'}, qual(),
                               N('PARAMETER', {'NAME': 'a', 'TYPE': 'string'}, qual('In', 'boolean', V_('true'))),
                               N('PARAMETER.REFERENCE', {'NAME': 'b', 'REFERENCECLASS': 'CIM_Bar'}, qual('In', 'boolean', V_('true'))),
                               N('PARAMETER.ARRAY', {'NAME': 'c', 'TYPE': 'real64', 'ARRAYSIZE': '3'}, qual('In', 'boolean', V_('true'))),
                               N('PARAMETER.REFARRAY', {'NAME': 'd', 'REFERENCECLASS': 'CIM_Bar', 'ARRAYSIZE': '2'})),
             lambda r: r.methods['M'].return_type == 'uint32' and r.methods['M'].parameters['c'].array_size == 3 and
             r.methods['M'].parameters['d'].is_array is True and r.methods['M'].parameters['b'].type == 'reference')
    in_class('class-emb-prop', N('PROPERTY', {'NAME': 'P', 'TYPE': 'string', 'EmbeddedObject': 'object'}))

    def qd(fid, node, chk=None):
        F.append((fid, gq.key, gq.root(kids=[irv(node)]), INSTP, False, chk))

    qd('qdecl-scalar', qdecl('Q', 'string', N('SCOPE', {'CLASS': 'true', 'ASSOCIATION': 'false', 'REFERENCE': 'true', 'PROPERTY': 'true',
                                                       'METHOD': 'false', 'PARAMETER': 'true', 'INDICATION': 'false'}), V_('d'),
                            ISARRAY='false', OVERRIDABLE='true', TOSUBCLASS='false', TOINSTANCE='true', TRANSLATABLE='true'),
       lambda r: r.value == 'd' and r.scopes['METHOD'] is False and r.tosubclass is False and r.is_array is False)
    qd('qdecl-array', qdecl('Q', 'uint8', N('SCOPE', {'CLASS': 'true'}), N('VALUE.ARRAY', None, V_('1'), V_('2')), ISARRAY='true',
                           ARRAYSIZE='2'), lambda r: r.value == [1, 2] and r.array_size == 2 and r.is_array is True)
    qd('qdecl-novalue', qdecl('Q', 'datetime'), lambda r: r.value is None and r.type == 'datetime')

    def names(fid, node, chk=None):
        F.append((fid, ein.key, ein.root(kids=[irv(node)]), INSTP, False, chk))

    def kv(txt, **a):
        return N('KEYVALUE', a, txt)
    names('iname-string', iname('C', keyb('K', kv('v', VALUETYPE='string', TYPE='string'))), lambda r: r[0].keybindings['K'] == 'v')
    names('iname-boolean', iname('C', keyb('K', kv('TRUE', VALUETYPE='boolean'))), lambda r: r[0].keybindings['K'] is True)
    names('iname-numeric', iname('C', keyb('K', kv('42', VALUETYPE='numeric'))), lambda r: r[0].keybindings['K'] == 42)
    names('iname-uint8', iname('C', keyb('K', kv('42', VALUETYPE='numeric', TYPE='uint8'))),
          lambda r: isinstance(r[0].keybindings['K'], Uint8))
    names('iname-real32', iname('C', keyb('K', kv('1.5', TYPE='real32'))), lambda r: r[0].keybindings['K'] == 1.5)
    names('iname-datetime', iname('C', keyb('K', kv('20240101120000.000000+000', TYPE='datetime'))),
          lambda r: isinstance(r[0].keybindings['K'], CIMDateTime))
    names('iname-char16', iname('C', keyb('K', kv('c', VALUETYPE='string', TYPE='char16'))), lambda r: r[0].keybindings['K'] == 'c')
    names('iname-two', iname('C', keyb('K1', kv('a')), keyb('K2', kv('b'))), lambda r: len(r[0].keybindings) == 2)
    names('iname-ref', iname('C', keyb('K', N('VALUE.REFERENCE', None, iname()))), lambda r: r[0].keybindings['K'].classname == 'CIM_Foo')
    names('iname-ref-path', iname('C', keyb('K', N('VALUE.REFERENCE', None, ipath()))), lambda r: r[0].keybindings['K'].host == 'srv1')
    names('iname-ref-lpath', iname('C', keyb('K', N('VALUE.REFERENCE', None, lipath()))), lambda r: r[0].keybindings['K'].namespace == NS)
    names('iname-barekeyvalue', N('INSTANCENAME', {'CLASSNAME': 'C'}, kv('v')))
    names('iname-bareref', N('INSTANCENAME', {'CLASSNAME': 'C'}, N('VALUE.REFERENCE', None, iname())))
    names('iname-nokeys', N('INSTANCENAME', {'CLASSNAME': 'C'}), lambda r: len(r[0].keybindings) == 0)
    for key, kind in (('AssociatorNames/inst', 'objectpath_inst'), ('AssociatorNames/class', 'objectpath_class'),
                      ('Associators/inst', 'objwithpath_inst'), ('Associators/class', 'objwithpath_class'),
                      ('References/inst', 'objwithlocalpath_inst'), ('References/class', 'objwithlocalpath_class'),
                      ('ExecQuery', 'objwithlocalpath_inst'), ('ExecQuery', 'objwithpath_inst'), ('ExecQuery', 'valueobject_inst'),
                      ('EnumerateInstances', 'namedinstances'), ('OpenEnumerateInstances', 'instwithpath'),
                      ('PullInstancePaths', 'instancepaths'), ('EnumerateClasses', 'classes'), ('OpenQueryInstances', 'instances')):
        sp = SPEC[key]
        F.append(('deep-%s-%s' % (key, kind), key, sp.root(kind), RSP_PATH, False, None))

    def in_invoke(fid, kids, light=False, chk=None):
        F.append((fid, inv.key, inv.root(kids=kids), RSP_PATH, light, chk))

    for t, txt, py in SCALARS:
        in_invoke('rv-' + t, [N('RETURNVALUE', {'PARAMTYPE': t}, V_(txt))], t not in FULL_TYPES,
                  (lambda r, py=py, t=t: r[0] == py and isinstance(r[0], TYPE_CLASSES[t])))
        in_invoke('pv-' + t, [pv('o', t, V_(txt))], t not in ('uint8', 'boolean', 'datetime', 'string', 'real32'),
                  (lambda r, py=py, t=t: r[1]['o'] == py and isinstance(r[1]['o'], TYPE_CLASSES[t])))
    in_invoke('rv-false', [N('RETURNVALUE', {'PARAMTYPE': 'boolean'}, V_('false'))], True, lambda r: r[0] is False)
    in_invoke('rv-ref', [N('RETURNVALUE', {'PARAMTYPE': 'reference'}, N('VALUE.REFERENCE', None, ipath()))],
              chk=lambda r: r[0].host == 'srv1')
    in_invoke('rv-emb', [N('RETURNVALUE', {'PARAMTYPE': 'string', 'EmbeddedObject': 'instance'}, V_(emb_inst_text()))],
              chk=lambda r: r[0].classname == 'CIM_Emb')
    in_invoke('rv-notype', [N('RETURNVALUE', None, V_('x'))])
    in_invoke('rv-empty', [N('RETURNVALUE', {'PARAMTYPE': 'uint8'})], chk=lambda r: r[0] is None)
    in_invoke('pv-type-attr', [N('PARAMVALUE', {'NAME': 'o', 'TYPE': 'uint8'}, V_('1'))], chk=lambda r: r[1]['o'] == 1)
    in_invoke('pv-array', [pv('o', 'uint8', N('VALUE.ARRAY', None, V_('1'), V_('2')))], chk=lambda r: r[1]['o'] == [1, 2])
    in_invoke('pv-array-bool', [pv('o', 'boolean', N('VALUE.ARRAY', None, V_('true'), V_('false')))],
              chk=lambda r: r[1]['o'] == [True, False])
    in_invoke('pv-array-string-null', [pv('o', 'string', N('VALUE.ARRAY', None, V_('a'), N('VALUE.NULL')))],
              chk=lambda r: r[1]['o'] == ['a', None])
    in_invoke('pv-ref', [pv('o', 'reference', N('VALUE.REFERENCE', None, lipath()))], chk=lambda r: r[1]['o'].namespace == NS)
    in_invoke('pv-refarray', [pv('o', 'reference', N('VALUE.REFARRAY', None, N('VALUE.REFERENCE', None, iname()),
                                                     N('VALUE.REFERENCE', None, cname())))], chk=lambda r: len(r[1]['o']) == 2)
    in_invoke('pv-classname', [pv('o', 'reference', cname())])
    in_invoke('pv-instancename', [pv('o', 'reference', iname())])
    in_invoke('pv-class', [pv('o', 'string', klass())])
    in_invoke('pv-instance', [pv('o', 'string', inst())])
    in_invoke('pv-namedinstance', [pv('o', 'string', N('VALUE.NAMEDINSTANCE', None, iname(), inst()))])
    in_invoke('pv-emb', [pv('o', 'string', V_(emb_inst_text()), EmbeddedObject='instance')],
              chk=lambda r: r[1]['o'].classname == 'CIM_Emb')
    in_invoke('pv-embarray', [pv('o', 'string', N('VALUE.ARRAY', None, V_(emb_inst_text()), V_(emb_class_text())),
                                 EMBEDDEDOBJECT='object')], chk=lambda r: len(r[1]['o']) == 2)
    in_invoke('pv-null', [pv('o', 'uint8')], chk=lambda r: r[1]['o'] is None)
    in_invoke('pv-notype', [pv('o', None, V_('s'))], chk=lambda r: r[1]['o'] == 's')
    in_invoke('pv-dup', [pv('o', 'uint8', V_('1')), pv('O', 'uint8', V_('2'))])
    for key in ('GetInstance', 'InvokeMethod/class', 'ExportIndication', 'OpenEnumerateInstances'):
        sp = SPEC[key]
        F.append(('error-' + key, key, sp.root(kids=[N('ERROR', {'CODE': '5', 'DESCRIPTION': 'd'}, inst(prop('Msg', 'uint8', '1'),
                                                                                                        cls='CIM_Error'))]),
                  RSP_PATH, False, None))
    return F


# quick tier: how deep below the focus the full grammar goes for fragments that embed a path or an object which
# other fragments already treat exhaustively, and fragments that only get the structural grammar
QUICK_DEPTH = (('propref-', 2), ('rv-ref', 2), ('pv-refarray', 3), ('pv-ref', 2), ('iname-ref', 3), ('pv-namedinstance', 2),
               ('pv-class', 2), ('pv-instance', 2), ('iname-bareref', 2))
QUICK_STRUCT = ('deep-', 'error-InvokeMethod/class', 'error-ExportIndication', 'error-OpenEnumerateInstances', 'proparray-sint64',
                'proparray-char16', 'proparray-real32', 'pv-array-bool', 'pv-embarray')


def sec_fragments():
    for fid, key, root, focus, light, chk in fragments():
        spec = SPEC[key]
        is_error = fid.startswith('error-')
        kind, val = case(spec, ('frag', fid, 'baseline'), Reply(doc(root)), pywbem.CIMError if is_error else 'return',
                         'valid fragment')
        if kind == 'ret' and chk is not None:
            try:
                ok = bool(chk(val))
            except Exception:
                ok = False
            if not ok:
                vid = 'fragment-value-differs-' + fid
                if fid in ('rv-false', 'pv-array-bool'):
                    # reproduced on the unchanged tree: cimvalue('false', 'boolean') is bool('false') == True
                    vid = 'known:InvokeMethod-boolean-false-converted-to-True'
                V(vid, fragment=fid, operation=spec.meth, outcome='returned ' + _short(val, 600),
                  reply='HTTP 200; body=' + _short(doc(root)))
        mode, depth = ('light' if light else 'full'), 99
        if not THOROUGH:
            if fid.startswith(QUICK_STRUCT):
                mode = 'struct'
            depth = ([d for pre, d in QUICK_DEPTH if fid.startswith(pre)] + [99])[0]
        run_mutations(spec, root, gen_mutations(root, focus, depth, mode=mode), 'frag:' + fid)
        if mode == 'struct':        # ... plus the text values
            run_mutations(spec, root, gen_mutations(root, focus, depth, mode='light'), 'frag:' + fid)


def sec_pairs():
    """thorough only: seeded pairs of mutations on fragments and per-operation replies."""
    frs = fragments()
    n = 40000
    for i in range(n):
        fid, key, root, focus, light, chk = frs[RND.randrange(len(frs))]
        spec = SPEC[key]
        m1 = list(gen_mutations(root, focus, 99))
        a = m1[RND.randrange(len(m1))]
        r1 = apply_mut(root, a)
        try:
            m2 = list(gen_mutations(r1, focus if len(focus) <= len(RSP_PATH) + 1 else RSP_PATH, 99))
            b = m2[RND.randrange(len(m2))]
            r2 = apply_mut(r1, b)
        except (IndexError, ValueError):
            continue
        case(spec, ('pair', fid, mut_key(root, a), mut_key(r1, b)), Reply(doc(r2)))
    for i in range(20000):
        spec = SPECS[RND.randrange(len(SPECS))]
        root = spec.root()
        m1 = list(gen_mutations(root, RSP_PATH, 99))
        a = m1[RND.randrange(len(m1))]
        r1 = apply_mut(root, a)
        try:
            m2 = list(gen_mutations(r1, RSP_PATH, 99))
        except IndexError:          # the first mutation removed the response element
            m2 = list(gen_mutations(r1, (), 99))
        if not m2:
            continue
        b = m2[RND.randrange(len(m2))]
        case(spec, ('pair-op', mut_key(root, a), mut_key(r1, b)), Reply(doc(apply_mut(r1, b))))


# ---------------------------------------------------------------------------------------------------------
# HTTP status line and headers through the scripted adapter
# ---------------------------------------------------------------------------------------------------------

def sec_http():
    statuses = [(199, 'Odd'), (201, 'Created'), (204, 'No Content'), (206, ''), (300, 'Multiple'), (304, 'Not Modified'),
                (400, 'Bad Request'), (401, 'Unauthorized'), (403, 'Forbidden'), (404, 'Not Found'), (407, 'Proxy Auth'),
                (408, 'Timeout'), (500, 'Internal'), (501, 'Not Implemented'), (503, 'Busy'), (600, 'x'), (999, None), (0, ''),
                (-1, 'neg'), (500, 'r\xe9son €')]
    hdr_sets = [{}, {'Content-type': XML_CT}, {'CIMError': 'unsupported-operation', 'PGErrorDetail': 'a%20b%ZZ%'},
                {'CIMError': '', 'PGErrorDetail': ''}, {'PGErrorDetail': 'only'}, {'WWW-Authenticate': 'Basic realm="x"'},
                {'WWW-Authenticate': ''}, {'WWW-Authenticate': 'Digest x, Negotiate'}, {'WWW-Authenticate': ', ,'},
                {'WWW-Authenticate': 'Basic'}, {'WWW-Authenticate': ' Basic "host:5988"'}]
    for spec in SPECS:
        good_body = doc(spec.root())
        for i, (st, reason) in enumerate(statuses):
            for j, h in enumerate(hdr_sets):
                if not (THOROUGH or spec.key in ('GetInstance', 'InvokeMethod/inst', 'ExportIndication') or j == (i % len(hdr_sets))):
                    continue
                for body in ((good_body, b'<html>err</html>') if THOROUGH or j == 0 else (good_body,)):
                    exp = pywbem.AuthError if st == 401 else \
                        (pywbem.HTTPError, lambda e, st=st, reason=reason, h=h: e.status == st and e.reason == reason and
                         e.cimerror == h.get('CIMError') and e.request_data is not None)
                    rep = Reply(body, st, reason, dict(h))
                    case(spec, ('status', st, reason, j, len(body)), rep, exp, 'HTTP status != 200', all_replies=rep)
    # redirects are followed by requests: 30 hops to the same scripted reply, then TooManyRedirects
    for spec in (SPEC['GetInstance'], SPEC['ExportIndication']):
        for st in (301, 302, 303, 307, 308):
            for loc in ('http://127.0.0.1:5988/cimom', '/other', 'http://[::bad/', 'ftp://h/x', '', '//', 'http://h:99999/',
                        'http://\xe2\x82\xac/', '\xff'):
                rep = Reply(b'', st, 'Moved', {'Location': loc})
                case(spec, ('redirect', st, loc), rep, None, all_replies=rep)
    # Content-type on 200
    cts = [(None, True), ('application/xml', True), ('text/xml', True), ('text/xml;charset=iso-8859-1', True),
           ('application/xml; charset="utf-8"', True), ('text/html', False), ('', False), ('application/json', False),
           ('APPLICATION/XML', False), (' application/xml', False), ('application/soap+xml', False), ('xml', False),
           ('application/xmlx', True), ('text/xml-garbage \x7f', True), ('text/plain; application/xml', False)]
    for spec in SPECS:
        for ct, ok in cts if (THOROUGH or spec.key in ('GetInstance', 'InvokeMethod/inst', 'ExportIndication',
                                                       'IterEnumerateInstances/open')) else cts[:7]:
            rep_spec = THOROUGH or spec.key in ('GetInstance', 'InvokeMethod/inst', 'ExportIndication', 'IterEnumerateInstances/open')
            for body in (doc(spec.root()), b'\xff\xfe garbage \x00', b'') if rep_spec else (doc(spec.root()),):
                h = {} if ct is None else {'Content-type': ct}
                if ok:
                    exp = 'return' if body.startswith(b'<?xml') else pywbem.XMLParseError
                else:
                    exp = (pywbem.HeaderParseError, lambda e: e.response_data is not None and e.request_data is not None)
                case(spec, ('content-type', ct, len(body)), Reply(body, 200, 'OK', h), exp, 'Content-type rule of DSP0200')
    # other headers on a good reply: they must not matter (statistics enabled: the response time is used)
    stats_spec = Spec('GetInstance+stats', 'GetInstance', lambda: (IP(),), {}, 'GetInstance', 'instance', ok_inst_p)
    stats_spec.conn = make_conn(stats=True)
    rec_spec = Spec('GetInstance+recorder', 'GetInstance', lambda: (IP(),), {}, 'GetInstance', 'instance', ok_inst_p)
    rec_spec.conn = make_conn(stats=True)
    rec_spec.conn.add_operation_recorder(pywbem.LogOperationRecorder(rec_spec.conn.conn_id))
    for spec in (stats_spec, rec_spec, SPEC['InvokeMethod/inst']):
        for name, vals in (('WBEMServerResponseTime', ['1234', '0', '-5', '', 'abc', 'nan', 'inf', '1e400', '1.5', ' 7 ', '0x10',
                                                       '9' * 400, '1,2', '٣']),
                           ('Content-length', ['0', '5', 'abc', '-1', '99999999999']),
                           ('Transfer-Encoding', ['chunked', 'bogus']), ('Content-Encoding', ['gzip', 'bogus']),
                           ('CIMError', ['x']), ('CIMOperation', ['MethodResponse', 'x']), ('Set-Cookie', ['a=b', '\x00;;=']),
                           ('Connection', ['close', 'x']), ('Man', ['x']), ('X-€', ['€'])):
            for v in vals:
                h = {'Content-type': XML_CT, name: v}
                case(spec, ('header', name, v if len(v) < 50 else 'long'), Reply(doc(spec.root()), 200, 'OK', h), 'return',
                     'irrelevant or informational header on a good reply')
        # and on parse failures with the recorder / statistics active
        for body in (b'', b'<CIM/>', b'\xff'):
            case(spec, ('recorder-bad-body', body), Reply(body))
        case(spec, ('recorder-status',), Reply(b'x', 500, 'Err', {}), pywbem.HTTPError)
    # exceptions of the HTTP library as they come out of session.post()
    import urllib3
    u3 = urllib3.exceptions
    rq = requests.exceptions
    pool = urllib3.connectionpool.HTTPConnectionPool('127.0.0.1', 5988)
    raised = [
        (rq.ConnectionError(u3.MaxRetryError(pool, '/cimom', u3.NewConnectionError(pool, 'Failed to establish a new connection: [Errno 111] Connection refused'))), pywbem.ConnectionError),
        (rq.ConnectionError(u3.MaxRetryError(pool, '/cimom', u3.ReadTimeoutError(pool, '/cimom', "Read timed out. (read timeout=9.99)"))), pywbem.ConnectionError),
        (rq.ConnectionError(u3.MaxRetryError(pool, '/cimom', u3.ReadTimeoutError(pool, '/cimom', "Read timed out. (read timeout=30)"))), pywbem.TimeoutError),
        (rq.ConnectionError(u3.MaxRetryError(pool, '/cimom', u3.ProtocolError('Connection aborted.', ConnectionResetError(104, 'reset')))), pywbem.ConnectionError),
        (rq.ConnectionError(u3.MaxRetryError(pool, '/cimom', None)), pywbem.ConnectionError),
        (rq.ConnectionError(u3.ProtocolError('Connection aborted.', OSError(5))), pywbem.ConnectionError),
        (rq.ConnectionError(u3.ProtocolError(('Connection broken', 1))), pywbem.ConnectionError),
        (rq.ConnectionError('plain message'), pywbem.ConnectionError),
        (rq.ConnectionError(OSError(5, 'io')), pywbem.ConnectionError),
        (rq.ReadTimeout(u3.ReadTimeoutError(pool, '/cimom', 'Read timed out. (read timeout=30)')), (pywbem.TimeoutError, pywbem.ConnectionError)),
        (rq.ReadTimeout('timed out'), pywbem.TimeoutError),
        (rq.ConnectTimeout(u3.MaxRetryError(pool, '/cimom', u3.ConnectTimeoutError(pool, 'Connection to 127.0.0.1 timed out. (connect timeout=9.99)'))), pywbem.ConnectionError),
        (rq.SSLError(u3.MaxRetryError(pool, '/cimom', u3.SSLError('bad handshake'))), pywbem.ConnectionError),
        (rq.SSLError('certificate verify failed'), pywbem.ConnectionError),
        (rq.RetryError('too many retries'), pywbem.TimeoutError),
        (rq.ChunkedEncodingError(u3.ProtocolError('Connection broken: IncompleteRead(0 bytes read, 5 more expected)')), pywbem.ConnectionError),
        (rq.ContentDecodingError(u3.DecodeError('Received response with content-encoding: gzip, but failed to decode it.')), pywbem.ConnectionError),
        (rq.TooManyRedirects('Exceeded 30 redirects.'), pywbem.ConnectionError),
        (rq.InvalidHeader('Invalid leading whitespace'), pywbem.ConnectionError),
        (rq.InvalidURL('Failed to parse'), pywbem.ConnectionError),
        (rq.ProxyError(u3.MaxRetryError(pool, '/cimom', u3.ProxyError('Cannot connect to proxy.', OSError('x')))), pywbem.ConnectionError),
        (u3.ProtocolError('Connection aborted.', OSError(5)), pywbem.ConnectionError),
        (u3.MaxRetryError(pool, '/cimom', u3.ReadTimeoutError(pool, '/cimom', 'Read timed out. (read timeout=30)')), pywbem.TimeoutError),
        (u3.ReadTimeoutError(pool, '/cimom', 'Read timed out.'), pywbem.Error),
        (u3.DecodeError('x'), pywbem.ConnectionError),
        (u3.LocationParseError('http://[::bad'), pywbem.ConnectionError),
    ]
    for spec in SPECS if THOROUGH else [SPEC[k] for k in ('GetInstance', 'InvokeMethod/class', 'ExportIndication',
                                                           'IterReferenceInstancePaths/pull', 'OpenQueryInstances')]:
        for i, (exc, exp) in enumerate(raised):
            case(spec, ('library-exception', i, type(exc).__name__), Reply(raises=exc), exp,
                 'documented mapping of requests/urllib3 exceptions')
    pool.close()


# ---------------------------------------------------------------------------------------------------------
# bytes at the SAX boundary
# ---------------------------------------------------------------------------------------------------------

def garbage_bodies(spec):
    good = doc(spec.root())
    body_only = ser(spec.root())
    val = doc(SPEC['GetInstance'].root(kids=[irv(inst(prop('P', 'string', '@@')))]))     # a text slot and ...
    att = doc(SPEC['GetInstance'].root(kids=[irv(inst(prop('@@', 'string', 'v')))]))     # ... an attribute slot
    out = [('empty', b''), ('space', b' '), ('newline', b'\n'), ('nul', b'\x00'), ('bom16', b'\xff\xfe'), ('bom8', b'\xef\xbb\xbf'),
           ('prolog-only', PROLOG.encode()), ('text', b'hello'), ('html', b'<html><body>404</body></html>'), ('lt', b'<'),
           ('json', b'{"error": 1}'), ('big', b'A' * 1000000), ('bigtag', b'<' + b'a' * 300000 + b'/>'),
           ('bigattr', b'<CIM CIMVERSION="' + b'2' * 300000 + b'"/>'), ('nesting', b'<a>' * 3000 + b'</a>' * 3000),
           ('nesting-open', b'<a>' * 100000), ('two-roots', good + ser(spec.root()).encode()), ('trailing', good + b'x'),
           ('trailing-nul', good + b'\x00'), ('leading-space', b' ' + good), ('leading-text', b'x' + good),
           ('no-prolog', body_only.encode()), ('bom8+good', b'\xef\xbb\xbf' + good), ('double-prolog', PROLOG.encode() + good),
           ('utf16', ('<?xml version="1.0" encoding="utf-16"?>' + body_only).encode('utf-16')),
           ('utf16-nobom-decl8', body_only.encode('utf-16-le')),
           ('utf16-declared-utf8', PROLOG.encode('utf-16') + body_only.encode('utf-16-le')),
           ('latin1', b'<?xml version="1.0" encoding="iso-8859-1"?>' + body_only.encode()),
           ('enc-bogus', b'<?xml version="1.0" encoding="bogus"?>' + body_only.encode()),
           ('enc-sjis', b'<?xml version="1.0" encoding="shift_jis"?>' + body_only.encode()),
           ('enc-cp1252', b'<?xml version="1.0" encoding="cp1252"?>' + body_only.encode()),
           ('enc-utf7', b'<?xml version="1.0" encoding="utf-7"?>' + body_only.encode()),
           ('enc-empty', b'<?xml version="1.0" encoding=""?>' + body_only.encode()),
           ('version-11', b'<?xml version="1.1"?>' + body_only.encode()), ('version-20', b'<?xml version="2.0"?>' + body_only.encode()),
           ('standalone', b'<?xml version="1.0" standalone="yes"?>' + body_only.encode()),
           ('doctype', b'<!DOCTYPE CIM SYSTEM "http://127.0.0.1:1/x.dtd">' + body_only.encode()),
           ('doctype-internal', b'<!DOCTYPE CIM [<!ENTITY e "42">]>' + body_only.encode()),
           ('comment-pi', good.replace(b'<MESSAGE', b'<!-- c --><?pi x?><MESSAGE')),
           ('unclosed-comment', good.replace(b'<MESSAGE', b'<!-- <MESSAGE')),
           ('cdata-ws', good.replace(b'<MESSAGE', b'<![CDATA[  ]]><MESSAGE')),
           ('cdata-text', good.replace(b'<MESSAGE', b'<![CDATA[x]]><MESSAGE')),
           ('ns-decl', good.replace(b'<CIM ', b'<CIM xmlns="urn:x" ')), ('ns-prefix', good.replace(b'<CIM ', b'<CIM xmlns:a="urn:x" a:b="1" ')),
           ('dup-attr', good.replace(b'<CIM ', b'<CIM CIMVERSION="2.0" ')), ('unquoted', good.replace(b'"2.0"', b'2.0', 1)),
           ('single-quotes', good.replace(b'"2.0"', b"'2.0'")), ('lt-in-attr', good.replace(b'"2.0"', b'"<"', 1)),
           ('amp-in-attr', good.replace(b'"2.0"', b'"&"', 1)), ('mismatched-end', good.replace(b'</MESSAGE>', b'</MESSAG>')),
           ('case-end', good.replace(b'</MESSAGE>', b'</message>')), ('crlf', good.replace(b'>', b'>\r\n')),
           ('tabs', good.replace(b'><', b'>\t\n <'))]
    for nm, b in (('c3-28', b'\xc3\x28'), ('overlong', b'\xc0\xaf'), ('surrogate', b'\xed\xa0\x80'), ('surrogate-pair', b'\xed\xa0\x80\xed\xb0\x80'),
                  ('trunc2', b'\xc3'), ('trunc3', b'\xe2\x82'), ('f5', b'\xf5\x80\x80\x80'), ('ff', b'\xff'), ('fe', b'\xfe'),
                  ('cont', b'\x80'), ('nul', b'\x00'), ('ctl1', b'\x01'), ('vt', b'\x0b'), ('us', b'\x1f'), ('del', b'\x7f'),
                  ('c1', b'\xc2\x85'), ('fffe', b'\xef\xbf\xbe'), ('ffff', b'\xef\xbf\xbf'), ('nonbmp', b'\xf0\x9f\x98\x80'),
                  ('max', b'\xf4\x8f\xbf\xbf'), ('beyond', b'\xf4\x90\x80\x80'), ('ref0', b'&#0;'), ('ref1', b'&#1;'),
                  ('refsurr', b'&#xD800;'), ('reffffe', b'&#xFFFE;'), ('refbig', b'&#x110000;'), ('refneg', b'&#-1;'),
                  ('refhuge', b'&#99999999999999999999;'), ('refok', b'&#65;'), ('entity', b'&foo;'), ('amp', b'&'), ('lt', b'<'),
                  ('gt', b'>'), ('cdata-end', b']]>'), ('cdata', b'<![CDATA[<x>&]]>'), ('comment', b'a<!-- c -->b'), ('pi', b'<?p?>')):
        out.append(('text-' + nm, val.replace(b'@@', b)))
        if nm not in ('cdata', 'comment', 'pi', 'gt', 'cdata-end'):
            out.append(('attr-' + nm, att.replace(b'@@', b)))
    laugh = b'<!DOCTYPE CIM [<!ENTITY a "aaaaaaaaaa"><!ENTITY b "&a;&a;&a;&a;&a;&a;&a;&a;&a;&a;"><!ENTITY c "&b;&b;&b;&b;&b;&b;&b;&b;&b;&b;">' \
            b'<!ENTITY d "&c;&c;&c;&c;&c;&c;&c;&c;&c;&c;">]>'
    out += [('entities-expanding', laugh + val.replace(b'@@', b'&d;').split(b'\n', 1)[1]),
            ('entity-recursive', b'<!DOCTYPE CIM [<!ENTITY a "&b;"><!ENTITY b "&a;">]>' + val.replace(b'@@', b'&a;').split(b'\n', 1)[1]),
            ('entity-external', b'<!DOCTYPE CIM [<!ENTITY a SYSTEM "file:///etc/hostname">]>' + val.replace(b'@@', b'&a;').split(b'\n', 1)[1]),
            ('entity-param', b'<!DOCTYPE CIM [<!ENTITY % p SYSTEM "http://127.0.0.1:1/x"> %p;]>' + body_only.encode())]
    return good, out


def sec_bytes():
    reps = ('GetInstance', 'InvokeMethod/inst', 'ExportIndication', 'IterEnumerateInstances/pull', 'OpenQueryInstances')
    for spec in SPECS:
        good, bodies = garbage_bodies(spec)
        if not (THOROUGH or spec.key in reps):
            bodies = [b for b in bodies if b[0] in ('empty', 'nul', 'text', 'lt', 'trailing', 'no-prolog', 'utf16', 'latin1',
                                                    'enc-bogus', 'doctype-internal', 'text-c3-28', 'text-surrogate', 'text-ref0',
                                                    'attr-ff', 'text-fffe', 'mismatched-end', 'bom8+good')]
        for nm, body in bodies:
            wf = wellformed(body)
            exp = None if wf or nm.startswith(('enc-', 'utf16', 'version-', 'entit', 'doctype', 'ns-', 'big', 'nesting')) \
                else pywbem.XMLParseError
            case(spec, ('bytes', nm), Reply(body), exp, 'libxml2 rejects the document as ill-formed')
    for key in reps if THOROUGH else reps[:2]:
        spec = SPEC[key]
        good = doc(spec.root())
        # every proper prefix of a good reply is ill-formed
        for i in range(0, len(good), 1 if THOROUGH or key == reps[0] else 7):
            case(spec, ('prefix', i), Reply(good[:i]), pywbem.XMLParseError, 'truncated document')
        # byte flips
        flips = (0xff, 0x00, 0x3c, 0x26, 0x22, 0x80, 0x20) if THOROUGH else (0xff, 0x3c)
        for i in range(len(PROLOG), len(good), 1 if THOROUGH else 4):
            for f in flips:
                if good[i] == f:
                    continue
                body = good[:i] + bytes([f]) + good[i + 1:]
                exp = None if wellformed(body) else pywbem.XMLParseError
                case(spec, ('flip', i, f), Reply(body), exp, 'libxml2 rejects the document as ill-formed')
        # seeded random bytes and random splices
        rnd = random.Random(R.seed * 7919 + 1)
        for i in range(300 if THOROUGH else 60):
            n = rnd.choice((1, 2, 3, 8, 64, 500))
            body = bytes(rnd.randrange(256) for _ in range(n))
            case(spec, ('random', R.seed, i), Reply(body), None if wellformed(body) else pywbem.XMLParseError, 'random bytes')
            a, b = sorted((rnd.randrange(len(good)), rnd.randrange(len(good))))
            body = good[:a] + good[b:]
            case(spec, ('splice', R.seed, i), Reply(body), None if wellformed(body) else pywbem.XMLParseError, 'spliced reply')


def sec_depth():
    """Nesting depth of legal recursive structures."""
    gi, ein, inv = SPEC['GetInstance'], SPEC['EnumerateInstanceNames'], SPEC['InvokeMethod/inst']
    for depth in (1, 5, 20, 60, 150, 400) + ((1000, 3000) if THOROUGH else ()):
        pre, post = ser(iname('C', keyb('K', N('VALUE.REFERENCE', None, N('HOLE'))))).split('<HOLE/>')
        deep = (pre * depth + ser(iname()) + post * depth).encode()       # built flat: the harness must not recurse
        expect = 'return' if depth <= 20 else None
        for spec, kids in ((ein, [irv(N('HOLE'))]), (inv, [pv('o', 'reference', N('VALUE.REFERENCE', None, N('HOLE')))])):
            case(spec, ('depth-reference-keys', depth), Reply(doc(spec.root(kids=kids)).replace(b'<HOLE/>', deep)), expect,
                 'legal nesting of reference keys')
    for depth in (1, 3, 6, 9) + ((12,) if THOROUGH else ()):
        txt = ser(inst(prop('L', 'uint8', '0')))
        for _ in range(depth):
            txt = ser(inst(N('PROPERTY', {'NAME': 'E', 'TYPE': 'string', 'EmbeddedObject': 'instance'}, V_(txt))))
        p = N('PROPERTY', {'NAME': 'E', 'TYPE': 'string', 'EmbeddedObject': 'instance'}, V_(txt))
        case(gi, ('depth-embedded', depth), Reply(doc(gi.root(kids=[irv(inst(p))]))), 'return', 'legal nesting of embedded instances')
    for n in (0, 1, 1000) + ((20000,) if THOROUGH else ()):
        members = [prop('P%d' % i, 'uint8', str(i % 256)) for i in range(n)]
        case(gi, ('width-properties', n), Reply(doc(gi.root(kids=[irv(N('INSTANCE', {'CLASSNAME': 'C'}, *members))]))), 'return',
             'many properties')
        case(ein, ('width-names', n), Reply(doc(ein.root(kids=[irv(*[iname() for _ in range(n)])]))), 'return', 'many paths')


# ---------------------------------------------------------------------------------------------------------
# raw HTTP byte streams over a loopback socket (real requests/urllib3/http.client in the path)
# ---------------------------------------------------------------------------------------------------------

class RawServer(threading.Thread):
    """Accepts one connection at a time, reads one request, writes the scripted bytes, optionally stalls, closes."""

    def __init__(self):
        super().__init__(name='c02-raw-server', daemon=True)
        self.sock = socket.socket(socket.AF_INET, socket.SOCK_STREAM)
        self.sock.setsockopt(socket.SOL_SOCKET, socket.SO_REUSEADDR, 1)
        self.sock.bind(('127.0.0.1', 0))
        self.sock.listen(16)
        self.sock.settimeout(0.1)
        self.port = self.sock.getsockname()[1]
        self.script = (b'', 0.0, False)     # bytes, stall seconds before closing, reset instead of close
        self.stop = False
        self.hits = 0

    def run(self):
        while not self.stop:
            try:
                c, _ = self.sock.accept()
            except socket.timeout:
                continue
            except OSError:
                break
            try:
                self.serve(c)
            except OSError:
                pass
            finally:
                try:
                    c.close()
                except OSError:
                    pass
        self.sock.close()

    def serve(self, c):
        self.hits += 1
        c.settimeout(2.0)
        data = b''
        while b'\r\n\r\n' not in data:
            chunk = c.recv(65536)
            if not chunk:
                return
            data += chunk
        head, _, rest = data.partition(b'\r\n\r\n')
        m = re.search(rb'(?i)content-length:\s*(\d+)', head)
        need = int(m.group(1)) if m else 0
        while len(rest) < need:
            chunk = c.recv(65536)
            if not chunk:
                break
            rest += chunk
        payload, stall, reset = self.script
        if self.hits > 40:                  # redirect loops etc.: stop feeding them
            payload = b'HTTP/1.1 500 Enough\r\nContent-Length: 0\r\nConnection: close\r\n\r\n'
        if payload:
            c.sendall(payload)
        if stall:
            c.settimeout(0.05)
            t_end = stall
            while t_end > 0 and not self.stop:
                try:
                    if c.recv(4096) == b'':     # client gave up
                        break
                except socket.timeout:
                    pass
                except OSError:
                    break
                t_end -= 0.05
        if reset:
            import struct
            c.setsockopt(socket.SOL_SOCKET, socket.SO_LINGER, struct.pack('ii', 1, 0))


def http_msg(body, status=b'HTTP/1.1 200 OK', headers=(), length=True, ctype=True):
    lines = [status]
    if ctype:
        lines.append(b'Content-Type: application/xml; charset="utf-8"')
    if length:
        lines.append(b'Content-Length: %d' % len(body))
    lines += list(headers)
    return b'\r\n'.join(lines) + b'\r\n\r\n' + body


def chunked(parts):
    return b''.join(b'%x\r\n%s\r\n' % (len(p), p) for p in parts) + b'0\r\n\r\n'


def raw_cases(spec):
    good = doc(spec.root())
    E = pywbem.Error
    X, C, H = pywbem.XMLParseError, pywbem.ConnectionError, pywbem.HTTPError
    cl = b'Connection: close'
    cases = [
        ('good', http_msg(good, headers=[cl]), 'return'),
        ('good-http10', http_msg(good, b'HTTP/1.0 200 OK'), 'return'),
        ('good-no-length-close', http_msg(good, length=False, headers=[cl]), 'return'),
        ('good-chunked', http_msg(chunked([good[:10], good[10:]]), length=False, headers=[b'Transfer-Encoding: chunked', cl]), 'return'),
        ('good-gzip', http_msg(gzip.compress(good), headers=[b'Content-Encoding: gzip', cl]), 'return'),
        ('good-deflate', http_msg(zlib.compress(good), headers=[b'Content-Encoding: deflate', cl]), 'return'),
        ('good-100-continue', b'HTTP/1.1 100 Continue\r\n\r\n' + http_msg(good, headers=[cl]), 'return'),
        ('good-lf-only', http_msg(good, headers=[cl]).replace(b'\r\n', b'\n', 4), 'return'),
        ('good-folded-header', http_msg(good, headers=[b'X-A: a\r\n  b', cl]), 'return'),
        ('good-reason-missing', http_msg(good, b'HTTP/1.1 200', headers=[cl]), 'return'),
        ('good-reason-odd', http_msg(good, b'HTTP/1.1 200 \xe9\xff OK OK', headers=[cl]), 'return'),
        ('good-header-latin1', http_msg(good, headers=[b'X-A: \xe9\xff\x80', cl]), 'return'),
        ('good-no-ctype', http_msg(good, ctype=False, headers=[cl]), 'return'),
        ('gzip-garbage', http_msg(b'not gzip', headers=[b'Content-Encoding: gzip', cl]), C),
        ('gzip-truncated', http_msg(gzip.compress(good)[:40], headers=[b'Content-Encoding: gzip', cl]), E),
        ('deflate-garbage', http_msg(b'\x00\x01garbage', headers=[b'Content-Encoding: deflate', cl]), C),
        ('encoding-unknown', http_msg(good, headers=[b'Content-Encoding: br-x', cl]), 'return'),
        ('chunk-size-bad', http_msg(b'zz\r\nabc\r\n0\r\n\r\n', length=False, headers=[b'Transfer-Encoding: chunked', cl]), C),
        ('chunk-truncated', http_msg(b'ff\r\nabc', length=False, headers=[b'Transfer-Encoding: chunked', cl]), C),
        ('chunk-negative', http_msg(b'-1\r\nabc\r\n0\r\n\r\n', length=False, headers=[b'Transfer-Encoding: chunked', cl]), E),
        ('chunk-huge-size', http_msg(b'ffffffffffffffffff\r\nabc\r\n0\r\n\r\n', length=False, headers=[b'Transfer-Encoding: chunked', cl]), E),
        ('length-too-long', http_msg(good, length=False, headers=[b'Content-Length: %d' % (len(good) + 50), cl]), C),
        ('length-too-short', http_msg(good, length=False, headers=[b'Content-Length: 20', cl]), X),
        ('length-zero', http_msg(good, length=False, headers=[b'Content-Length: 0', cl]), X),
        ('length-nan', http_msg(good, length=False, headers=[b'Content-Length: abc', cl]), None),
        ('length-negative', http_msg(good, length=False, headers=[b'Content-Length: -5', cl]), None),
        ('length-twice-differ', http_msg(good, length=False, headers=[b'Content-Length: 5', b'Content-Length: 7', cl]), E),
        ('length-and-chunked', http_msg(chunked([good]), headers=[b'Transfer-Encoding: chunked', cl]), None),
        ('length-huge', http_msg(good, length=False, headers=[b'Content-Length: 99999999999999999999', cl]), E),
        ('no-response', b'', C),
        ('status-garbage', b'\x00\x01\x02\r\n\r\n', C),
        ('status-http09', good, C),
        ('status-no-code', b'HTTP/1.1\r\n\r\n', C),
        ('status-alpha', http_msg(good, b'HTTP/1.1 abc OK'), C),
        ('status-two-digit', http_msg(good, b'HTTP/1.1 99 Low'), C),
        ('status-four-digit', http_msg(good, b'HTTP/1.1 1000 Big'), C),
        ('status-http2', http_msg(good, b'HTTP/2.0 200 OK', headers=[cl]), None),
        ('status-icy', http_msg(good, b'ICY 200 OK'), C),
        ('status-long', http_msg(good, b'HTTP/1.1 200 ' + b'x' * 70000), C),
        ('status-only-100', b'HTTP/1.1 100 Continue\r\n\r\n', C),
        ('status-204', http_msg(b'', b'HTTP/1.1 204 No Content', headers=[cl]), H),
        ('status-304-with-body', http_msg(good, b'HTTP/1.1 304 Not Modified', headers=[cl]), H),
        ('status-500-html', http_msg(b'<html/>', b'HTTP/1.1 500 Internal Server Error', headers=[cl]), H),
        ('status-501-cimerror', http_msg(b'', b'HTTP/1.1 501 Not Implemented', headers=[b'CIMError: unsupported-protocol-version',
                                                                                    b'PGErrorDetail: a%20b', cl]), H),
        ('status-401-basic', http_msg(b'', b'HTTP/1.1 401 Unauthorized', headers=[b'WWW-Authenticate: Basic realm="r"', cl]), pywbem.AuthError),
        ('status-401-none', http_msg(b'', b'HTTP/1.1 401 Unauthorized', headers=[cl]), pywbem.AuthError),
        ('status-407', http_msg(b'', b'HTTP/1.1 407 Proxy Authentication Required', headers=[b'Proxy-Authenticate: Basic', cl]), H),
        ('header-no-colon', http_msg(good, headers=[b'garbage line', cl]), None),
        ('header-empty-name', http_msg(good, headers=[b': v', cl]), None),
        ('header-nul', http_msg(good, headers=[b'X-A: a\x00b', cl]), None),
        ('header-too-many', http_msg(good, headers=[b'X-%d: v' % i for i in range(150)] + [cl]), C),
        ('header-too-long', http_msg(good, headers=[b'X-A: ' + b'v' * 70000, cl]), C),
        ('header-ctype-html', http_msg(good, ctype=False, headers=[b'Content-Type: text/html', cl]), pywbem.HeaderParseError),
        ('header-ctype-twice', http_msg(good, headers=[b'Content-Type: text/html', cl]), None),
        ('header-resptime-bad', http_msg(good, headers=[b'WBEMServerResponseTime: abc', cl]), 'return'),
        ('headers-truncated', b'HTTP/1.1 200 OK\r\nContent-Type: applic', E),
        ('body-truncated-close', http_msg(good)[:-30], C),
        ('redirect-self', http_msg(b'', b'HTTP/1.1 302 Found', headers=[b'Location: /cimom', cl]), E),
        ('redirect-bad-url', http_msg(b'', b'HTTP/1.1 301 Moved', headers=[b'Location: http://[::bad/', cl]), E),
        ('redirect-scheme', http_msg(b'', b'HTTP/1.1 307 Temp', headers=[b'Location: ftp://127.0.0.1/x', cl]), E),
        ('redirect-no-location', http_msg(b'', b'HTTP/1.1 302 Found', headers=[cl]), H),
        ('redirect-location-bytes', http_msg(b'', b'HTTP/1.1 302 Found', headers=[b'Location: /\xff\xfe\x00', cl]), E),
    ]
    return cases


def sec_loopback():
    srv = RawServer()
    srv.start()
    try:
        for key in ('GetInstance', 'InvokeMethod/inst', 'ExportIndication', 'IterEnumerateInstances/fallback'):
            base = SPEC[key]
            spec = Spec(key + '+socket', base.meth, base.args, base.kwargs, base.primary, base.kind, base.check, extra=base.extra,
                        pull=False if base.meth.startswith('Iter') else base.pull, params=base.params, rsptag=base.rsptag,
                        wirename=base.wirename)
            spec.conn = make_conn(spec.pull, url='http://127.0.0.1:%d' % srv.port, timeout=0.3, adapter=None, stats=True)
            for nm, payload, exp in raw_cases(spec):
                for mode in ('close', 'reset') if nm in ('no-response', 'body-truncated-close', 'good') else ('close',):
                    srv.script, srv.hits = (payload, 0.0, mode == 'reset'), 0
                    socket_case(spec, (nm, mode), exp, payload)
            # stalls: nothing at all, after the status line, in the middle of the body
            good = http_msg(doc(spec.root()))
            for nm, payload in (('stall-silent', b''), ('stall-after-status', b'HTTP/1.1 200 OK\r\n'),
                                ('stall-in-body', good[:-25]))[:3 if THOROUGH or key == 'GetInstance' else 1]:
                srv.script, srv.hits = (payload, 1.5, False), 0
                socket_case(spec, (nm, 'stall'), (pywbem.TimeoutError, pywbem.ConnectionError), payload)
            spec.conn.close()
    finally:
        srv.stop = True
        srv.join(5)
        if srv.is_alive():
            V('harness-server-thread-left')


def socket_case(spec, key, exp, payload):
    R.case((spec.key, 'raw') + tuple(key))
    AD.set({}, {})
    signal.setitimer(signal.ITIMER_REAL, WATCHDOG_S)
    try:
        try:
            kind, val = 'ret', drain(getattr(spec.conn, spec.meth)(*spec.args(), **spec.kwargs))
        finally:
            signal.setitimer(signal.ITIMER_REAL, 0)
    except pywbem.Error as e:
        kind, val = 'err', e
    except Hang as e:
        kind, val = 'hang', e
    except Exception as e:
        kind, val = 'esc', e
    STATS[kind if kind in STATS else 'esc'] += 1

    def viol(vid):
        V(vid, case=repr(key), operation=spec.meth, outcome=('%s: %s' % (type(val).__name__, _short(str(val), 300)) if kind != 'ret'
                                                               else 'returned ' + _short(val, 300)),
          raw_http_response_bytes=_short(payload, 3000), transport='loopback socket, server closes after the bytes (%s)' % key[1])
    if kind == 'hang':
        viol('no-termination')
    elif kind == 'esc':
        viol(escape_id(val))
    elif kind == 'err':
        if not isinstance(val, DOCUMENTED):
            viol('undocumented-error-class-' + type(val).__name__)
        try:
            str(val), repr(val)
        except Exception as e:
            viol('error-str-raises-' + type(e).__name__)
        if exp == 'return':
            viol('valid-reply-rejected-' + type(val).__name__)
        elif exp is not None and not isinstance(val, exp):
            viol('wrong-error-class-%s-for-raw-%s' % (type(val).__name__, key[0]))
    else:
        if spec.check(val) is not True:
            viol('wrong-result-type-' + spec.meth)
        if exp not in (None, 'return'):
            viol('bad-reply-accepted-raw-' + key[0])


# ---------------------------------------------------------------------------------------------------------
# result lists with one element of the wrong kind (DTD-valid or nearly valid, semantically wrong)
# ---------------------------------------------------------------------------------------------------------

def kb_i(i):
    return keyb('Key', N('KEYVALUE', {'VALUETYPE': 'string', 'TYPE': 'string'}, 'k%d' % i))


def iname_i(i):
    return iname('CIM_Foo', kb_i(i))


def ipath_i(i):
    return N('INSTANCEPATH', None, nsp(), iname_i(i))


def lipath_i(i):
    return N('LOCALINSTANCEPATH', None, lnsp(), iname_i(i))


def inst_i(i):
    return inst(prop('Key', 'string', 'k%d' % i), prop('Num', 'uint8', str(i)))


def cname_i(i):
    return cname('CIM_C%d' % i)


def cpath_i(i):
    return N('CLASSPATH', None, nsp(), cname_i(i))


def lcpath_i(i):
    return N('LOCALCLASSPATH', None, lnsp(), cname_i(i))


def klass_i(i):
    return N('CLASS', {'NAME': 'CIM_C%d' % i, 'SUPERCLASS': 'CIM_Base'}, qual(),
             N('PROPERTY', {'NAME': 'Key', 'TYPE': 'string'}, qual('Key', 'boolean', V_('true'))))


def _w(tag, *builders):
    return lambda i: N(tag, None, *[b(i) for b in builders])


OWP, OWLP, VO, OP, NI, IWP = ('VALUE.OBJECTWITHPATH', 'VALUE.OBJECTWITHLOCALPATH', 'VALUE.OBJECT', 'OBJECTPATH',
                              'VALUE.NAMEDINSTANCE', 'VALUE.INSTANCEWITHPATH')
# name -> builder(i) of one child of IRETURNVALUE.  The part of the name before '/' is the element tag family:
# members of one family pass a "children of IRETURNVALUE are all the same element" rule, the others do not.
HET = {
    'OWP/inst': _w(OWP, ipath_i, inst_i), 'OWP/class': _w(OWP, cpath_i, klass_i),
    'OWP/ipath+class': _w(OWP, ipath_i, klass_i), 'OWP/cpath+inst': _w(OWP, cpath_i, inst_i),
    'OWP/iname+inst': _w(OWP, iname_i, inst_i), 'OWP/lipath+inst': _w(OWP, lipath_i, inst_i),
    'OWP/lcpath+class': _w(OWP, lcpath_i, klass_i), 'OWP/inst-only': _w(OWP, inst_i), 'OWP/cpath-only': _w(OWP, cpath_i),
    'OWP/inst+ipath': _w(OWP, inst_i, ipath_i), 'OWP/empty': _w(OWP),
    'OWLP/inst': _w(OWLP, lipath_i, inst_i), 'OWLP/class': _w(OWLP, lcpath_i, klass_i),
    'OWLP/lipath+class': _w(OWLP, lipath_i, klass_i), 'OWLP/lcpath+inst': _w(OWLP, lcpath_i, inst_i),
    'OWLP/ipath+inst': _w(OWLP, ipath_i, inst_i), 'OWLP/cname+class': _w(OWLP, cname_i, klass_i),
    'VO/inst': _w(VO, inst_i), 'VO/class': _w(VO, klass_i), 'VO/iname': _w(VO, iname_i), 'VO/inst+class': _w(VO, inst_i, klass_i),
    'VO/empty': _w(VO),
    'OP/inst': _w(OP, ipath_i), 'OP/class': _w(OP, cpath_i), 'OP/iname': _w(OP, iname_i), 'OP/cname': _w(OP, cname_i),
    'OP/lipath': _w(OP, lipath_i), 'OP/lcpath': _w(OP, lcpath_i), 'OP/ipath+cpath': _w(OP, ipath_i, cpath_i), 'OP/empty': _w(OP),
    'INSTANCENAME': iname_i, 'CLASSNAME': cname_i,
    'INSTANCEPATH': ipath_i, 'INSTANCEPATH/cname': _w('INSTANCEPATH', lambda i: nsp(), cname_i),
    'INSTANCEPATH/lnsp': _w('INSTANCEPATH', lambda i: lnsp(), iname_i),
    'CLASSPATH': cpath_i, 'CLASSPATH/iname': _w('CLASSPATH', lambda i: nsp(), iname_i),
    'LOCALINSTANCEPATH': lipath_i, 'LOCALCLASSPATH': lcpath_i,
    'NI': _w(NI, iname_i, inst_i), 'NI/iname+class': _w(NI, iname_i, klass_i), 'NI/cname+inst': _w(NI, cname_i, inst_i),
    'NI/ipath+inst': _w(NI, ipath_i, inst_i), 'NI/inst+iname': _w(NI, inst_i, iname_i), 'NI/inst-only': _w(NI, inst_i),
    'IWP': _w(IWP, ipath_i, inst_i), 'IWP/cpath+inst': _w(IWP, cpath_i, inst_i), 'IWP/ipath+class': _w(IWP, ipath_i, klass_i),
    'IWP/cpath+class': _w(IWP, cpath_i, klass_i), 'IWP/iname+inst': _w(IWP, iname_i, inst_i), 'IWP/inst-only': _w(IWP, inst_i),
    'INSTANCE': inst_i, 'CLASS': klass_i,
    'QDECL': lambda i: qdecl('Q%d' % i, 'string', N('SCOPE', {'CLASS': 'true'}), V_('d')),
    'VALUE': lambda i: V_('v%d' % i), 'VALUE.NULL': lambda i: N('VALUE.NULL'),
    'VALUE.ARRAY': lambda i: N('VALUE.ARRAY', None, V_('a'), V_('b')),
    'VALUE.REFERENCE/inst': _w('VALUE.REFERENCE', ipath_i), 'VALUE.REFERENCE/class': _w('VALUE.REFERENCE', cpath_i),
}
# the element of the baseline reply of a variant, and the elements most easily confused with it
HET_NORMAL = {'namedinstances': 'NI', 'instancenames': 'INSTANCENAME', 'objwithpath_inst': 'OWP/inst', 'objwithpath_class': 'OWP/class',
              'objectpath_inst': 'OP/inst', 'objectpath_class': 'OP/class', 'valueobject_inst': 'VO/inst', 'instwithpath': 'IWP',
              'instancepaths': 'INSTANCEPATH', 'instances': 'INSTANCE', 'classes': 'CLASS', 'classnames': 'CLASSNAME',
              'qualdecls': 'QDECL', 'instance': 'INSTANCE'}
HET_CONFUSED = {'NI': ('IWP', 'INSTANCE', 'OWP/inst', 'CLASS'), 'INSTANCENAME': ('CLASSNAME', 'INSTANCEPATH', 'OP/inst', 'INSTANCE'),
                'OWP/inst': ('OWLP/inst', 'VO/inst', 'IWP', 'INSTANCE', 'OP/inst'), 'OWP/class': ('OWLP/class', 'VO/class', 'CLASS', 'OP/class'),
                'OWLP/inst': ('OWP/inst', 'VO/inst'), 'OWLP/class': ('OWP/class', 'VO/class'),
                'OP/inst': ('INSTANCEPATH', 'INSTANCENAME', 'CLASSPATH', 'OWP/inst'), 'OP/class': ('CLASSPATH', 'CLASSNAME', 'INSTANCEPATH'),
                'VO/inst': ('OWP/inst', 'OWLP/inst', 'INSTANCE', 'CLASS', 'OWP/class'), 'IWP': ('NI', 'OWP/inst', 'OWP/class', 'INSTANCE', 'CLASS'),
                'INSTANCEPATH': ('CLASSPATH', 'INSTANCENAME', 'LOCALINSTANCEPATH', 'OP/inst', 'OP/class'),
                'INSTANCE': ('CLASS', 'NI', 'VO/inst', 'INSTANCENAME'), 'CLASS': ('INSTANCE', 'CLASSNAME', 'VO/class', 'OWP/class', 'QDECL'),
                'CLASSNAME': ('INSTANCENAME', 'CLASSPATH', 'CLASS', 'VALUE', 'OP/class'), 'QDECL': ('CLASS', 'VALUE', 'INSTANCE')}
# replies that are equally valid for the operation (DSP0200 allows several element kinds)
HET_ALT_NORMAL = {'Associators/inst': ('OWLP/inst',), 'Associators/class': ('OWLP/class',), 'References/inst': ('OWLP/inst',),
                  'References/class': ('OWLP/class',), 'ExecQuery': ('OWP/inst', 'OWLP/inst'),
                  'IterQueryInstances/fallback': ('OWLP/inst',)}
SCALAR_OPS = ('GetInstance', 'GetClass', 'GetQualifier', 'CreateInstance')


def family(nm):
    return nm.split('/')[0]


def result_items(spec, val):
    for f in ('instances', 'paths'):
        if hasattr(val, f):
            return getattr(val, f)
    if spec.meth == 'IterQueryInstances' and isinstance(val, tuple):
        return val[0]
    return val


def odd_positions(n):
    return sorted({0, n // 2, n - 1})


def het_case(spec, key, elems, explen):
    """One reply whose IRETURNVALUE holds `elems`.  A pywbem.Error or a result entirely of the documented element type
    is fine (case() judges that); a result of the right type but with fewer/more elements than were sent means the
    odd element was dropped or duplicated on the way."""
    reply = Reply(doc(spec.root(kids=[irv(*elems)] + spec.params())))
    kind, val = case(spec, key, reply)
    if kind == 'ret' and explen is not None:
        try:
            ok = spec.check(val) is True
            n = len(result_items(spec, val))
        except Exception:
            return kind, val
        if ok and n != explen:
            first, plan = plan_for(spec, reply)
            V('mixed-list-element-silently-dropped-' + spec.meth, case=repr(key), outcome='returned %d elements, %d expected: %s'
              % (n, explen, _short(val, 300)), **describe(spec, first, plan))
    return kind, val


def sec_mixed_lists():
    """Lists of length 1..4 (thorough: ..5) of the element the operation normally returns, with one (thorough: also two)
    elements of another kind at the first, a middle and the last position; every list-returning variant."""
    for spec in SPECS:
        if spec.rsptag != 'IMETHODRESPONSE' or spec.kind not in HET_NORMAL or spec.key in SCALAR_OPS:
            continue
        is_iter = spec.meth.startswith('Iter')
        normals = (HET_NORMAL[spec.kind],) + (HET_ALT_NORMAL.get(spec.key, ()) if THOROUGH or not is_iter else ())
        for normal in normals:
            nb = HET[normal]
            # homogeneous lists are valid replies and calibrate the length of the result
            explen = {}
            for n in range(0, 6 if THOROUGH else 5):
                kind, val = case(spec, ('mixed', normal, 'homogeneous', n),
                                 Reply(doc(spec.root(kids=[irv(*[nb(i) for i in range(n)])] + spec.params()))), 'return',
                                 'list of %d valid %s elements' % (n, normal))
                if kind == 'ret':
                    try:
                        explen[n] = len(result_items(spec, val))
                    except Exception:
                        pass
            if THOROUGH:
                odds = [o for o in HET if o != normal]
                lengths = (1, 2, 3, 4, 5)
            else:
                odds = [o for o in HET if o != normal and family(o) == family(normal)]
                odds += [o for o in HET_CONFUSED.get(normal, ()) if o not in odds]
                if is_iter or normal != normals[0]:
                    odds = odds[:4] + list(HET_CONFUSED.get(normal, ())[:1])
                lengths = (1, 3) if is_iter else (1, 2, 3, 4)
            for odd in odds:
                ob = HET[odd]
                for n in lengths:
                    for pos in odd_positions(n):
                        elems = [ob(i) if i == pos else nb(i) for i in range(n)]
                        het_case(spec, ('mixed', normal, odd, n, pos), elems, explen.get(n))
                if THOROUGH:
                    for n in (2, 3, 4, 5):      # two odd elements
                        for p1, p2 in {(0, n - 1), (0, 1), (n - 2, n - 1), (n // 2, n - 1)}:
                            if p1 < p2:
                                elems = [ob(i) if i in (p1, p2) else nb(i) for i in range(n)]
                                het_case(spec, ('mixed2', normal, odd, n, p1, p2), elems, explen.get(n))
            # the odd elements in an IRETURNVALUE of their own, before and after the regular one
            for odd in odds if THOROUGH else odds[:3]:
                for order in (0, 1):
                    irvs = [irv(nb(0), nb(1)), irv(HET[odd](2))]
                    case(spec, ('mixed-two-irv', normal, odd, order), Reply(doc(spec.root(kids=irvs[::1 - 2 * order] + spec.params()))))


def sec_scalar_results():
    """Operations with a single object as result, given several objects, objects of another kind, or a mixture."""
    for key in SCALAR_OPS:
        spec = SPEC[key]
        normal = HET_NORMAL[spec.kind]
        nb = HET[normal]
        for n in (1, 2, 3, 4):
            case(spec, ('scalar', 'homogeneous', n), Reply(doc(spec.root(kids=[irv(*[nb(i) for i in range(n)])]))))
        for odd, ob in HET.items():
            if odd == normal:
                continue
            shapes = [[ob(0)], [nb(0), ob(1)], [ob(0), nb(1)], [ob(0), ob(1)]]
            if THOROUGH:
                shapes += [[nb(0), nb(1), ob(2)], [ob(0), nb(1), nb(2)], [nb(0), ob(1), nb(2)], [ob(0), ob(1), ob(2), ob(3)]]
            for j, elems in enumerate(shapes):
                case(spec, ('scalar', odd, j), Reply(doc(spec.root(kids=[irv(*elems)]))))
                if THOROUGH and j < 2:
                    case(spec, ('scalar-two-irv', odd, j), Reply(doc(spec.root(kids=[irv(e) for e in elems]))))


# InvokeMethod: arrays in output parameters; (PARAMTYPE, valid item builder, [odd item builders])
def _vref(x):
    return N('VALUE.REFERENCE', None, x)


INVOKE_ARRAYS = [
    ('uint8', lambda i: V_(str(i)), {'text-x': lambda i: V_('x'), 'empty': lambda i: V_(''), 'range': lambda i: V_('256'),
                                     'null': lambda i: N('VALUE.NULL'), 'real': lambda i: V_('1.5'), 'bool': lambda i: V_('true'),
                                     'nested': lambda i: N('VALUE.ARRAY', None, V_('1')), 'ref': lambda i: _vref(ipath_i(i)),
                                     'instance': inst_i, 'novalue': lambda i: N('VALUE')}),
    ('sint64', lambda i: V_(str(-i)), {'text-x': lambda i: V_('x'), 'range': lambda i: V_('9223372036854775808'),
                                       'null': lambda i: N('VALUE.NULL'), 'hex': lambda i: V_('0x1G')}),
    ('real32', lambda i: V_('%d.5' % i), {'text-x': lambda i: V_('x'), 'null': lambda i: N('VALUE.NULL'), 'empty': lambda i: V_('')}),
    ('boolean', lambda i: V_('true'), {'text-x': lambda i: V_('x'), 'empty': lambda i: V_(''), 'one': lambda i: V_('1'),
                                       'null': lambda i: N('VALUE.NULL'), 'ref': lambda i: _vref(ipath_i(i))}),
    ('string', lambda i: V_('s%d' % i), {'null': lambda i: N('VALUE.NULL'), 'ref': lambda i: _vref(ipath_i(i)), 'instance': inst_i,
                                         'nested': lambda i: N('VALUE.ARRAY', None, V_('1')), 'classname': cname_i}),
    ('datetime', lambda i: V_('2024010112000%d.000000+000' % i), {'text-x': lambda i: V_('x'), 'null': lambda i: N('VALUE.NULL'),
                                                                    'interval': lambda i: V_('00000001000000.000000:000'),
                                                                    'empty': lambda i: V_('')}),
    ('reference', lambda i: _vref(ipath_i(i)), {'classref': lambda i: _vref(cpath_i(i)), 'localref': lambda i: _vref(lipath_i(i)),
                                                 'nameref': lambda i: _vref(iname_i(i)), 'value': lambda i: V_('x'),
                                                 'uri': lambda i: V_('//srv1/root/cimv2:CIM_Foo.Key="k1"'), 'null': lambda i: N('VALUE.NULL'),
                                                 'bare-iname': iname_i, 'bare-ipath': ipath_i, 'emptyref': lambda i: N('VALUE.REFERENCE'),
                                                 'ref-inst': lambda i: _vref(inst_i(i)), 'instance': inst_i}),
]


def invoke_typed_ok(v, t, depth=0):
    """v is the value of an output parameter / return value the reply declared as PARAMTYPE t."""
    if v is None:
        return True
    if t in ('string', 'char16', 'reference'):
        # documented as "CIM data type" only: pywbem hands back what the value element held, also a reference in a
        # parameter declared as string and a string in one declared as reference -- within the documented type
        return ok_cimdata(v)
    if isinstance(v, list):
        return depth == 0 and all(invoke_typed_ok(x, t, 1) for x in v)
    if t != 'boolean' and isinstance(v, bool):
        return False
    return isinstance(v, TYPE_CLASSES[t])


def invoke_case(spec, key, kids, t, shape):
    """shape: 'array' | 'scalar' | None (anything of type t) for output parameter 'o'; 'rv' checks the return value."""
    reply = Reply(doc(spec.root(kids=kids)))
    kind, val = case(spec, key, reply)
    if kind != 'ret' or not ok_invoke(val):
        return
    v = val[0] if shape == 'rv' else val[1].get('o') if 'o' in val[1] else None
    bad = None
    if not invoke_typed_ok(v, t):
        bad = 'not-of-the-declared-type'
    elif shape in ('scalar', 'rv') and isinstance(v, list):
        bad = 'list-for-a-scalar'
    if bad:
        first, plan = plan_for(spec, reply)
        what = 'return-value' if shape == 'rv' else 'output-parameter'
        V('InvokeMethod-%s-%s-%s' % (what, t, bad), case=repr(key), outcome='returned ' + _short(val, 400),
          **describe(spec, first, plan))


def sec_invoke_arrays():
    specs = [SPEC['InvokeMethod/inst']] + ([SPEC['InvokeMethod/class']] if THOROUGH else [])
    rv = N('RETURNVALUE', {'PARAMTYPE': 'uint32'}, V_('0'))
    for spec in specs:
        for t, nb, odds in INVOKE_ARRAYS:
            arr = 'VALUE.REFARRAY' if t == 'reference' else 'VALUE.ARRAY'
            for n in range(0, 6 if THOROUGH else 5):
                for withrv in (True, False) if THOROUGH else (True,):
                    kids = ([rv.copy()] if withrv else []) + [pv('o', t, N(arr, None, *[nb(i) for i in range(n)]))]
                    kind, val = case(spec, ('invoke-array', t, 'homogeneous', n, withrv), Reply(doc(spec.root(kids=kids))), 'return',
                                     'array output parameter of %d valid items' % n)
                    if kind == 'ret' and not (isinstance(val[1].get('o'), list) and len(val[1]['o']) == n and invoke_typed_ok(val[1]['o'], t)):
                        V('InvokeMethod-array-output-parameter-%s-value-differs' % t, outcome='returned ' + _short(val, 400),
                          reply=_short(doc(spec.root(kids=kids))))
            for oname, ob in odds.items():
                for n in (1, 2, 3, 4) + ((5,) if THOROUGH else ()):
                    for pos in odd_positions(n):
                        items = [ob(i) if i == pos else nb(i) for i in range(n)]
                        invoke_case(spec, ('invoke-array', t, oname, n, pos), [rv.copy(), pv('o', t, N(arr, None, *items))], t, 'array')
                        if THOROUGH or (n, pos) in ((1, 0), (3, 1)):
                            # the other array element kind, and no declared type
                            other = 'VALUE.ARRAY' if arr == 'VALUE.REFARRAY' else 'VALUE.REFARRAY'
                            invoke_case(spec, ('invoke-array-other', t, oname, n, pos), [rv.copy(), pv('o', t, N(other, None, *items))], t, None)
                            case(spec, ('invoke-array-untyped', t, oname, n, pos),
                                 Reply(doc(spec.root(kids=[pv('o', None, N(arr, None, *items))]))))
                # scalar positions: the odd item as the only child, two children, and as RETURNVALUE
                invoke_case(spec, ('invoke-scalar', t, oname), [rv.copy(), pv('o', t, ob(0))], t, None)
                invoke_case(spec, ('invoke-scalar-two', t, oname), [rv.copy(), pv('o', t, nb(0), ob(1))], t, None)
                invoke_case(spec, ('invoke-rv', t, oname), [N('RETURNVALUE', {'PARAMTYPE': t}, ob(0))], t, 'rv')
                invoke_case(spec, ('invoke-rv-two', t, oname), [N('RETURNVALUE', {'PARAMTYPE': t}, nb(0), ob(1))], t, 'rv')
            # a list where a scalar is documented: RETURNVALUE holding an array, several RETURNVALUEs
            for n in (0, 1, 2):
                invoke_case(spec, ('invoke-rv-array', t, n), [N('RETURNVALUE', {'PARAMTYPE': t}, N(arr, None, *[nb(i) for i in range(n)]))],
                            t, 'rv')
            invoke_case(spec, ('invoke-rv-twice', t), [N('RETURNVALUE', {'PARAMTYPE': t}, nb(0)), N('RETURNVALUE', {'PARAMTYPE': t}, nb(1))],
                        t, 'rv')
            invoke_case(spec, ('invoke-rv-after-pv', t), [pv('o', t, nb(0)), N('RETURNVALUE', {'PARAMTYPE': t}, nb(1))], t, None)
        # embedded objects in arrays: instances and classes mixed, and text that is no object
        for attr in ('EmbeddedObject', 'EMBEDDEDOBJECT'):
            for emb in ('instance', 'object'):
                for oname, otxt in (('class', emb_class_text()), ('text', 'plain'), ('empty', ''), ('xml-other', '<VALUE>x</VALUE>'),
                                    ('null', None), ('iname', ser(iname()))):
                    for n in (1, 2, 3, 4):
                        for pos in odd_positions(n):
                            items = [(N('VALUE.NULL') if otxt is None else V_(otxt)) if i == pos else V_(ser(inst_i(i))) for i in range(n)]
                            kids = [rv.copy(), N('PARAMVALUE', {'NAME': 'o', 'PARAMTYPE': 'string', attr: emb}, N('VALUE.ARRAY', None, *items))]
                            case(spec, ('invoke-emb-array', attr, emb, oname, n, pos), Reply(doc(spec.root(kids=kids))))


def main():
    before = set(threading.enumerate())
    parts = [sec_baselines, sec_cross, sec_envelope, sec_fragments, sec_http, sec_bytes, sec_depth, sec_loopback,
             sec_mixed_lists, sec_scalar_results, sec_invoke_arrays]
    if THOROUGH:
        parts.append(sec_pairs)
    for part in parts:
        try:
            part()
        except Hang:
            V('no-termination-in-' + part.__name__)
        except Exception as e:      # a crash of the harness itself must not look like a pass
            V('harness-error-in-' + part.__name__, error=type(e).__name__ + ': ' + str(e)[:300], where=traceback.format_exc()[-900:])
        sys.stderr.write('C02 %-14s cases=%d t=%.1fs %r\n' % (part.__name__, R.cases, __import__('time').time() - R.t0, STATS))
    for conn in ALL_CONNS:
        try:
            conn.close()
        except Exception:
            pass
    signal.setitimer(signal.ITIMER_REAL, 0)
    left = [t.name for t in threading.enumerate() if t not in before and t.is_alive()]
    if left:
        V('threads-left-behind', threads=left)
    order = sorted(VIOL, key=lambda v: (v.startswith('known:'), v))
    sys.stderr.write('C02 violation ids (%d):\n  %s\n' % (len(order), '\n  '.join(order)))
    for vid in order:
        R.violation(vid, **VIOL[vid])
    R.finish()


main()
