"""Bounded stand-in for C15: Iter... operations equal the traditional result, with or without pull; clean up.

Set-up.  A FakedWBEMConnection is the WBEM *server* (repository, Open/Pull/Close sessions, the
disable_pull_operations switch).  The *clients* are real, plain pywbem.WBEMConnection objects whose transport
(`_imethodcall`) is a small adapter handing each request to the server's request entry point; that makes a fresh
connection cheap, keeps a log of the requests the server received and allows a scripted fault (an exception in
place of the n-th Open/Pull response).  A smaller part uses FakedWBEMConnection itself as the client (constructor
parameters, the property setter).

The mock has no query engine (MainProvider.ExecQuery is a NOT_SUPPORTED stub).  As the package's own unit tests do,
the stub is replaced on the provider *instance* by a function returning instances; OpenQueryInstances uses it.  The
traditional ExecQuery *response* is produced by the adapter from the same function (the mock's own wrapper for it
is only reachable with such a replacement and is covered by a separate, narrow scenario).

Oracle.  A reference model that knows nothing of the client's flags:
  * the outcome of every call is the outcome on a fresh connection = f(use_pull_operations setting, server
    capability now, arguments):  invalid MaxObjectCount/OperationTimeout -> ValueError/TypeError;  setting True on
    a server without pull -> CIM_ERR_NOT_SUPPORTED;  traditional route with FilterQuery/ContinueOnError ->
    ValueError;  otherwise the objects of the traditional operation (obtained on a separate reference connection
    that never runs an Iter operation, and cross-checked against the repository content known by construction),
    each path naming the namespace, and the host for the two operations whose traditional format has no host;
  * whatever the consumption pattern, no enumeration context is left in the server's table;
  * what was yielded before an early stop / an error is a sub-multiset of the result, an injected error is the one
    that surfaces.
"""
import gc
import itertools
import random
from collections import Counter
from bounded.common import Run
import pywbem_mock
from pywbem import (WBEMConnection, CIMClass, CIMClassName, CIMProperty, CIMQualifier, CIMQualifierDeclaration,
                    CIMInstance, CIMInstanceName, CIMError, Uint32)
from pywbem import ConnectionError as WBEMConnectionError, TimeoutError as WBEMTimeoutError

R = Run('7 Iter ops x use_pull_operations {None,True,False} x server pull {on,off} x 2 namespaces x result sizes '
        '0..N x MaxObjectCount 1..N+1 (+omitted) x {exhaust, close/drop/throw after k=0..n} (N=3 quick, 4 thorough); '
        '~25 argument variants per op kind; invalid MaxObjectCount/OperationTimeout; scripted faults at Open / k-th '
        'Pull (CIM_ERR_FAILED, NOT_SUPPORTED, ACCESS_DENIED, ConnectionError, TimeoutError), context dropped by the '
        'server, each + follow-up call; all 2-call sequences (op, server toggled, pull-only args, stop early) on one '
        'connection + 3-call sequences (same op exhaustive, mixed sampled); 2 interleaved generators; '
        'FakedWBEMConnection as client (constructor/property switch)')

THOROUGH = R.tier == 'thorough'
N = 4 if THOROUGH else 3
URL = 'http://FakedUrl:5988'
DFLT, OTHER = 'c15/dflt', 'c15/other'
NOWHERE = 'c15/nowhere'
EI, EIP, AI, AIP, RI, RIP, QI = 'EI', 'EIP', 'AI', 'AIP', 'RI', 'RIP', 'QI'
# op -> (Iter method, traditional method, yields instances?)
OPS = {
    EI: ('IterEnumerateInstances', 'EnumerateInstances'),
    EIP: ('IterEnumerateInstancePaths', 'EnumerateInstanceNames'),
    AI: ('IterAssociatorInstances', 'Associators'),
    AIP: ('IterAssociatorInstancePaths', 'AssociatorNames'),
    RI: ('IterReferenceInstances', 'References'),
    RIP: ('IterReferenceInstancePaths', 'ReferenceNames'),
    QI: ('IterQueryInstances', 'ExecQuery'),
}
ENUM, ASSOC, REF = (EI, EIP), (AI, AIP), (RI, RIP)
HOST_COMPLETED = (EI, EIP)      # traditional response format (INSTANCENAME / VALUE.NAMEDINSTANCE) carries no host
PULL_ONLY_KW = ('FilterQueryLanguage', 'FilterQuery', 'OperationTimeout', 'ContinueOnError', 'MaxObjectCount',
                'ReturnQueryResultClass')
QUERY = ('DMTF:FQL', 'SELECT * FROM C15_Item')
NOT_SUPPORTED, FAILED, ACCESS_DENIED, INVALID_CTX = 7, 1, 2, 21


# ---------------------------------------------------------------------------------------------------------
# repository: n items (the last one, if n >= 2, of a subclass), one hub, n links hub -> item
# ---------------------------------------------------------------------------------------------------------

def _key():
    return CIMQualifier('Key', True)


def tag(i, ns):
    return 't%d@%s' % (i, ns)


def populate(conn, ns, n):
    conn.add_cimobjects([
        CIMQualifierDeclaration('Key', 'boolean', value=False, scopes={'PROPERTY': True, 'REFERENCE': True},
                                overridable=False, tosubclass=True),
        CIMQualifierDeclaration('Association', 'boolean', value=False, scopes={'ASSOCIATION': True},
                                overridable=False, tosubclass=True)], namespace=ns)
    conn.add_cimobjects([
        CIMClass('C15_Item', properties=[CIMProperty('Id', None, type='uint32', qualifiers=[_key()]),
                                         CIMProperty('Tag', None, type='string')]),
        CIMClass('C15_SubItem', superclass='C15_Item', properties=[CIMProperty('Extra', None, type='string')]),
        CIMClass('C15_Hub', properties=[CIMProperty('Id', None, type='uint32', qualifiers=[_key()])]),
        CIMClass('C15_Link', qualifiers=[CIMQualifier('Association', True)], properties=[
            CIMProperty('Hub', None, type='reference', reference_class='C15_Hub', qualifiers=[_key()]),
            CIMProperty('Item', None, type='reference', reference_class='C15_Item', qualifiers=[_key()])])],
        namespace=ns)
    hp = CIMInstanceName('C15_Hub', {'Id': Uint32(0)}, namespace=ns)
    objs = [CIMInstance('C15_Hub', {'Id': Uint32(0)}, path=hp)]
    for i in range(n):
        cls = 'C15_SubItem' if (n >= 2 and i == n - 1) else 'C15_Item'
        ip = CIMInstanceName(cls, {'Id': Uint32(i)}, namespace=ns)
        props = {'Id': Uint32(i), 'Tag': tag(i, ns)}
        if cls == 'C15_SubItem':
            props['Extra'] = 'x'
        objs.append(CIMInstance(cls, props, path=ip))
        objs.append(CIMInstance('C15_Link', {'Hub': hp, 'Item': ip},
                                path=CIMInstanceName('C15_Link', {'Hub': hp, 'Item': ip}, namespace=ns)))
    conn.add_cimobjects(objs, namespace=ns)


class Server:
    """The mock as WBEM server, its context table, its pull switch, and a reference client for the traditional
    operations."""

    def __init__(self, sizes, mock=None):
        self.sizes = dict(sizes)
        self.mock = mock or pywbem_mock.FakedWBEMConnection(default_namespace=DFLT)
        for ns, n in self.sizes.items():
            if ns != DFLT:
                self.mock.add_namespace(ns)
            populate(self.mock, ns, n)
        self.mock._mainprovider.ExecQuery = self.query_engine      # see module doc
        self.table = self.mock._mainprovider.enumeration_contexts
        self.ref = WBEMConnection(URL, default_namespace=DFLT, use_pull_operations=False)
        self.ref._imethodcall = Adapter(self)
        self._trad = {}

    def query_engine(self, namespace, QueryLanguage, Query):
        ns = namespace.strip('/').lower()
        return [CIMInstance('C15_Item', {'Id': Uint32(i), 'Tag': tag(i, ns)}) for i in range(self.sizes[ns])]

    def set_pull(self, enabled):
        self.mock.disable_pull_operations = not enabled

    def traditional(self, op, V, ns):
        key = (op, V.name, ns)
        if key not in self._trad:
            args, kw = V.build(op, ns)
            tkw = {k: v for k, v in kw.items() if k not in PULL_ONLY_KW}
            try:
                out = ('ok', list(getattr(self.ref, OPS[op][1])(*args, **tkw)))
            except CIMError as e:
                out = ('cim', e.status_code)
            except Exception as e:     # noqa
                out = ('exc', type(e).__name__)
            self._trad[key] = out
        return self._trad[key]


class Adapter:
    """Transport of a client: hands the request to the server, logs it, can replace one response by an exception."""

    def __init__(self, server, own_execquery=True):
        self.server = server
        self.own_execquery = own_execquery
        self.reset()

    def reset(self):
        self.log = []          # [methodname, MaxObjectCount, 'ok' | CIM status code | 'fault']
        self.counts = Counter()
        self.fault = None      # (kind, ordinal, exception factory)
        self.fired = False

    def __call__(self, methodname, namespace, response_params_rqd=None, **params):
        kind = 'Open' if methodname.startswith('Open') else 'Pull' if methodname.startswith('Pull') else methodname
        self.counts[kind] += 1
        entry = [methodname, params.get('MaxObjectCount'), None]
        self.log.append(entry)
        if len(self.log) > 300:
            raise RuntimeError('C15 harness: more than 300 requests in one call (runaway pull loop)')
        if self.fault and self.fault[0] == kind and self.fault[1] == self.counts[kind]:
            self.fired = True
            entry[2] = 'fault'
            raise self.fault[2]()
        try:
            if methodname == 'ExecQuery' and self.own_execquery:
                mp = self.server.mock._mainprovider
                mp.validate_namespace(namespace)
                insts = mp.ExecQuery(namespace, params['QueryLanguage'], params['Query'])
                res = [('IRETURNVALUE', {}, [('VALUE.OBJECT', {}, i) for i in insts])]
            else:
                res = self.server.mock._mock_imethodcall(methodname, namespace,
                                                         response_params_rqd=response_params_rqd, **params)
        except CIMError as e:
            entry[2] = e.status_code
            raise
        entry[2] = 'ok'
        return res

    def opened(self):
        return any(e[0].startswith('Open') and e[2] == 'ok' for e in self.log)

    def names(self):
        return [e[0] for e in self.log]


def new_client(server, S):
    kw = {} if S == 'omit' else {'use_pull_operations': S}
    c = WBEMConnection(URL, default_namespace=DFLT, **kw)
    c._imethodcall = Adapter(server)
    return c


def setting(S):
    return False if S == 'omit' else S        # documented default of WBEMConnection and of the mock


# ---------------------------------------------------------------------------------------------------------
# argument variants
# ---------------------------------------------------------------------------------------------------------

def hub(ns, explicit=True, host=None, ident=0, cls='C15_Hub'):
    return CIMInstanceName(cls, {'Id': Uint32(ident)}, namespace=ns if explicit else None, host=host)


def ids_all(n):
    return list(range(n))


def ids_sub(n):
    return [n - 1] if n >= 2 else []


def ids_none(n):
    return []


class V:
    """One way of calling an operation.  ids: item numbers of the result known by construction (None: whatever the
    traditional operation does, e.g. an error).  pull_only: uses FilterQuery/ContinueOnError.  subset: the result
    may be any part of the unfiltered result (the filter semantics are not the subject here)."""

    def __init__(self, name, ops, kw=None, ids=ids_all, target=None, pull_only=False, subset=False, dflt_only=False,
                 cls='C15_Item', nsform=None, obj=None, pull_route_only=False):
        self.name, self.ops, self.kw, self.ids = name, ops, kw or {}, ids
        self.target = target            # namespace named in the call, if not the case's namespace
        self.pull_only, self.subset, self.dflt_only = pull_only, subset, dflt_only
        self.cls, self.nsform, self.obj = cls, nsform, obj
        self.pull_route_only = pull_route_only

    def nsarg(self, ns):
        t = self.target or ns
        if self.nsform == 'omit' or (self.nsform is None and t == DFLT):
            return None
        return {'slashes': '/' + t + '/', 'upper': t.upper()}.get(self.nsform, t)

    def build(self, op, ns):
        kw = dict(self.kw)
        t = self.target or ns
        if op in ENUM:
            if self.obj == 'cimclassname':
                return (CIMClassName(self.cls, namespace=t),), kw
            if self.obj == 'cimclassname-host':
                return (CIMClassName(self.cls, namespace=t, host='elsewhere:5989'),), kw
            kw['namespace'] = self.nsarg(ns)
            return (self.cls,), kw
        if op == QI:
            kw['namespace'] = self.nsarg(ns)
            return QUERY, kw
        if self.obj == 'host':
            return (hub(t, host='elsewhere:5989'),), kw
        if self.obj == 'unknown':
            return (hub(t, ident=77),), kw
        if self.obj == 'badclass':
            return (hub(t, cls='C15_Nope'),), kw
        return (hub(t, explicit=self.nsarg(ns) is not None),), kw


FILTER = {'FilterQueryLanguage': 'DMTF:FQL', 'FilterQuery': 'Id = 1'}
GEN6 = ENUM + ASSOC + REF
ALL7 = GEN6 + (QI,)
PLAIN = V('plain', ALL7)
FILT = V('filter', GEN6, FILTER, ids=None, pull_only=True, subset=True)
COE_F = V('continue-on-error-false', ALL7, {'ContinueOnError': False}, pull_only=True)
VARIANTS = [
    PLAIN,
    V('explicit-namespace', ALL7, nsform='explicit'),
    V('namespace-slashes', ENUM + (QI,), nsform='slashes'),
    V('namespace-uppercase', ENUM + (QI,), nsform='upper'),
    V('cimclassname', ENUM, obj='cimclassname'),
    V('cimclassname-host', ENUM, obj='cimclassname-host'),
    V('subclass', ENUM, cls='C15_SubItem', ids=ids_sub),
    V('classname-lowercase', ENUM, cls='c15_item'),
    V('propertylist-tag', (EI, AI), {'PropertyList': ['Tag']}),
    V('propertylist-empty', (EI, AI, RI), {'PropertyList': []}),
    V('propertylist-string', (EI,), {'PropertyList': 'Tag'}),
    V('propertylist-item', (RI,), {'PropertyList': ['Item']}),
    V('deepinheritance-false', (EI,), {'DeepInheritance': False}),
    V('deepinheritance-true', (EI,), {'DeepInheritance': True}),
    V('classorigin', (EI, AI, RI), {'IncludeClassOrigin': True}),
    V('traditional-only-args-false', (EI,), {'LocalOnly': False, 'IncludeQualifiers': False}),
    V('traditional-only-arg-qualifiers-false', (AI, RI), {'IncludeQualifiers': False}),
    V('instance-with-host', ASSOC + REF, obj='host'),
    V('assocclass', ASSOC, {'AssocClass': 'C15_Link'}),
    V('assocclass-cimclassname', ASSOC, {'AssocClass': CIMClassName('C15_Link')}),
    V('resultclass-item', ASSOC, {'ResultClass': 'C15_Item'}),
    V('resultclass-subitem', ASSOC, {'ResultClass': 'C15_SubItem'}, ids=ids_sub),
    V('resultclass-hub', ASSOC, {'ResultClass': 'C15_Hub'}, ids=ids_none),
    V('role-hub', ASSOC + REF, {'Role': 'Hub'}),
    V('role-item', ASSOC + REF, {'Role': 'Item'}, ids=ids_none),
    V('resultrole-item', ASSOC, {'ResultRole': 'Item'}),
    V('resultrole-hub', ASSOC, {'ResultRole': 'Hub'}, ids=ids_none),
    V('resultclass-link', REF, {'ResultClass': 'C15_Link'}),
    V('resultclass-link-cimclassname', REF, {'ResultClass': CIMClassName('C15_Link')}),
    V('unknown-instance', ASSOC + REF, obj='unknown', ids=None),
    V('unknown-class-of-instance', ASSOC + REF, obj='badclass', ids=None),
    V('unknown-class', ENUM, cls='C15_Nope', ids=None),
    V('unknown-namespace', ALL7, target=NOWHERE, ids=None),
    FILT,
    COE_F,
    V('continue-on-error-true', ALL7, {'ContinueOnError': True}, pull_only=True),
    V('timeout-0', ALL7, {'OperationTimeout': 0}),
    V('timeout-5', ALL7, {'OperationTimeout': 5}),
    V('timeout-uint32', ALL7, {'OperationTimeout': Uint32(7)}),
    V('query-result-class', (QI,), {'ReturnQueryResultClass': True}, pull_route_only=True),
]
NEG_TIMEOUT = V('timeout-negative', ALL7, {'OperationTimeout': -1})


# ---------------------------------------------------------------------------------------------------------
# canonical forms (own, so that the comparison does not rest on the package's __eq__)
# ---------------------------------------------------------------------------------------------------------

def c_val(v):
    if isinstance(v, CIMInstanceName):
        return ('ref',) + c_path(v) + ((v.host or '').lower(),)
    if isinstance(v, (list, tuple)):
        return ('arr',) + tuple(c_val(x) for x in v)
    return (type(v).__name__, str(v))


def c_path(p):
    """path without host"""
    if p is None:
        return None
    return (p.classname.lower(), None if p.namespace is None else p.namespace.lower(),
            tuple(sorted((k.lower(), c_val(v)) for k, v in p.keybindings.items())))


def canon(o):
    """-> (body, path-without-host, host)"""
    if isinstance(o, CIMInstanceName):
        return (None, c_path(o), o.host)
    if not isinstance(o, CIMInstance):
        return (('not-a-cim-object', repr(o)[:60]), None, None)
    body = (o.classname.lower(),
            tuple(sorted((k.lower(), p.type, bool(p.is_array), c_val(p.value), (p.class_origin or '').lower() or None,
                          p.propagated) for k, p in o.properties.items())),
            tuple(sorted(k.lower() for k in o.qualifiers.keys())))
    return (body, c_path(o.path), None if o.path is None else o.path.host)


def obj_id(o):
    p = o if isinstance(o, CIMInstanceName) else o.path
    if p is not None and p.keybindings:
        if p.classname.lower() == 'c15_link':
            return int(p.keybindings['Item'].keybindings['Id'])
        return int(p.keybindings['Id'])
    return int(o['Id'])


# ---------------------------------------------------------------------------------------------------------
# running one call under a consumption pattern
# ---------------------------------------------------------------------------------------------------------

class Thrown(Exception):
    pass


FAULTS = {
    'CIM_ERR_FAILED': lambda: CIMError(FAILED, 'injected'),
    'CIM_ERR_NOT_SUPPORTED': lambda: CIMError(NOT_SUPPORTED, 'injected'),
    'CIM_ERR_ACCESS_DENIED': lambda: CIMError(ACCESS_DENIED, 'injected'),
    'ConnectionError': lambda: WBEMConnectionError('injected'),
    'TimeoutError': lambda: WBEMTimeoutError('injected'),
}
THROWABLE = {'Thrown': lambda: Thrown('thrown in'), 'CIMError-7': lambda: CIMError(NOT_SUPPORTED, 'thrown in'),
             'CIMError-1': lambda: CIMError(FAILED, 'thrown in')}


def outcome_of(exc):
    if isinstance(exc, CIMError):
        return ('cim', exc.status_code)
    return ('exc', type(exc).__name__)


def take(it, k, items):
    for _ in range(k):
        try:
            items.append(next(it))
        except StopIteration:
            return False
    return True


def run_call(client, server, op, V_, ns, moc, pattern):
    """-> dict(items, out, qrc, started, swallowed, table_before_drop)"""
    args, kw = V_.build(op, ns)
    if moc != 'omit':
        kw['MaxObjectCount'] = moc
    ad = client._imethodcall
    items, res = [], dict(items=None, out=('done',), qrc=None, extra=None)
    p = pattern[0]
    if p == 'fault':
        ad.fault = (pattern[1], pattern[2], FAULTS[pattern[3]])
    try:
        r = getattr(client, OPS[op][0])(*args, **kw)
        if op == QI:
            res['qrc'] = r.query_result_class
            r = r.generator
        it = iter(r)
        if p in ('exhaust', 'fault'):
            for x in it:
                items.append(x)
        elif p == 'close':
            take(it, pattern[1], items)
            r.close()
        elif p == 'drop':
            take(it, pattern[1], items)
            del it, r
            if server.table:
                gc.collect()
        elif p == 'throw':
            if take(it, pattern[1], items):
                got = r.throw(THROWABLE[pattern[2]]())
                res['extra'] = 'generator-continued-after-throw'
                items.append(got)
        elif p == 'dropctx':
            take(it, pattern[1], items)
            res['extra'] = 'context-dropped' if server.table else None
            server.table.clear()
            for x in it:
                items.append(x)
        else:
            raise AssertionError(pattern)
    except Exception as e:     # noqa: the exception kind is part of what is checked
        res['out'] = outcome_of(e)
    finally:
        ad.fault = None
    res['items'] = items
    return res


# ---------------------------------------------------------------------------------------------------------
# reference model
# ---------------------------------------------------------------------------------------------------------

def moc_verdict(moc):
    """The documented contract of MaxObjectCount of the Iter operations: a positive integer."""
    if moc == 'omit':
        return None
    if moc is None:
        return ('exc', 'ValueError')
    if not isinstance(moc, int):
        return ('exc', 'TypeError')
    if moc <= 0:
        return ('exc', 'ValueError')
    return None


def fresh_outcome(S, enabled, op, V_, moc, trad, fault=None):
    """Outcome on a connection that has not learned anything: ('exc', name) | ('cim', code) | ('ok', objs) |
    ('subset', objs).  fault: (kind, ordinal, name) scripted on the transport."""
    S = setting(S)
    bad = moc_verdict(moc)
    if bad:
        return bad
    ot = V_.kw.get('OperationTimeout')
    if ot is not None and ot < 0:
        return ('exc', 'ValueError')
    server_says_no = not enabled
    if fault and fault[0] == 'Open' and S is not False:
        exc = FAULTS[fault[2]]()
        if S is None and isinstance(exc, CIMError) and exc.status_code in (NOT_SUPPORTED, FAILED):
            server_says_no = True        # documented: both codes are taken as 'no pull operations'
        else:
            return outcome_of(exc)
    if S is True and server_says_no:
        return ('cim', NOT_SUPPORTED)
    pull = S is True or (S is None and not server_says_no)
    if not pull and V_.pull_only:
        return ('exc', 'ValueError')
    if trad[0] != 'ok':
        return trad
    return ('subset' if (V_.subset and pull) else 'ok', trad[1])


def kind_of(out):
    if out[0] in ('ok', 'subset', 'done'):
        return 'result'
    if out[0] == 'cim':
        return 'CIMError-%d' % out[1]
    return out[1]


class Case:
    """One call with everything needed to replay it."""

    def __init__(self, scenario, S, enabled, op, V_, ns, n, moc, pattern, history=None, client_kind='WBEMConnection'):
        self.d = dict(scenario=scenario, use_pull_operations=repr(S), server_pull=enabled, op=OPS[op][0],
                      variant=V_.name, namespace=ns, result_size=n, MaxObjectCount=repr(moc), pattern=list(pattern),
                      client=client_kind)
        if history:
            self.d['earlier_calls_on_connection'] = list(history)

    def fail(self, vid, **kw):
        R.violation(vid, **dict(self.d, **kw))


def check_call(case, client, server, S, enabled, op, V_, ns, n, moc, pattern, learned=(), touch_switch=True):
    """Runs the call and checks it.  learned: what earlier calls on this connection could have taught it about this
    operation (subset of {True, False}) - only used to tell the known defects from everything else.
    Returns what this call could teach (True/False/None = nothing)."""
    if touch_switch:
        server.set_pull(enabled)
    ad = client._imethodcall
    ad.reset()
    if server.table:
        server.table.clear()
    trad = server.traditional(op, V_, ns)
    # harness sanity: the traditional result is what the repository was built to contain
    if V_.ids is not None:
        want = sorted(V_.ids(n))
        if trad[0] != 'ok' or sorted(obj_id(o) for o in trad[1]) != want:
            case.fail('harness:traditional-result-unexpected', traditional=repr(trad)[:200], expected_ids=want)
            return None
    fault = pattern[1:] if pattern[0] == 'fault' else None
    fresh = fresh_outcome(S, enabled, op, V_, moc, trad, fault)
    res = run_call(client, server, op, V_, ns, moc, pattern)
    out, items = res['out'], res['items']
    started = not (pattern[0] in ('close', 'drop', 'throw') and pattern[1] == 0) or op == QI
    Sx = setting(S)
    ot = V_.kw.get('OperationTimeout')
    valid = moc_verdict(moc) is None and not (ot is not None and ot < 0)
    teach = None
    if Sx is None and started and valid:
        if fault and fault[0] == 'Open':
            teach = False if fault[2] in ('CIM_ERR_FAILED', 'CIM_ERR_NOT_SUPPORTED') else None
        elif not enabled:
            teach = False
        elif trad[0] == 'ok':
            teach = True

    if not started:
        # a generator that was never advanced has not done anything yet
        want = outcome_of(THROWABLE[pattern[2]]()) if pattern[0] == 'throw' else ('done',)
        if out != want or items or ad.log or server.table:
            case.fail('unstarted-generator-acted', outcome=repr(out), requests=ad.names())
            server.table.clear()
        return teach

    # ---- nothing stays open on the server
    left = len(server.table)
    if left:
        server.table.clear()
        case.fail('enumeration-left-open-on-server', contexts=left, requests=ad.names(), outcome=repr(out))
        return teach

    # ---- requests seen by the server
    names = ad.names()
    if moc_verdict(moc) is not None and names:
        case.fail('request-sent-despite-invalid-MaxObjectCount', requests=names)
    if Sx is False and any(x.startswith(('Open', 'Pull', 'Close')) for x in names):
        case.fail('pull-operation-used-although-use_pull_operations-False', requests=names)
    if Sx is True and any(not x.startswith(('Open', 'Pull', 'Close')) for x in names):
        case.fail('traditional-operation-used-although-use_pull_operations-True', requests=names)
    if moc != 'omit' and moc_verdict(moc) is None:
        for e in ad.log:
            if e[0].startswith(('Open', 'Pull')) and (e[1] is None or int(e[1]) != int(moc)):
                case.fail('pull-request-MaxObjectCount-differs', request=e[0], sent=repr(e[1]))
                break

    # ---- expected outcome under the consumption pattern
    expect_kind = kind_of(fresh)
    p = pattern[0]
    exp_out = None            # the exception that has to surface (None: normal end)
    partial = False           # only part of the result may have been yielded
    if fresh[0] in ('ok', 'subset'):
        if p in ('close', 'drop'):
            partial = True
        elif p == 'throw':
            if pattern[1] <= len(fresh[1]):
                exp_out = outcome_of(THROWABLE[pattern[2]]())
                partial = True
        elif p == 'fault' and ad.fired and fault[0] != 'Open':
            exp_out = outcome_of(FAULTS[fault[2]]())
            partial = True
        elif p == 'dropctx' and res['extra'] == 'context-dropped':
            exp_out = ('cim', INVALID_CTX)
            partial = True
    else:
        exp_out = fresh

    got_kind = kind_of(out)
    want_kind = kind_of(exp_out) if exp_out else 'result'
    if res['extra'] == 'generator-continued-after-throw':
        case.fail('exception-thrown-into-generator-swallowed', yielded=len(items))
        return teach
    if got_kind != want_kind:
        # the two known ways in which what the connection learned changes the outcome
        if Sx is None and True in learned and not enabled and out == ('cim', NOT_SUPPORTED) and not fault:
            if expect_kind == 'result':
                case.fail('known:learned-pull-support-fails-call-after-server-stops-pull:' + OPS[op][0],
                          observed=got_kind, fresh_connection='result of %d objects' % len(fresh[1]))
            return teach       # (fresh connection fails as well, differently: not covered by the property)
        if Sx is None and False in learned and enabled and V_.pull_only and out == ('exc', 'ValueError') \
                and not fault and expect_kind == 'result':
            case.fail('known:learned-no-pull-rejects-pull-only-args-after-server-gains-pull:' + OPS[op][0],
                      observed=got_kind, fresh_connection='result of %d objects' % len(fresh[1]))
            return teach
        case.fail('expected-%s-got-%s' % (want_kind, got_kind), requests=names, yielded=len(items))
        return teach
    if exp_out and exp_out[0] in ('exc', 'cim') and fresh[0] not in ('ok', 'subset') and items:
        case.fail('objects-yielded-before-argument-or-server-refusal', yielded=len(items))
        return teach
    if fresh[0] not in ('ok', 'subset'):
        return teach

    # ---- the objects
    exp = [canon(o) for o in fresh[1]]
    got = [canon(o) for o in items]
    pulled = ad.opened()
    if op == QI and pulled and got and all(g[1] is None for g in got) and any(e[1] is not None for e in exp):
        # narrowly: instances without path from the pull route, with a path (class, namespace) from ExecQuery
        case.fail('known:query-instance-path-only-on-traditional-route',
                  pull_route_path=None, traditional_route_path=repr(fresh[1][0].path)[:160])
    if op == QI:
        # query instances are compared by content; a path, where there is one, is checked for the namespace below
        exp = [(e[0], None, None) for e in exp]
        ce = Counter((e[0], None) for e in exp)
        cg = Counter((g[0], None) for g in got)
    else:
        ce = Counter((e[0], e[1]) for e in exp)
        cg = Counter((g[0], g[1]) for g in got)
    if p == 'close' or p == 'drop':
        if len(items) != min(pattern[1], len(exp)) and fresh[0] == 'ok':
            case.fail('wrong-number-of-objects-before-early-stop', yielded=len(items))
            return teach
    if partial or fresh[0] == 'subset':
        extra = cg - ce
        if extra:
            case.fail('object-yielded-twice' if any(ce[k] for k in extra) else 'object-not-in-traditional-result',
                      yielded=len(items), traditional=len(exp), example=repr(list(extra)[0])[:300])
            return teach
    elif cg != ce:
        miss, extra = ce - cg, cg - ce
        vid = 'objects-missing' if miss and not extra else \
            ('object-yielded-twice' if extra and not miss and all(ce[k] for k in extra) else
             'objects-differ-from-traditional-result')
        case.fail(vid, yielded=len(items), traditional=len(exp), requests=names,
                  example_missing=repr(list(miss)[:1])[:300], example_extra=repr(list(extra)[:1])[:300])
        return teach
    # ---- namespace and host of every path
    target = (V_.target or ns).lower()
    hosts = {}
    for e in exp:
        hosts.setdefault((e[0], e[1]), set()).add(None if e[2] is None else e[2].lower())
    lacking = 0
    for o, g in zip(items, got):
        if g[1] is None:
            if op != QI:
                case.fail('yielded-object-without-path', example=repr(o)[:200])
                return teach
            continue
        if g[1][1] is None or g[1][1] != target:
            case.fail('yielded-path-does-not-name-the-namespace', path_namespace=repr(g[1][1]), expected=target)
            return teach
        h = None if g[2] is None else g[2].lower()
        if op in HOST_COMPLETED:
            if h is None:
                lacking += 1
            elif h != client.host.lower():
                case.fail('yielded-path-names-wrong-host', host=g[2], expected=client.host)
                return teach
        elif h not in hosts[(g[0], None if op == QI else g[1])] and h != client.host.lower():
            case.fail('yielded-path-host-differs-from-traditional-result', host=repr(g[2]),
                      traditional=repr(sorted(hosts[(g[0], None if op == QI else g[1])], key=str)))
            return teach
    if lacking:
        if pulled and lacking == len(items):
            # narrowly: objects came through Open/Pull (whose responses the mock builds without host)
            case.fail('known:pull-route-yields-path-without-host:' + OPS[op][0],
                      example=str(items[0] if isinstance(items[0], CIMInstanceName) else items[0].path),
                      traditional_route_host=client.host)
        else:
            case.fail('yielded-path-without-host', lacking=lacking, yielded=len(items), requests=names)
            return teach
    # ---- by construction: item numbers, tags, query result class
    if V_.ids is not None:
        want = sorted(V_.ids(n))
        have = sorted(obj_id(o) for o in items)
        if (not partial and have != want) or (partial and (Counter(have) - Counter(want))):
            case.fail('result-items-differ-from-repository-content', items=have, expected=want)
            return teach
    for o in items:
        if isinstance(o, CIMInstance) and 'Tag' in o and o.classname.lower() != 'c15_link':
            if o['Tag'] != tag(obj_id(o), target):
                case.fail('instance-of-other-namespace-or-item', tag=o['Tag'], expected=tag(obj_id(o), target))
                return teach
    if op == QI and V_.kw.get('ReturnQueryResultClass'):
        q = res['qrc']
        if not isinstance(q, CIMClass) or q.classname.lower() != 'c15_item':
            case.fail('query-result-class-not-returned', got=repr(q)[:100])
    elif op == QI and res['qrc'] is not None:
        case.fail('query-result-class-returned-unrequested', got=repr(res['qrc'])[:100])
    return teach


# ---------------------------------------------------------------------------------------------------------
# scenarios
# ---------------------------------------------------------------------------------------------------------

SERVERS = {}


def server_for(ns, n):
    k = n if ns == DFLT else N - n
    if k not in SERVERS:
        SERVERS[k] = Server({DFLT: k, OTHER: N - k})
    return SERVERS[k]


def one(scenario, S, enabled, op, V_, ns, n, moc, pattern):
    R.case((scenario, repr(S), enabled, op, V_.name, ns, n, repr(moc), pattern))
    srv = server_for(ns, n)
    check_call(Case(scenario, S, enabled, op, V_, ns, n, moc, pattern), new_client(srv, S), srv, S, enabled, op, V_,
               ns, n, moc, pattern)


def patterns_for(n, full):
    ps = [('exhaust',)]
    ks = range(n + 1) if full else sorted({0, 1, n})
    for k in ks:
        ps += [('close', k), ('drop', k), ('throw', k, 'Thrown')]
    return ps


def scenario_grid():
    for op in OPS:
        for S in (None, True, False):
            for enabled in (True, False):
                for ns in (DFLT, OTHER):
                    for n in range(N + 1):
                        for moc in list(range(1, N + 2)) + ['omit']:
                            full = ns == DFLT or THOROUGH
                            for pat in patterns_for(n, full and moc != 'omit'):
                                one('grid', S, enabled, op, PLAIN, ns, n, moc, pat)
    # the documented default of use_pull_operations, and CIM errors thrown into the generator
    for op in OPS:
        for enabled in (True, False):
            for n in (0, 2):
                one('grid', 'omit', enabled, op, PLAIN, DFLT, n, 1, ('exhaust',))
                one('grid', 'omit', enabled, op, FILT if op != QI else COE_F, DFLT, n, 1, ('exhaust',))
            for S in (None, True, False):
                for k in (1, 2):
                    for t in ('CIMError-7', 'CIMError-1'):
                        one('grid', S, enabled, op, PLAIN, DFLT, 3, 1, ('throw', k, t))
                        one('grid', S, enabled, op, PLAIN, DFLT, 3, 2, ('throw', k, t))


def scenario_variants():
    for V_ in VARIANTS:
        for op in V_.ops:
            for S in (None, True, False):
                for enabled in (True, False):
                    pull = S is True or (S is None and enabled)
                    if V_.pull_route_only and not pull:
                        continue
                    if THOROUGH:
                        sizes = [(ns, n) for ns in (DFLT, OTHER) for n in sorted({0, 2, N})]
                    else:
                        sizes = [(DFLT, 0), (DFLT, N), (OTHER, 2)]
                    for ns, n in sizes:
                        for moc in (sorted({1, max(n, 1), n + 1}) if THOROUGH else sorted({1, n + 1})):
                            one('variants', S, enabled, op, V_, ns, n, moc, ('exhaust',))
                            if n and (THOROUGH or moc == 1):
                                one('variants', S, enabled, op, V_, ns, n, moc, ('close', 1))


def scenario_invalid_args():
    bad = (0, -1, None, '1', 1.5, [1])
    for op in OPS:
        for S in (None, True, False):
            for enabled in (True, False):
                for moc in bad:
                    for V_ in (PLAIN, COE_F):
                        one('invalid-args', S, enabled, op, V_, DFLT, 2, moc, ('exhaust',))
                for moc in (1, 3, Uint32(2)):
                    one('invalid-args', S, enabled, op, NEG_TIMEOUT, DFLT, 2, moc, ('exhaust',))
                one('invalid-args', S, enabled, op, PLAIN, DFLT, 3, Uint32(2), ('exhaust',))
                one('invalid-args', S, enabled, op, PLAIN, DFLT, 3, Uint32(2), ('close', 1))


FOLLOW_UPS = ((True, 'plain', ('exhaust',)), (False, 'plain', ('exhaust',)), (True, 'pull-only', ('close', 1)))


def scenario_faults():
    """One disturbed call on a fresh connection; for part of them a second call on the same connection, which has
    to be served as a fresh connection would serve it."""
    open_faults = ('CIM_ERR_FAILED', 'CIM_ERR_NOT_SUPPORTED', 'CIM_ERR_ACCESS_DENIED', 'ConnectionError')
    pull_faults = ('CIM_ERR_FAILED', 'CIM_ERR_NOT_SUPPORTED', 'ConnectionError', 'TimeoutError')
    for op in OPS:
        for S in (None, True, False):
            for n in ((1, 3, 4) if THOROUGH else (1, 3)):
                for moc in ((1, 2, 3) if THOROUGH else (1, 2)):
                    pats = [('fault', 'Open', 1, f) for f in open_faults]
                    pats += [('fault', 'Pull', j, f) for j in (1, 2, 3) for f in pull_faults]
                    pats += [('dropctx', k) for k in range(0, n + 1)]
                    for pat in pats:
                        for vname in (('plain', 'pull-only') if pat[1] == 'Open' else ('plain',)):
                            first = (op, True, vname, pat)
                            run_sequence('faults', S, (first,), n=n, moc=moc)
                            if S is not False and moc == 1 and (pat[0] == 'dropctx' or pat[2] == 1):
                                for en2, v2, pat2 in FOLLOW_UPS:
                                    run_sequence('faults', S, (first, (op, en2, v2, pat2)), n=n, moc=moc)


def run_sequence(scenario, S, steps, n=2, moc=1, ns=DFLT, client=None, srv=None, client_kind='WBEMConnection',
                 first_untouched=False):
    """steps: (op, enabled, variant-name, pattern).  One connection; each call is held against the outcome on a
    fresh connection; the model only remembers what each call could have taught the connection."""
    R.case((scenario, client_kind, repr(S), ns, n, moc, steps))
    srv = srv or server_for(ns, n)
    client = client or new_client(srv, S)
    learned = {}
    hist = []
    for i, (op, enabled, vname, pat) in enumerate(steps):
        V_ = PLAIN if vname == 'plain' else (COE_F if op == QI else FILT)
        t = check_call(Case(scenario, S, enabled, op, V_, ns, n, moc, pat, history=hist, client_kind=client_kind),
                       client, srv, S, enabled, op, V_, ns, n, moc, pat, learned=learned.get(op, ()),
                       touch_switch=not (first_untouched and i == 0))
        if t is not None:
            learned[op] = learned.get(op, ()) + (t,)
        hist.append((OPS[op][0], 'server pull %s' % ('on' if enabled else 'off'), V_.name, pat))


def scenario_sequences(rnd):
    pats = (('exhaust',), ('close', 1))
    alpha1 = [(op, en, v, p) for op in OPS for en in (True, False) for v in ('plain', 'pull-only') for p in pats]
    # all 2-call sequences, undetermined connection (stopping early only where both calls use the same operation,
    # unless thorough)
    for a in alpha1:
        for b in alpha1:
            if a[0] != b[0] and (a[3] != ('exhaust',) or b[3] != ('exhaust',)) and not THOROUGH:
                continue
            run_sequence('sequence-2', None, (a, b))
    # settings True/False: nothing is ever learned
    for S in (True, False):
        for a in alpha1:
            for b in alpha1:
                if b[3] == ('exhaust',) and (b[0] == a[0] or (THOROUGH and b[0] == (EIP if a[0] != EIP else EI))):
                    run_sequence('sequence-2', S, (a, b))
    # 3 calls on the same operation: every capability/argument history
    alpha_op = [(en, v, p) for en in (True, False) for v in ('plain', 'pull-only') for p in pats]
    for op in OPS:
        for seq in itertools.product(alpha_op, repeat=3):
            early = [i for i, x in enumerate(seq) if x[2] != ('exhaust',)]
            if len(early) > 1 or (early and early[0] != 1 and not THOROUGH):
                continue
            run_sequence('sequence-3-same-op', None, tuple((op,) + x for x in seq), n=3, moc=2)
    if THOROUGH:
        # 3 calls over every pair of operations (independent learning per operation)
        alpha2 = [(en, v) for en in (True, False) for v in ('plain', 'pull-only')]
        for o1, o2 in itertools.combinations(OPS, 2):
            for seq in itertools.product([(o, en, v, ('exhaust',)) for o in (o1, o2) for en, v in alpha2], repeat=3):
                if len({x[0] for x in seq}) == 2:
                    run_sequence('sequence-3-two-ops', None, seq, n=2, moc=1)
    # sampled longer mixed sequences
    for _ in range(5000 if THOROUGH else 300):
        L = rnd.randint(3, 6 if THOROUGH else 5)
        seq = tuple(rnd.choice(alpha1) for _ in range(L))
        run_sequence('sequence-sampled', rnd.choice((None, None, None, True, False)), seq,
                     n=rnd.randint(0, N), moc=rnd.randint(1, N + 1), ns=rnd.choice((DFLT, OTHER)))


def scenario_interleaved():
    """Two generators of one connection consumed alternately: each delivers its own result, nothing stays open."""
    pairs = [(a, b) for a in GEN6 for b in GEN6] if THOROUGH else \
        [(EI, EI), (EI, EIP), (EIP, AI), (AI, AIP), (AIP, RI), (RI, RIP), (RIP, EI), (EIP, EIP)]
    scheds = ('ABABABAB', 'AABBAABB', 'ABBBBA', 'AB')      # then: close what is left
    for a, b in pairs:
        for S in (None, True, False):
            for enabled in (True, False):
                if S is True and not enabled:
                    continue
                for moc in (1, 2):
                    for sched in scheds:
                        R.case(('interleaved', a, b, repr(S), enabled, moc, sched))
                        n = 3
                        srv = server_for(DFLT, n)
                        srv.set_pull(enabled)
                        srv.table.clear()
                        c = new_client(srv, S)
                        case = Case('interleaved', S, enabled, a, PLAIN, DFLT, n, moc, (sched,))
                        case.d['second_op'] = OPS[b][0]
                        gens, got = {}, {'A': [], 'B': []}
                        try:
                            for name, op in (('A', a), ('B', b)):
                                args, kw = PLAIN.build(op, DFLT)
                                gens[name] = getattr(c, OPS[op][0])(*args, MaxObjectCount=moc, **kw)
                            for s in sched:
                                try:
                                    got[s].append(next(gens[s]))
                                except StopIteration:
                                    pass
                            for g in gens.values():
                                g.close()
                        except Exception as e:     # noqa
                            case.fail('interleaved-generators-raise-' + kind_of(outcome_of(e)))
                            srv.table.clear()
                            continue
                        if srv.table:
                            case.fail('enumeration-left-open-on-server', contexts=len(srv.table))
                            srv.table.clear()
                        for name, op in (('A', a), ('B', b)):
                            exp = Counter(canon(o)[:2] for o in srv.traditional(op, PLAIN, DFLT)[1])
                            have = Counter(canon(o)[:2] for o in got[name])
                            want_len = min(sched.count(name), n)
                            if have - exp or len(got[name]) != want_len:
                                case.fail('interleaved-generator-yields-foreign-or-repeated-objects', generator=name,
                                          yielded=len(got[name]), expected=want_len)


def scenario_faked_client():
    """FakedWBEMConnection as the client: constructor parameters and the disable_pull_operations property."""
    for n in ((0, 3) if THOROUGH else (3,)):
        for S in ('omit', None, True, False):
            for dis0 in ('omit', None, False, True):
                kw = {}
                if S != 'omit':
                    kw['use_pull_operations'] = S
                if dis0 != 'omit':
                    kw['disable_pull_operations'] = dis0
                S_eff = False if S == 'omit' else S      # documented default of the mock
                en0 = dis0 is not True
                for toggles in ((en0, not en0), (en0, not en0, en0), (en0, en0, not en0)) + \
                        (((en0,),) if THOROUGH else ()):
                    for op in OPS:
                        mock = pywbem_mock.FakedWBEMConnection(default_namespace=DFLT, **kw)
                        srv = Server({DFLT: n, OTHER: 1}, mock=mock)
                        if mock.disable_pull_operations not in (True, False) or \
                                mock.disable_pull_operations != (not en0):
                            R.violation('mock-disable_pull_operations-property-differs-from-constructor-argument',
                                        argument=repr(dis0), property=repr(mock.disable_pull_operations))
                        mock._imethodcall = Adapter(srv)
                        steps = tuple((op, en, 'plain', ('exhaust',) if i % 2 == 0 else ('close', 1))
                                      for i, en in enumerate(toggles))
                        # the first call meets the server as the constructor left it (the switch is not touched)
                        run_sequence('faked-client', S_eff, steps, n=n, moc=2, client=mock, srv=srv,
                                     first_untouched=True,
                                     client_kind='FakedWBEMConnection(%s)' % ', '.join(
                                         '%s=%r' % kv for kv in sorted(kw.items())))
    # the property setter accepts booleans and None only
    mock = pywbem_mock.FakedWBEMConnection(default_namespace=DFLT)
    for val in (1, 0, 'True', 'no', [], 2.0):
        R.case(('faked-client', 'setter', repr(val)))
        try:
            mock.disable_pull_operations = val
            R.violation('mock-disable_pull_operations-accepts-non-boolean', value=repr(val))
        except ValueError:
            pass
        except Exception as e:     # noqa
            R.violation('mock-disable_pull_operations-setter-raises-' + type(e).__name__, value=repr(val))
        if mock.disable_pull_operations is not False:
            R.violation('mock-disable_pull_operations-changed-by-rejected-value', value=repr(val))
            mock.disable_pull_operations = False


def scenario_mock_execquery():
    """The traditional route of IterQueryInstances through the mock's own ExecQuery wrapper (reachable once the
    provider's ExecQuery stub is replaced): the instances of the query engine come back, one for one."""
    for n in range(N + 1):
        for S in (None, False):
            R.case(('mock-execquery', n, repr(S)))
            srv = server_for(DFLT, n)
            srv.set_pull(False)
            c = new_client(srv, S)
            c._imethodcall.own_execquery = False
            d = dict(scenario='mock-execquery', use_pull_operations=repr(S), server_pull=False,
                     op='IterQueryInstances', result_size=n, MaxObjectCount=1)
            try:
                got = list(c.IterQueryInstances(*QUERY, MaxObjectCount=1).generator)
            except IndexError as e:
                R.violation('known:mock-ExecQuery-response-nests-instance-list', observed='IndexError: %s' % e, **d)
                continue
            except Exception as e:     # noqa
                R.violation('mock-execquery-raises-' + kind_of(outcome_of(e)), **d)
                continue
            ids = sorted(int(o['Id']) for o in got if isinstance(o, CIMInstance))
            if ids != list(range(n)):
                if len(got) == 1 and n >= 3:
                    R.violation('known:mock-ExecQuery-response-nests-instance-list',
                                observed='%d instance(s): ids %r' % (len(got), ids), **d)
                else:
                    R.violation('mock-execquery-result-differs', observed=repr(ids), **d)


def main():
    rnd = random.Random(R.seed)
    scenario_grid()
    scenario_variants()
    scenario_invalid_args()
    scenario_sequences(rnd)
    scenario_faults()
    scenario_interleaved()
    scenario_faked_client()
    scenario_mock_execquery()
    for s in SERVERS.values():
        s.set_pull(True)
    R.finish()


main()
