"""Bounded stand-in for C14: pull enumeration sessions deliver each object exactly once, within limits.

Two layers drive the real code with the same reference model:
  * client layer   - FakedWBEMConnection.Open.../Pull.../CloseEnumeration (all 7 Open operations)
  * provider layer - MainProvider._open_response / Pull... / CloseEnumeration called directly (cheap,
                     so the history tree is explored deeper)
The oracle is a small session model: a multiset of objects still owed to the client (taken from the
traditional operation, whose size and ids are in turn checked against the known repository content), plus
open/eos/closed state.  It never predicts batch boundaries; it only checks what the property states.

OpenQueryInstances needs a query engine; the mock's MainProvider.ExecQuery is a NOT_SUPPORTED stub, so (as the
package's own unit tests do) the stub is replaced on the provider *instance* by a function returning instances.
"""
import itertools
import random
from bounded.common import Run
import pywbem_mock
from pywbem import (CIMClass, CIMProperty, CIMQualifier, CIMQualifierDeclaration, CIMInstance, CIMInstanceName,
                    CIMError, Uint32, CIMXMLParseError)

R = Run('client layer: 7 Open ops x sizes 0..5 x open MaxObjectCount {0,1,2,5,None} x step trees over '
        '{pull 0/1/2/5, 2 wrong-kind pulls, close} (quick depth 2, thorough depth 3, one deeper for the 2 '
        'Enumerate ops, + sampled depth 5/6) + stale probes + drain; 2-session interleavings (len 2/3), foreign connection, namespace '
        'removal, pull ops disabled, refused opens, default-limit sizes 99..101; provider layer: 3 pull kinds, same '
        'tree to depth 4/5, interleavings len 4/5; client _get_rslt_params table')

INVALID_CTX = 21   # CIM_ERR_INVALID_ENUMERATION_CONTEXT
INVALID_NS = 3     # CIM_ERR_INVALID_NAMESPACE
WITHPATH, PATHS, INSTS = 'PullInstancesWithPath', 'PullInstancePaths', 'PullInstances'
KINDS = (WITHPATH, PATHS, INSTS)
# op -> (client method, pull kind prescribed by DSP0200 / the WBEMConnection documentation, result attribute)
OPS = {
    'OEI': ('OpenEnumerateInstances', WITHPATH),
    'OEIP': ('OpenEnumerateInstancePaths', PATHS),
    'ORI': ('OpenReferenceInstances', WITHPATH),
    'ORIP': ('OpenReferenceInstancePaths', PATHS),
    'OAI': ('OpenAssociatorInstances', WITHPATH),
    'OAIP': ('OpenAssociatorInstancePaths', PATHS),
    'OQI': ('OpenQueryInstances', INSTS),
}
ATTR = {WITHPATH: 'instances', PATHS: 'paths', INSTS: 'instances'}
QUERY = ('DMTF:FQL', 'SELECT * FROM C14_Item')


def nsname(n):
    return 'c14/n%d' % n


# ---------------------------------------------------------------------------------------------------------
# repository
# ---------------------------------------------------------------------------------------------------------

def _key():
    return CIMQualifier('Key', True)


def populate(conn, ns, n):
    """n items, one hub, n links hub->item: every one of the 7 operations has exactly n result objects."""
    conn.add_cimobjects([
        CIMQualifierDeclaration('Key', 'boolean', value=False, scopes={'PROPERTY': True, 'REFERENCE': True},
                                overridable=False, tosubclass=True),
        CIMQualifierDeclaration('Association', 'boolean', value=False, scopes={'ASSOCIATION': True},
                                overridable=False, tosubclass=True)], namespace=ns)
    conn.add_cimobjects([
        CIMClass('C14_Item', properties=[CIMProperty('Id', None, type='uint32', qualifiers=[_key()]),
                                         CIMProperty('Tag', None, type='string')]),
        CIMClass('C14_Hub', properties=[CIMProperty('Id', None, type='uint32', qualifiers=[_key()])]),
        CIMClass('C14_Link', qualifiers=[CIMQualifier('Association', True)], properties=[
            CIMProperty('Hub', None, type='reference', reference_class='C14_Hub', qualifiers=[_key()]),
            CIMProperty('Item', None, type='reference', reference_class='C14_Item', qualifiers=[_key()])])],
        namespace=ns)
    hp = CIMInstanceName('C14_Hub', {'Id': Uint32(0)}, namespace=ns)
    objs = [CIMInstance('C14_Hub', {'Id': Uint32(0)}, path=hp)]
    for i in range(n):
        ip = CIMInstanceName('C14_Item', {'Id': Uint32(i)}, namespace=ns)
        objs.append(CIMInstance('C14_Item', {'Id': Uint32(i), 'Tag': 't%d' % i}, path=ip))
        objs.append(CIMInstance('C14_Link', {'Hub': hp, 'Item': ip},
                                path=CIMInstanceName('C14_Link', {'Hub': hp, 'Item': ip}, namespace=ns)))
    conn.add_cimobjects(objs, namespace=ns)


def query_items(n):
    return [CIMInstance('C14_Item', {'Id': Uint32(i), 'Tag': 't%d' % i}) for i in range(n)]


def build(sizes_by_ns, default):
    conn = pywbem_mock.FakedWBEMConnection(default_namespace=default)
    for ns, n in sizes_by_ns.items():
        if ns != default:
            conn.add_namespace(ns)
        populate(conn, ns, n)
    sizes = dict(sizes_by_ns)

    def exec_query(namespace, QueryLanguage, Query):   # stands in for the NOT_SUPPORTED stub (see module doc)
        return query_items(sizes[namespace.strip('/')])
    conn._mainprovider.ExecQuery = exec_query
    return conn


def obj_id(o):
    """Item number an object of any of the 7 result kinds stands for (independent knowledge of the repository)."""
    p = o if isinstance(o, CIMInstanceName) else o.path
    if p is None:
        return int(o['Id'])
    if p.classname.lower() == 'c14_link':
        return int(p.keybindings['Item'].keybindings['Id'])
    return int(p.keybindings['Id'])


# ---------------------------------------------------------------------------------------------------------
# drivers: normalise every call to ('ok', objs, eos, ctx) | ('ok',) | ('cim', code, msg) | ('exc', type, msg)
# ---------------------------------------------------------------------------------------------------------

def guarded(fn):
    try:
        return fn()
    except CIMError as e:
        return ('cim', e.status_code, str(e)[:120])
    except Exception as e:     # noqa: the exception kind is part of what is checked
        return ('exc', type(e).__name__, str(e)[:120])


class ClientDriver:
    layer = 'client'
    ops = tuple(OPS)

    def __init__(self, conn, sizes):
        self.conn = conn
        self.sizes = sizes            # namespace -> n
        self._trad = {}

    def table(self):
        return self.conn._mainprovider.enumeration_contexts

    def hub(self, ns, explicit=True):
        return CIMInstanceName('C14_Hub', {'Id': Uint32(0)}, namespace=ns if explicit else None)

    def traditional(self, op, ns):
        c = self.conn
        if op == 'OEI':
            return c.EnumerateInstances('C14_Item', namespace=ns)
        if op == 'OEIP':
            return c.EnumerateInstanceNames('C14_Item', namespace=ns)
        if op == 'ORI':
            return c.References(self.hub(ns))
        if op == 'ORIP':
            return c.ReferenceNames(self.hub(ns))
        if op == 'OAI':
            return c.Associators(self.hub(ns))
        if op == 'OAIP':
            return c.AssociatorNames(self.hub(ns))
        return query_items(self.sizes[ns])      # the query engine is ours; its result is known by construction

    def expected(self, op, ns):
        if (op, ns) not in self._trad:
            res = self.traditional(op, ns)
            n = self.sizes[ns]
            if sorted(obj_id(o) for o in res) != list(range(n)):
                R.violation('harness:traditional-result-unexpected', op=op, ns=ns, n=n, got=len(res))
            self._trad[(op, ns)] = res
        return list(self._trad[(op, ns)])

    def open(self, op, ns, moc, extra=None):
        kw = dict(extra or {})
        if moc != 'omit':
            kw['MaxObjectCount'] = moc
        c = self.conn
        explicit = kw.pop('_explicit_ns', False)
        dflt = ns == c.default_namespace and not explicit
        nsarg = None if dflt else ns              # the default namespace is reached through namespace=None
        meth = getattr(c, OPS[op][0])
        if op in ('OEI', 'OEIP'):
            call = lambda: meth(kw.pop('_classname', 'C14_Item'), namespace=nsarg, **kw)
        elif op == 'OQI':
            call = lambda: meth(*QUERY, namespace=nsarg, **kw)
        else:
            call = lambda: meth(kw.pop('_instancename', None) or self.hub(ns, explicit=not dflt), **kw)

        def run():
            r = call()
            return ('ok', list(getattr(r, ATTR[OPS[op][1]])), r.eos, r.context)
        return guarded(run)

    def pull(self, kind, ctx, m):
        def run():
            r = getattr(self.conn, kind)(ctx, m)
            return ('ok', list(getattr(r, ATTR[kind])), r.eos, r.context)
        return guarded(run)

    def close(self, ctx):
        def run():
            self.conn.CloseEnumeration(ctx)
            return ('ok',)
        return guarded(run)

    def ctx_ok(self, ctx, ns):
        return isinstance(ctx, tuple) and len(ctx) == 2 and isinstance(ctx[0], str) and ctx[0] != '' \
            and ctx[1] == ns


class ProviderDriver:
    """MainProvider level: _open_response with a list of plain tokens, provider Pull.../CloseEnumeration."""
    layer = 'provider'
    ops = ('OEI', 'OEIP', 'OQI')       # one per pull kind; the pull kind is handed to _open_response directly

    def __init__(self, conn):
        self.conn = conn
        self.mp = conn._mainprovider
        self.sizes = None

    def table(self):
        return self.mp.enumeration_contexts

    def expected(self, op, ns):
        return [(op, i) for i in range(int(ns[5:]))]

    def _norm(self, t):
        objs, eos, cid = t[0], t[1], t[2]
        if eos not in ('TRUE', 'FALSE'):
            raise ValueError('eos value %r' % (eos,))
        return ('ok', list(objs), eos == 'TRUE', None if (eos == 'TRUE' and cid == '') else cid)

    def open(self, op, ns, moc, extra=None):
        moc = None if moc == 'omit' else moc
        return guarded(lambda: self._norm(self.mp._open_response(
            ns, self.expected(op, ns), OPS[op][1], None, moc, None)))

    def pull(self, kind, ctx, m):
        return guarded(lambda: self._norm(getattr(self.mp, kind)(ctx, m)))

    def close(self, ctx):
        def run():
            self.mp.CloseEnumeration(ctx)
            return ('ok',)
        return guarded(run)

    def ctx_ok(self, ctx, ns):
        return isinstance(ctx, str) and ctx != ''


# ---------------------------------------------------------------------------------------------------------
# reference model and checks
# ---------------------------------------------------------------------------------------------------------

class Stop(Exception):
    pass


class History:
    """One explored case: the description needed to replay it, the sessions, the tables watched for leaks."""

    def __init__(self, scenario, drivers, **desc):
        self.scenario = scenario
        self.drivers = drivers
        self.desc = desc
        self.sessions = []
        self.trace = []

    def fail(self, vid, **kw):
        R.violation(vid, layer=self.drivers[0].layer, scenario=self.scenario, trace=list(self.trace), **self.desc,
                    **kw)
        raise Stop()

    def known(self, vid, **kw):
        R.violation(vid, layer=self.drivers[0].layer, scenario=self.scenario, trace=list(self.trace), **self.desc,
                    **kw)

    def check_tables(self):
        """No context is kept for a session that ended, none is lost for a session still open."""
        for d in self.drivers:
            want = sum(1 for s in self.sessions if s.drv is d and s.state == 'open')
            have = len(d.table())
            if have > want:
                self.fail('context-left-open-on-server', contexts_in_table=have, open_sessions=want)
            if have < want:
                self.fail('context-of-open-session-dropped', contexts_in_table=have, open_sessions=want)

    def cleanup(self):
        for d in self.drivers:
            d.table().clear()


class Sess:
    def __init__(self, H, drv, op, ns):
        self.H, self.drv, self.op, self.ns = H, drv, op, ns
        self.kind = OPS[op][1]
        self.owed = drv.expected(op, ns)     # objects still to be delivered (multiset; order is not prescribed)
        self.got = []
        self.state = 'new'                   # new -> open -> eos | closed
        self.ctx = None
        self.last = None                     # last context handed out (for stale probes)
        self.stale_codes = (INVALID_CTX,)
        H.sessions.append(self)

    def others(self):
        return [k for k in KINDS if k != self.kind]

    # -- what the property says about one Open/Pull response
    def absorb(self, res, m):
        H = self.H
        _, objs, eos, ctx = res
        if m is not None and len(objs) > m:
            H.fail('objects-delivered-for-MaxObjectCount-0' if m == 0 else 'more-than-MaxObjectCount-objects',
                   delivered=len(objs), MaxObjectCount=m)
        for o in objs:
            if self.owed and self.owed[0] == o:
                i = 0
            else:
                try:
                    i = self.owed.index(o)
                except ValueError:
                    H.fail('object-delivered-twice' if o in self.got else 'object-not-in-traditional-result',
                           obj=str(o)[:160])
            self.got.append(self.owed.pop(i))
        if eos is True:
            if self.owed:
                H.fail('eos-while-objects-remain', undelivered=len(self.owed), delivered=len(self.got))
            if ctx is not None:
                H.fail('eos-with-context', context=repr(ctx))
            self.state, self.ctx = 'eos', None
        elif eos is False:
            if not self.drv.ctx_ok(ctx, self.ns):
                H.fail('no-usable-context-without-eos', context=repr(ctx))
            if m is not None and m > 0 and not objs:
                H.fail('pull-without-progress', MaxObjectCount=m)
            self.state, self.ctx, self.last = 'open', ctx, ctx
        else:
            H.fail('eos-not-boolean', eos=repr(eos))

    def open(self, moc, extra=None):
        H = self.H
        H.trace.append(('open', self.op, self.ns, moc) + ((sorted(extra.items(), key=str),) if extra else ()))
        res = self.drv.open(self.op, self.ns, moc, extra)
        if res[0] != 'ok':
            H.fail('open-refused' if res[0] == 'cim' else 'open-raises-' + res[1], error=res[1:])
        self.absorb(res, None if moc == 'omit' else moc)
        if self.state == 'open' and self.op == 'OQI' and self.drv.layer == 'client':
            self.settle_query_kind()
        H.check_tables()

    def settle_query_kind(self):
        """A query session is continued with PullInstances.  A pull of 0 objects is a harmless probe for that."""
        H = self.H
        H.trace.append(('pull', INSTS, 0))
        res = self.drv.pull(INSTS, self.ctx, 0)
        if res[0] == 'cim' and res[1] == INVALID_CTX:
            res2 = self.drv.pull(WITHPATH, self.ctx, 0)
            if res2[0] == 'ok':
                # narrowly: the context of an OpenQueryInstances session answers to PullInstancesWithPath only
                H.known('known:openquery-session-refuses-PullInstances', error=res[1:])
                self.kind = WITHPATH
                self.absorb(res2, 0)
                return
        if res[0] != 'ok':
            H.fail('pull-on-open-session-refused' if res[0] == 'cim' else 'pull-raises-' + res[1], error=res[1:])
        self.absorb(res, 0)

    def pull(self, m):
        H = self.H
        H.trace.append(('pull', self.kind, m))
        res = self.drv.pull(self.kind, self.ctx, m)
        if res[0] != 'ok':
            H.fail('pull-on-open-session-refused' if res[0] == 'cim' else 'pull-raises-' + res[1], error=res[1:])
        self.absorb(res, m)
        H.check_tables()

    def refused(self, what, res, codes=(INVALID_CTX,)):
        """`what` must have been refused with one of `codes` (and, checked by the callers, without effect)."""
        H = self.H
        if res[0] == 'ok':
            H.fail(what + '-accepted', result=repr(res[1:])[:200])
        if res[0] == 'exc':
            H.fail(what + '-raises-' + res[1], error=res[1:])
        if res[1] not in codes:
            H.fail(what + '-wrong-error-code', error=res[1:], expected_codes=list(codes))
        H.check_tables()

    def wrong_pull(self, which, m=1, drv=None, what='wrong-kind-pull'):
        kind = self.others()[which]
        self.H.trace.append((what, kind, m))
        self.refused(what, (drv or self.drv).pull(kind, self.ctx, m))

    def close(self):
        H = self.H
        H.trace.append(('close',))
        res = self.drv.close(self.ctx)
        if res[0] != 'ok':
            H.fail('close-on-open-session-refused' if res[0] == 'cim' else 'close-raises-' + res[1], error=res[1:])
        self.state, self.ctx = 'closed', None
        H.check_tables()

    def stale(self, a):
        """Session ended: its last context must be refused by every operation."""
        if self.last is None:
            return
        self.H.trace.append(('stale',) + tuple(a))
        if a[0] == 'P':
            self.refused('stale-context-pull', self.drv.pull(self.kind, self.last, a[1]), self.stale_codes)
        elif a[0] == 'W':
            self.refused('stale-context-pull', self.drv.pull(self.others()[a[1]], self.last, 1), self.stale_codes)
        else:
            self.refused('stale-context-close', self.drv.close(self.last), self.stale_codes)

    def step(self, a):
        if self.state != 'open':
            self.stale(a)
        elif a[0] == 'P':
            self.pull(a[1])
        elif a[0] == 'W':
            self.wrong_pull(a[1])
        elif a[0] == 'C':
            self.close()
        else:
            raise AssertionError(a)

    def drain(self, m=3):
        """Termination: every pull with MaxObjectCount > 0 makes progress or reports eos."""
        budget = len(self.owed) + 1
        while self.state == 'open':
            if budget == 0:
                self.H.fail('enumeration-does-not-terminate')
            budget -= 1
            self.pull(m)


def finish(H, drain_m=3):
    for s in H.sessions:
        if s.state == 'open':
            s.drain(drain_m)
    for s in H.sessions:
        for a in (('P', 1), ('W', 0), ('C',)):
            s.stale(a)
    H.check_tables()


def run_history(H, body):
    try:
        for d in H.drivers:
            if d.table():
                d.table().clear()
        body(H)
    except Stop:
        pass
    finally:
        H.cleanup()


# ---------------------------------------------------------------------------------------------------------
# case generation
# ---------------------------------------------------------------------------------------------------------

P0, P1, P2, P5, PN = ('P', 0), ('P', 1), ('P', 2), ('P', 5), ('P', None)
W0, W1, CL = ('W', 0), ('W', 1), ('C',)
ALPHA = (P0, P1, P2, P5, W0, W1, CL)
OPEN_MOCS = (0, 1, 2, 5, None)


def step_tree(n, moc0, alphabet, depth, default=100):
    """All step sequences up to `depth`; a branch is not extended once a conforming server has ended the session
    (only used to avoid enumerating equivalent tails - the checks do not rely on this prediction)."""
    first = min(n, default if moc0 in (None, 'omit') else moc0)

    def rec(prefix, rem, d):
        yield prefix
        if rem == 0 or d == 0:
            return
        for a in alphabet:
            if a[0] == 'P':
                k = min(rem, default if a[1] is None else a[1])
                yield from rec(prefix + (a,), rem - k, d - 1)
            elif a[0] == 'C':
                yield prefix + (a,)
            else:
                yield from rec(prefix + (a,), rem, d - 1)
    return rec((), n - first, depth)


def single(drv, op, n, moc0, steps, scenario='single', extra=None):
    R.case((drv.layer, scenario, op, n, moc0, steps, repr(extra) if extra else None))
    H = History(scenario, [drv], op=op, n=n, open_MaxObjectCount=moc0, steps=list(steps))

    def body(H):
        s = Sess(H, drv, op, nsname(n))
        s.open(moc0, extra)
        for a in steps:
            s.step(a)
        finish(H)
    run_history(H, body)


def multi(drv, specs, late, sched, scenario='interleaved'):
    """specs: (op, n, moc0) per session; session 1.. are opened after `late` schedule steps; sched: (session, act)
    with act a step or 'X' (pull this session's context with the pull operation of the next session)."""
    R.case((drv.layer, scenario, specs, late, sched))
    H = History(scenario, [drv], sessions=list(specs), opened_after=late, schedule=list(sched))

    def body(H):
        ss = [Sess(H, drv, op, nsname(n)) for op, n, _ in specs]
        ss[0].open(specs[0][2])
        for pos, (i, a) in enumerate(sched):
            if pos == late:
                for s, sp in zip(ss[1:], specs[1:]):
                    s.open(sp[2])
            s = ss[i]
            H.trace.append(('session', i))
            if a == 'X':
                o = ss[(i + 1) % len(ss)]
                if o.kind == s.kind:        # (a query session may have settled on the other session's kind)
                    s.step(P1)
                elif s.state == 'open':
                    s.wrong_pull(s.others().index(o.kind), what='other-sessions-kind-pull')
                else:
                    s.stale(('W', s.others().index(o.kind)))
            else:
                s.step(a)
        if late >= len(sched):
            for s, sp in zip(ss[1:], specs[1:]):
                s.open(sp[2])
        finish(H, drain_m=2)
    run_history(H, body)


def schedules(specs, length, acts):
    """Schedules over (session, act); 'X' only where the two sessions differ in kind."""
    kinds = [OPS[op][1] for op, _, _ in specs]
    letters = [(i, a) for i in range(len(specs)) for a in acts
               if not (a == 'X' and kinds[i] == kinds[(i + 1) % len(specs)])]
    for L in range(length + 1):
        for sched in itertools.product(letters, repeat=L):
            for late in (0, 1):
                if late > L or any(i != 0 for i, _ in sched[:late]):
                    continue
                yield late, sched


# ---------------------------------------------------------------------------------------------------------
# scenarios of the client layer
# ---------------------------------------------------------------------------------------------------------

def scenario_foreign(W, W2, depth):
    """A context of connection A is unknown to connection B (same namespaces, own provider); B's refusal has no
    effect on either side."""
    acts = (P1, P2, 'F', 'G', CL)
    for op in OPS:
        for n, moc0 in ((2, 0), (3, 1), (5, 2)):
            for L in range(depth + 1):
                for steps in itertools.product(acts, repeat=L):
                    if 'F' not in steps and 'G' not in steps:
                        continue
                    R.case(('client', 'foreign', op, n, moc0, steps))
                    H = History('foreign-connection', [W, W2], op=op, n=n, open_MaxObjectCount=moc0,
                                steps=list(steps))

                    def body(H, op=op, n=n, moc0=moc0, steps=steps):
                        s = Sess(H, W, op, nsname(n))
                        s.open(moc0)
                        for a in steps:
                            if a in ('F', 'G'):
                                c = s.ctx if s.state == 'open' else s.last
                                if c is None:
                                    continue
                                H.trace.append(('on-other-connection', a))
                                s.refused('foreign-context-pull' if a == 'F' else 'foreign-context-close',
                                          W2.pull(s.kind, c, 1) if a == 'F' else W2.close(c))
                            else:
                                s.step(a)
                        finish(H)
                    run_history(H, body)


def scenario_client_args(W):
    """Contexts / MaxObjectCount values the client refuses itself (ValueError/TypeError); the session is untouched
    (drained exactly afterwards)."""
    bad_ctx = (None, 'abc', ('a', 'b', 'c'), ('a',), 5)
    bad_moc = (-1, '1', 1.5)
    for op in OPS:
        for what, val in [('ctx', v) for v in bad_ctx] + [('moc', v) for v in bad_moc] + [('openmoc', v)
                                                                                          for v in bad_moc]:
            R.case(('client', 'client-args', op, what, repr(val)))
            H = History('client-argument-validation', [W], op=op, n=3, open_MaxObjectCount=1, bad=what,
                        value=repr(val))

            def body(H, op=op, what=what, val=val):
                s = Sess(H, W, op, nsname(3))
                s.open(1)
                if what == 'openmoc':
                    rs = [W.open(op, nsname(3), val)]
                elif what == 'moc':
                    rs = [W.pull(k, s.ctx, val) for k in KINDS]
                else:
                    rs = [W.pull(k, val, 1) for k in KINDS] + [W.close(val)]
                for r in rs:
                    if r[0] != 'exc' or r[1] not in ('ValueError', 'TypeError'):
                        H.fail('invalid-client-argument-not-rejected', outcome=repr(r)[:200])
                H.check_tables()
                finish(H, drain_m=1)
            run_history(H, body)


def scenario_disabled(W):
    """While the server has pull operations disabled every Open/Pull/Close is refused with a CIM error, nothing is
    consumed or registered; once enabled again the session continues exactly."""
    for op in OPS:
        for moc0 in (0, 1):
            for act in ('pull', 'wrong', 'close', 'open'):
                R.case(('client', 'disabled', op, moc0, act))
                H = History('pull-operations-disabled', [W], op=op, n=3, open_MaxObjectCount=moc0, while_disabled=act)

                def body(H, op=op, moc0=moc0, act=act):
                    s = Sess(H, W, op, nsname(3))
                    s.open(moc0)
                    W.conn.disable_pull_operations = True
                    try:
                        H.trace.append(('disabled', act))
                        r = {'pull': lambda: W.pull(s.kind, s.ctx, 1), 'wrong': lambda: W.pull(s.others()[0], s.ctx, 1),
                             'close': lambda: W.close(s.ctx), 'open': lambda: W.open(op, s.ns, 1)}[act]()
                        if r[0] != 'cim':
                            H.fail('operation-accepted-while-pull-disabled' if r[0] == 'ok'
                                   else 'disabled-pull-operation-raises-' + r[1], outcome=repr(r)[:200])
                        H.check_tables()
                    finally:
                        W.conn.disable_pull_operations = False
                    finish(H, drain_m=1)
                try:
                    run_history(H, body)
                finally:
                    W.conn.disable_pull_operations = False


def scenario_refused_opens(W):
    """Opens with unusual or invalid parameters: an Open that fails registers nothing; for a bad target it fails as
    the traditional operation does; one that succeeds is an ordinary session over the traditional result."""
    ns = nsname(3)
    trad = {'OEI': lambda c, **k: c.EnumerateInstances(**k), 'OEIP': lambda c, **k: c.EnumerateInstanceNames(**k),
            'ORI': lambda c, **k: c.References(**k), 'ORIP': lambda c, **k: c.ReferenceNames(**k),
            'OAI': lambda c, **k: c.Associators(**k), 'OAIP': lambda c, **k: c.AssociatorNames(**k)}
    for op in OPS:
        enum = op in ('OEI', 'OEIP')
        variants = []
        # (label, open-extras, namespace, expected refusal: None | 'cim' | 'client' | 'mirror')
        for ot in (0, 1, 40):
            variants.append(('timeout-%d' % ot, {'OperationTimeout': ot}, ns, None))
        variants.append(('timeout-above-max', {'OperationTimeout': 41}, ns, 'cim'))
        variants.append(('timeout-negative', {'OperationTimeout': -1}, ns, 'client'))
        for coe in (True, False):
            variants.append(('continue-on-error-%s' % coe, {'ContinueOnError': coe}, ns, None))
        variants.append(('explicit-default-namespace', {'_explicit_ns': True}, ns, None))
        if op != 'OQI':
            variants.append(('filter-without-language', {'FilterQuery': 'Id = 1'}, ns, 'cim'))
            variants.append(('filter-language-unknown', {'FilterQueryLanguage': 'WQL', 'FilterQuery': 'x'}, ns, 'cim'))
            variants.append(('bad-namespace', {}, 'c14/nowhere', 'mirror'))
            if enum:
                variants.append(('bad-class', {'_classname': 'C14_Nope'}, ns, 'mirror'))
            else:
                variants.append(('bad-instance-class', {'_instancename': CIMInstanceName(
                    'C14_Nope', {'Id': Uint32(0)}, namespace=ns)}, ns, 'mirror'))
                variants.append(('unknown-instance', {'_instancename': CIMInstanceName(
                    'C14_Hub', {'Id': Uint32(77)}, namespace=ns)}, ns, 'mirror'))
        for label, extra, vns, want in variants:
            for moc0 in (0, 1, None):
                R.case(('client', 'open-params', op, label, moc0))
                H = History('open-parameters', [W], op=op, variant=label, namespace=vns, open_MaxObjectCount=moc0,
                            extra={k: str(v) for k, v in extra.items()})

                def body(H, op=op, label=label, extra=extra, vns=vns, want=want, moc0=moc0):
                    s = Sess.__new__(Sess)
                    s.H, s.drv, s.op, s.ns, s.kind = H, W, op, vns, OPS[op][1]
                    s.got, s.state, s.ctx, s.last, s.stale_codes = [], 'new', None, None, (INVALID_CTX,)
                    if want == 'mirror':
                        if enum:
                            t = guarded(lambda: ('ok', trad[op](W.conn, ClassName=extra.get('_classname', 'C14_Item'),
                                                                namespace=vns)))
                        else:
                            t = guarded(lambda: ('ok', trad[op](W.conn, ObjectName=extra.get('_instancename')
                                                                or W.hub(vns))))
                        if t[0] == 'exc':
                            H.fail('harness:traditional-operation-raises-' + t[1], error=t[1:])
                        s.owed = list(t[1]) if t[0] == 'ok' else None
                    else:
                        t = None
                        s.owed = W.expected(op, vns)
                    H.trace.append(('open', op, vns, moc0, label))
                    r = W.open(op, vns, moc0, extra)
                    if r[0] != 'ok':
                        if len(W.table()) != 0:
                            H.fail('failed-open-leaves-context', error=r[1:])
                        if want is None or (want == 'mirror' and t[0] == 'ok'):
                            H.fail('open-refused' if r[0] == 'cim' else 'open-raises-' + r[1], error=r[1:])
                        if want == 'mirror' and (r[0] != 'cim' or r[1] != t[1]):
                            H.fail('open-fails-differently-from-traditional-operation', open_error=r[1:],
                                   traditional_error=t[1:])
                        if want == 'client' and (r[0] != 'exc' or r[1] not in ('ValueError', 'TypeError')):
                            H.fail('invalid-client-argument-not-rejected', outcome=repr(r)[:200])
                        if want == 'cim' and r[0] != 'cim':
                            if label == 'timeout-above-max' and r[1] == 'ValueError' and \
                                    'conversion specifier' in r[2]:
                                # narrowly: the message of the refusal is built with a malformed format string
                                H.known('known:open-timeout-above-max-raises-ValueError', error=r[1:])
                            else:
                                H.fail('server-refusal-of-open-raises-' + r[1], error=r[1:])
                        return
                    if want in ('cim', 'client') or (want == 'mirror' and t[0] != 'ok'):
                        H.fail('invalid-open-accepted', expected=want, traditional=repr(t)[:120])
                    H.sessions.append(s)
                    s.absorb(r, moc0)
                    if s.state == 'open' and op == 'OQI':
                        s.settle_query_kind()
                    H.check_tables()
                    if s.state == 'open':
                        s.pull(1)
                    finish(H, drain_m=2)
                run_history(H, body)


def scenario_default_limit(drv, ops, sizes, mocs, depth):
    """Result sizes around the server's default MaxObjectCount (100): MaxObjectCount None/omitted, 99..101."""
    acts = (PN, ('P', 100), P1, ('P', 101))
    for op in ops:
        for n in sizes:
            for moc0 in mocs:
                for steps in step_tree(n, moc0, acts, depth):
                    single(drv, op, n, moc0, steps, scenario='default-limit')


def empty_namespace(conn, ns):
    for cls in ('C14_Link', 'C14_Item', 'C14_Hub'):
        for p in conn.EnumerateInstanceNames(cls, namespace=ns):
            conn.DeleteInstance(p)
    for cls in ('C14_Link', 'C14_Item', 'C14_Hub'):
        conn.DeleteClass(cls, namespace=ns)
    for q in conn.EnumerateQualifiers(namespace=ns):
        conn.DeleteQualifier(q.name, namespace=ns)
    conn.remove_namespace(ns)


def scenario_namespace_removal(thorough):
    """The namespace of an open session is emptied and removed.  A later pull either still delivers owed objects
    or is refused (invalid namespace / invalid context) delivering nothing; the context can be closed and nothing
    stays in the table; a session in another namespace is not disturbed."""
    gone = (INVALID_NS, INVALID_CTX)
    acts = (P0, P1, P5, W0, CL)
    for op in OPS:
        deep = thorough and op in ('OEI', 'OEIP')
        for n in ((3, 5) if thorough else (3,)):
            for moc0 in (0, 1):
                for pre in (((), (P1,)) if thorough else ((),)):
                    for L in ((1, 2) if deep else (1,)):
                        for post in itertools.product(acts, repeat=L):
                            R.case(('client', 'ns-removal', op, n, moc0, pre, post))
                            sizes = {nsname(3): 3, nsname(90 + n): n}
                            D = ClientDriver(build(sizes, nsname(3)), sizes)
                            H = History('namespace-removal', [D], op=op, n=n, open_MaxObjectCount=moc0,
                                        before_removal=list(pre), after_removal=list(post))

                            def body(H, D=D, op=op, n=n, moc0=moc0, pre=pre, post=post):
                                v = Sess(H, D, op, nsname(90 + n))
                                v.stale_codes = gone      # the request names a namespace that no longer exists
                                o = Sess(H, D, 'OEIP', nsname(3))
                                v.open(moc0)
                                o.open(1)
                                for a in pre:
                                    v.step(a)
                                H.trace.append(('remove-namespace', v.ns))
                                try:
                                    empty_namespace(D.conn, v.ns)
                                except Exception as e:
                                    H.fail('harness:namespace-removal-failed', error=repr(e)[:200])
                                H.check_tables()
                                for a in post:
                                    if v.state != 'open':
                                        if v.last is not None:
                                            H.trace.append(('stale',) + a)
                                            v.refused('stale-context-use', D.close(v.last) if a[0] == 'C' else
                                                      D.pull(v.kind, v.last, 1), gone)
                                    elif a[0] == 'P':
                                        H.trace.append(('pull', v.kind, a[1]))
                                        r = D.pull(v.kind, v.ctx, a[1])
                                        if r[0] == 'ok':
                                            v.absorb(r, a[1])
                                        elif r[0] != 'cim' or r[1] not in gone:
                                            H.fail('pull-after-namespace-removal-raises-' + str(r[1]), error=r[1:])
                                        H.check_tables()
                                    elif a[0] == 'W':
                                        H.trace.append(('wrong-kind-pull', v.others()[a[1]]))
                                        v.refused('wrong-kind-pull', D.pull(v.others()[a[1]], v.ctx, 1), gone)
                                    else:
                                        v.close()
                                    o.step(P1)
                                if v.state == 'open':
                                    H.trace.append(('close',))
                                    r = D.close(v.ctx)
                                    if r[0] == 'exc' or (r[0] == 'cim' and r[1] != INVALID_CTX):
                                        H.fail('context-of-removed-namespace-cannot-be-closed', error=r[1:])
                                    v.state, v.ctx = 'closed', None
                                    H.check_tables()
                                if v.last is not None:
                                    v.refused('stale-context-use', D.pull(v.kind, v.last, 1), gone)
                                finish(H, drain_m=1)
                            run_history(H, body)


def scenario_rslt_params(W):
    """Client-side pairing of EndOfSequence and EnumerationContext (WBEMConnection._get_rslt_params): whatever the
    server sends, the client never reports eos with a context, never reports 'not eos' without one, never turns a
    server's FALSE into eos, and hands the objects through unchanged."""
    objs = [CIMInstanceName('C14_Item', {'Id': Uint32(1)})]
    absent = object()
    for eos in (absent, None, 'TRUE', 'true', 'True', 'FALSE', 'false', 'bogus', ''):
        for ctx in (absent, None, 'ctx-1', ''):
            for ret in (absent, [], objs):
                R.case(('client', 'rslt-params', repr(eos) if eos is not absent else 'absent',
                        repr(ctx) if ctx is not absent else 'absent', 'absent' if ret is absent else len(ret)))
                result = []
                if ret is not absent:
                    result.append(('IRETURNVALUE', {}, ret))
                if ctx is not absent:
                    result.append(('EnumerationContext', None, ctx))
                if eos is not absent:
                    result.append(('EndOfSequence', None, eos))
                desc = dict(layer='client', scenario='_get_rslt_params', result=repr(result)[:200])
                try:
                    got = W.conn._get_rslt_params(result, 'c14/x')
                except CIMXMLParseError:
                    says_true = isinstance(eos, str) and eos.lower() == 'true'
                    says_false = isinstance(eos, str) and eos.lower() == 'false'
                    if says_true or (says_false and isinstance(ctx, str)):
                        R.violation('well-formed-pull-response-rejected', **desc)
                    continue
                except Exception as e:
                    R.violation('pull-response-raises-' + type(e).__name__, **desc)
                    continue
                g_objs, g_eos, g_ctx = got
                if isinstance(eos, str) and eos.lower() not in ('true', 'false'):
                    R.violation('invalid-eos-value-accepted', got=repr(got)[:120], **desc)
                elif g_eos is True:
                    if not (isinstance(eos, str) and eos.lower() == 'true'):
                        R.violation('client-reports-eos-not-sent-by-server', **desc)
                    if g_ctx is not None:
                        R.violation('eos-with-context', got=repr(got)[:120], **desc)
                elif g_eos is False:
                    if not (isinstance(g_ctx, tuple) and len(g_ctx) == 2 and isinstance(g_ctx[0], str)
                            and g_ctx[0] == ctx and g_ctx[1] == 'c14/x'):
                        R.violation('no-usable-context-without-eos', got=repr(got)[:120], **desc)
                else:
                    R.violation('eos-not-boolean', got=repr(got)[:120], **desc)
                if list(g_objs) != ([] if ret is absent else ret):
                    R.violation('returned-objects-altered', got=repr(got)[:120], **desc)


# ---------------------------------------------------------------------------------------------------------

def main():
    rnd = random.Random(R.seed)
    thorough = R.tier == 'thorough'
    small = {nsname(n): n for n in range(6)}
    big = {nsname(n): n for n in ((99, 100, 101) if thorough else (100, 101))}
    sizes = dict(small, **big)
    W = ClientDriver(build(sizes, nsname(3)), sizes)
    W2 = ClientDriver(build(small, nsname(3)), small)
    PV = ProviderDriver(build({nsname(n): 0 for n in (0, 1, 2, 3, 4, 5, 99, 100, 101, 250)}, nsname(3)))

    # --- provider layer: deep exhaustive trees (cheap)
    for op in PV.ops:
        for n in range(6):
            for moc0 in OPEN_MOCS:
                for steps in step_tree(n, moc0, ALPHA + ((PN,) if thorough else ()), 5 if thorough else 4):
                    single(PV, op, n, moc0, steps)
    scenario_default_limit(PV, PV.ops, (99, 100, 101, 250), (None, 0, 1, 99, 100, 101), 3 if thorough else 2)
    pv_pairs = [(('OEI', 3, 1), ('OEIP', 3, 0)), (('OEIP', 2, 0), ('OEIP', 5, 2)), (('OQI', 4, 1), ('OEI', 2, 1)),
                (('OEI', 5, 0), ('OEI', 5, 0))]
    for specs in pv_pairs:
        for late, sched in schedules(specs, 5 if thorough else 4, (P0, P1, P2, CL, 'X')):
            multi(PV, specs, late, sched)

    # --- client layer: all 7 Open operations
    deep_ops = ('OEI', 'OEIP')
    for op in OPS:
        for n in range(6):
            for moc0 in OPEN_MOCS + (('omit',) if n in (0, 5) else ()):
                depth = (3 if thorough else 2) + (1 if op in deep_ops else 0)
                for steps in step_tree(n, moc0, ALPHA, depth):
                    single(W, op, n, moc0, steps)
    # seeded sampling beyond the exhaustive depth
    for _ in range(6000 if thorough else 3000):
        op = rnd.choice(list(OPS))
        n = rnd.randint(3, 5)
        moc0 = rnd.choice((0, 0, 1, 2))
        steps = tuple(rnd.choice(ALPHA + (PN,)) for _ in range(rnd.randint(3, 6) if thorough else rnd.randint(3, 5)))
        single(W, op, n, moc0, steps, scenario='single-sampled')

    pairs = [(('OEI', 3, 1), ('OEIP', 3, 0)), (('OEIP', 2, 0), ('OAIP', 5, 2)), (('ORI', 3, 0), ('OQI', 3, 1)),
             (('OAI', 5, 1), ('ORIP', 2, 0)), (('OQI', 4, 0), ('OEIP', 4, 1)), (('OEI', 3, 0), ('OEI', 3, 0))]
    for specs in pairs:
        for late, sched in schedules(specs, 3 if thorough else 2, (P0, P1, P2, CL, 'X')):
            multi(W, specs, late, sched)
    if thorough:   # three sessions, sampled schedules
        for _ in range(3000):
            specs = tuple((rnd.choice(list(OPS)), rnd.randint(2, 5), rnd.choice((0, 1))) for _ in range(3))
            sched = tuple((rnd.randrange(3), rnd.choice((P0, P1, P2, P5, CL, 'X', W0))) for _ in range(6))
            sched = tuple((i, a) for i, a in sched
                          if not (a == 'X' and OPS[specs[i][0]][1] == OPS[specs[(i + 1) % 3][0]][1]))
            multi(W, specs, 0, sched, scenario='interleaved-3-sampled')

    scenario_foreign(W, W2, 3 if thorough else 2)
    scenario_client_args(W)
    scenario_disabled(W)
    scenario_refused_opens(W)
    scenario_default_limit(W, tuple(OPS) if thorough else ('OEI', 'OEIP'), sorted(big.values()),
                           (None, 'omit', 0, 99, 100, 101) if thorough else (None, 0, 100), 2 if thorough else 1)
    scenario_namespace_removal(thorough)
    scenario_rslt_params(W)
    R.finish()


main()
