"""Bounded stand-in for C01: CIM objects survive the CIM-XML wire format unchanged.

For every generated object x0:
  xml0 = tocimxmlstr(x0)                      (real encoder, real minidom serialisation)
  wire = reference decoding of xml0           (independent: xml.etree + a small DSP0201 value decoder)
  x1   = TupleParser().parse_any(xml_to_tupletree_sax(xml0))      (real SAX + real parser)
  x2   = parse(encode(x1)); xml1 = encode(x1); xml2 = encode(x2)
Oracle (all computed from public attributes by the view functions below, never by pywbem's __eq__):
  view(wire) == expect(x0)     the encoder wrote what DSP0201 says          -> 'encode-*'
  view(x1)   == expect(x0)     slot-wise, None flags read back as defaults  -> 'roundtrip-*'
  view(x2)   == view(x1) exactly, and xml2 == xml1 byte for byte            -> 'second-*'
"""
import itertools
import random
import re
import struct
import traceback
import warnings
import xml.etree.ElementTree as ET

from bounded.common import Run

import pywbem
from pywbem import (CIMInstance, CIMInstanceName, CIMClass, CIMClassName, CIMProperty, CIMMethod,
                    CIMParameter, CIMQualifier, CIMQualifierDeclaration, CIMDateTime, Char16,
                    Uint8, Sint8, Uint16, Sint16, Uint32, Sint32, Uint64, Sint64, Real32, Real64,
                    CIMInt)
from pywbem import _cim_xml
from pywbem import _cim_obj
from pywbem import _cim_operations as _ops
from pywbem._tupleparse import TupleParser
from pywbem._tupletree import xml_to_tupletree_sax

warnings.simplefilter('ignore')

R = Run('tocimxmlstr -> minidom -> SAX -> TupleParser round trip, second round trip (same object, byte-identical '
        'XML) and independent etree reference decoding of the wire form, over: every string of length <= 2 from a '
        '12-char alphabet (a blank TAB LF CR < > & ] " e-acute astral) in 15 value contexts (property, array, '
        'qualifier, qualifier declaration, keybinding, PARAMVALUE, VALUE, instance+path, embedded depth 1..3, CDATA '
        'mode), length 3 in the property/CDATA/embedded contexts (thorough: all contexts, length 4 in property and '
        'CDATA) + seeded strings over 34 chars; 14 value types x boundary values (INF/NaN/-0.0/denormals) x '
        '{scalar, NULL, empty, 1, all, NULL-only, with NULL} x {property, qualifier, qualifier declaration, '
        'PARAMVALUE, VALUE, keybinding} + seeded float32/float64 bit patterns; instance/class paths x 6 hosts x 6 '
        'namespaces x nested reference keys depth 0..3, mixed host/namespace at each level, ignore_host/namespace; '
        'all 3^5 qualifier flavor/propagated, 3^4 x scopes and all 2^7 scope subsets; property kinds x class_origin '
        'x propagated x array_size x reference_class x qualifiers; 4 parameter kinds; methods; classes; instances '
        'with 4 path kinds; name case and child order permutations; embedded instance/class chains depth 0..3 x '
        'array x entity/CDATA; seeded random object trees (quick 500, thorough 16000); array shapes: every array '
        'over {a (falsy: 0/False/empty/zero interval), b, NULL} incl. [], [NULL], [NULL, NULL], repeated NULLs and '
        'repeated values, compared entry by entry through a shape code, in 12 carriers (PROPERTY.ARRAY, instance '
        'property, class property default + its qualifier, property two embedded instances deep, class default in '
        'an embedded class, QUALIFIER, QUALIFIER.DECLARATION, bare VALUE.ARRAY, CIMParameter PARAMVALUE, '
        'InvokeMethod request via Params= and via keyword, InvokeMethod output parameter) x 17 kinds (14 types, '
        'reference, embedded instance, embedded object): quick = length <= 4 for string/boolean/uint8/embedded '
        'instance/reference in every carrier and for every kind in PROPERTY.ARRAY and PARAMVALUE, length <= 2 for '
        'the other pairs; thorough = length <= 5 everywhere + CDATA mode; SEND_VALUE_NULL=False for every shape '
        'with a NULL (quick: length <= 3, boolean 2, 4 in PROPERTY.ARRAY/PARAMVALUE), modelled as documented (empty VALUE '
        'per NULL entry on the wire)')

TP = TupleParser()

# ---------------------------------------------------------------------------------------------
# views: nested tuples (KIND, field...) built from public attributes only
# ---------------------------------------------------------------------------------------------
FIELDS = {
    'ipath': ('host', 'namespace', 'classname', 'keys'),
    'cpath': ('host', 'namespace', 'classname'),
    'kb': ('name', 'value'),
    'qual': ('name', 'type', 'value', 'propagated', 'overridable', 'tosubclass', 'toinstance', 'translatable'),
    'prop': ('name', 'type', 'is_array', 'array_size', 'class_origin', 'propagated', 'reference_class',
             'embedded_object', 'value', 'qualifiers'),
    'meth': ('name', 'return_type', 'class_origin', 'propagated', 'parameters', 'qualifiers'),
    'param': ('name', 'type', 'is_array', 'array_size', 'reference_class', 'qualifiers'),
    'inst': ('classname', 'path', 'propkeys', 'properties', 'qualifiers'),
    'class': ('classname', 'superclass', 'properties', 'methods', 'qualifiers'),
    'qdecl': ('name', 'type', 'is_array', 'array_size', 'value', 'scopes', 'overridable', 'tosubclass',
              'toinstance', 'translatable'),
    'pval': ('name', 'type', 'value'),
    'val': ('type', 'value'),
}
KINDS = set(FIELDS) | {'null', 'nopath', 'array', 'seq', 'int', 'float', 'BADCLASS', 'boolean', 'string', 'char16',
                       'uint8', 'sint8', 'uint16', 'sint16', 'uint32', 'sint32', 'uint64', 'sint64', 'real32',
                       'real64', 'datetime'}
NULL = ('null',)
NOPATH = ('nopath',)
INT_RANGE = {'uint8': (0, 2**8 - 1), 'sint8': (-2**7, 2**7 - 1), 'uint16': (0, 2**16 - 1),
             'sint16': (-2**15, 2**15 - 1), 'uint32': (0, 2**32 - 1), 'sint32': (-2**31, 2**31 - 1),
             'uint64': (0, 2**64 - 1), 'sint64': (-2**63, 2**63 - 1)}
PYCLASS = {'uint8': Uint8, 'sint8': Sint8, 'uint16': Uint16, 'sint16': Sint16, 'uint32': Uint32,
           'sint32': Sint32, 'uint64': Uint64, 'sint64': Sint64, 'real32': Real32, 'real64': Real64}
ALL_SCOPES = ('ASSOCIATION', 'CLASS', 'INDICATION', 'METHOD', 'PARAMETER', 'PROPERTY', 'REFERENCE')
TYPES = ['boolean', 'string', 'char16', 'uint8', 'sint8', 'uint16', 'sint16', 'uint32', 'sint32', 'uint64',
         'sint64', 'real32', 'real64', 'datetime']


def f64(x):
    x = float(x)
    return 'nan' if x != x else struct.pack('>d', x).hex()


def f32(x):
    x = float(x)
    if x != x:
        return 'nan'
    try:
        return struct.pack('>f', x).hex()
    except OverflowError:
        return 'inf' if x > 0 else '-inf'


def bad(t, v):
    return ('BADCLASS', t, type(v).__name__, repr(v)[:60])


def seq(items):
    return ('seq',) + tuple(items)


class V:
    """View builder.  dflt: apply the DSP0201 defaults / representability rules to an object that was built
    by hand (x0).  exact: reals compared bit for bit as doubles (x1 against x2)."""

    def __init__(self, dflt, exact):
        self.dflt = dflt
        self.exact = exact

    def flag(self, v, default):
        if v is None and self.dflt:
            return default
        return v

    def real(self, t, v):
        if self.exact or t == 'real64':
            return (t, f64(v))
        return (t, f32(v))

    def leaf(self, v, t):
        """typed leaf: value v declared as CIM type t"""
        if t == 'boolean':
            return ('boolean', v) if type(v) is bool else bad(t, v)
        if t in INT_RANGE:
            return (t, int(v)) if type(v) is PYCLASS[t] else bad(t, v)
        if t in ('real32', 'real64'):
            return self.real(t, v) if type(v) is PYCLASS[t] else bad(t, v)
        if t == 'datetime':
            return ('datetime', str(v)) if type(v) is CIMDateTime else bad(t, v)
        if t in ('string', 'char16'):
            return (t, str(v)) if isinstance(v, str) else bad(t, v)
        return bad(t, v)

    def value(self, v, t):
        if v is None:
            return NULL
        if isinstance(v, (list, tuple)):
            return ('array',) + tuple(self.value(e, t) for e in v)
        if isinstance(v, CIMInstance):
            return self.inst(v, embedded=True)
        if isinstance(v, CIMClass):
            return self.klass(v)
        if t == 'reference':
            return self.path(v)
        return self.leaf(v, t)

    def keyvalue(self, v):
        """keybinding values carry their CIM type in their Python class"""
        if isinstance(v, CIMInstanceName):
            return self.path(v)
        if isinstance(v, bool):
            return ('boolean', v)
        if isinstance(v, CIMInt):
            return (v.cimtype, int(v))
        if isinstance(v, (Real32, Real64)):
            return (v.cimtype, f64(v))   # str() of a float is exact
        if isinstance(v, CIMDateTime):
            return ('datetime', str(v))
        if isinstance(v, Char16):
            return ('char16', str(v))
        if isinstance(v, str):
            return ('string', str(v))
        if isinstance(v, int):
            return ('int', v)
        if isinstance(v, float):
            return ('float', f64(v))
        return bad('key', v)

    def path(self, p):
        if p is None:
            return NOPATH
        host, ns = p.host, p.namespace
        if self.dflt and ns is None:
            host = None     # DSP0201 has no element for a host without namespace
        if isinstance(p, CIMClassName):
            return ('cpath', host, ns, p.classname)
        if isinstance(p, CIMInstanceName):
            return ('ipath', host, ns, p.classname,
                    seq(('kb', k, self.keyvalue(v)) for k, v in p.keybindings.items()))
        return bad('path', p)

    def quals(self, d):
        return seq(self.qual(q) for q in d.values())

    def qual(self, q):
        return ('qual', q.name, q.type, self.value(q.value, q.type), self.flag(q.propagated, False),
                self.flag(q.overridable, True), self.flag(q.tosubclass, True), self.flag(q.toinstance, False),
                self.flag(q.translatable, False))

    def prop(self, p):
        return ('prop', p.name, p.type, p.is_array, p.array_size, p.class_origin, self.flag(p.propagated, False),
                p.reference_class, p.embedded_object, self.value(p.value, p.type), self.quals(p.qualifiers))

    def param(self, p):
        return ('param', p.name, p.type, p.is_array, p.array_size, p.reference_class, self.quals(p.qualifiers))

    def meth(self, m):
        return ('meth', m.name, m.return_type, m.class_origin, self.flag(m.propagated, False),
                seq(self.param(p) for p in m.parameters.values()), self.quals(m.qualifiers))

    def inst(self, i, embedded=False):
        path = NOPATH if (embedded and self.dflt) else self.path(i.path)
        return ('inst', i.classname, path, tuple(i.properties.keys()),
                seq(self.prop(p) for p in i.properties.values()), self.quals(i.qualifiers))

    def klass(self, c):
        return ('class', c.classname, c.superclass, seq(self.prop(p) for p in c.properties.values()),
                seq(self.meth(m) for m in c.methods.values()), self.quals(c.qualifiers))

    def qdecl(self, q):
        eff = sorted(k.upper() for k, v in q.scopes.items() if v)
        if 'ANY' in eff:
            eff = list(ALL_SCOPES)
        return ('qdecl', q.name, q.type, q.is_array, q.array_size, self.value(q.value, q.type), tuple(eff),
                self.flag(q.overridable, True), self.flag(q.tosubclass, True), self.flag(q.toinstance, False),
                self.flag(q.translatable, False))

    def pval(self, p):
        return ('pval', p.name, p.type, self.value(p.value, p.type))

    def any(self, x):
        if isinstance(x, CIMInstance):
            return self.inst(x)
        if isinstance(x, CIMClass):
            return self.klass(x)
        if isinstance(x, (CIMInstanceName, CIMClassName)):
            return self.path(x)
        if isinstance(x, CIMProperty):
            return self.prop(x)
        if isinstance(x, CIMMethod):
            return self.meth(x)
        if isinstance(x, CIMParameter):
            return self.param(x)
        if isinstance(x, CIMQualifier):
            return self.qual(x)
        if isinstance(x, CIMQualifierDeclaration):
            return self.qdecl(x)
        return bad('object', x)


EXPECT = V(dflt=True, exact=False)
GOT = V(dflt=False, exact=False)
EXACT = V(dflt=False, exact=True)

# ---------------------------------------------------------------------------------------------
# reference decoder: CIM-XML text -> view, written from the DSP0201 DTD; uses xml.etree only
# ---------------------------------------------------------------------------------------------
INT_RE = re.compile(r'[+-]?[0-9]+\Z')
HEX_RE = re.compile(r'[+-]?0[xX][0-9a-fA-F]+\Z')


class RefError(Exception):
    pass


def xbool(e, attr, default):
    v = e.get(attr)
    if v is None:
        return default
    if v.lower() not in ('true', 'false'):
        raise RefError(f'{e.tag} {attr}={v!r}')
    return v.lower() == 'true'


def xint(e, attr):
    v = e.get(attr)
    return None if v is None else int(v)


def ref_number(text):
    s = text.strip()
    if HEX_RE.match(s):
        return int(s, 16)
    if INT_RE.match(s):
        return int(s)
    return float(s)


def ref_leaf(text, t):
    if t in ('string', 'char16'):
        return (t, text)
    if t == 'datetime':
        return ('datetime', text)
    if t == 'boolean':
        s = text.strip().lower()
        if s not in ('true', 'false'):
            raise RefError(f'boolean text {text!r}')
        return ('boolean', s == 'true')
    if t in INT_RANGE:
        n = ref_number(text)
        if not isinstance(n, int) or not INT_RANGE[t][0] <= n <= INT_RANGE[t][1]:
            raise RefError(f'{t} text {text!r}')
        return (t, n)
    if t == 'real32':
        return (t, f32(ref_number(text)))
    if t == 'real64':
        return (t, f64(ref_number(text)))
    raise RefError(f'type {t!r}')


def ref_embedded(text):
    e = ET.fromstring(text.encode('utf-8'))
    if e.tag not in ('INSTANCE', 'CLASS'):
        raise RefError('embedded top-level element ' + e.tag)
    return ref(e)


def ref_one(e, t, emb):
    """VALUE | VALUE.NULL | VALUE.REFERENCE -> leaf view"""
    if e.tag == 'VALUE.NULL':
        return NULL
    if e.tag == 'VALUE.REFERENCE':
        return ref(e[0])
    if e.tag != 'VALUE' or len(e):
        raise RefError('value element ' + e.tag)
    text = e.text or ''
    return ref_embedded(text) if emb else ref_leaf(text, t)


def ref_value(e, t, emb=None):
    """the (VALUE | VALUE.ARRAY | VALUE.REFERENCE | VALUE.REFARRAY)? child of e"""
    vals = [c for c in e if c.tag in ('VALUE', 'VALUE.ARRAY', 'VALUE.REFERENCE', 'VALUE.REFARRAY')]
    if not vals:
        return NULL
    if len(vals) > 1:
        raise RefError('more than one value child in ' + e.tag)
    v = vals[0]
    if v.tag in ('VALUE.ARRAY', 'VALUE.REFARRAY'):
        return ('array',) + tuple(ref_one(c, t, emb) for c in v)
    return ref_one(v, t, emb)


def ref_quals(e):
    return seq(ref(c) for c in e if c.tag == 'QUALIFIER')


def ref_lnp(e):
    if e.tag != 'LOCALNAMESPACEPATH' or not len(e):
        raise RefError('LOCALNAMESPACEPATH')
    if any(c.tag != 'NAMESPACE' or '/' in c.attrib['NAME'] for c in e):
        raise RefError('NAMESPACE is not a single namespace component')
    return '/'.join(c.attrib['NAME'] for c in e)


def ref_nsp(e):
    if e.tag != 'NAMESPACEPATH' or len(e) != 2 or e[0].tag != 'HOST':
        raise RefError('NAMESPACEPATH')
    return e[0].text or '', ref_lnp(e[1])


def with_path(pathview, host, ns):
    return (pathview[0], host, ns) + pathview[3:]


def ref_keyvalue(e):
    t = e.get('TYPE')
    vt = e.get('VALUETYPE', 'string')
    text = e.text or ''
    if t:
        if t in ('real32', 'real64'):
            return (t, f64(ref_number(text)))
        return ref_leaf(text, t)
    if vt == 'string':
        return ('string', text)
    if vt == 'boolean':
        return ref_leaf(text, 'boolean')
    if vt == 'numeric':
        n = ref_number(text)
        return ('int', n) if isinstance(n, int) else ('float', f64(n))
    raise RefError('VALUETYPE ' + vt)


def ref_props(e):
    return [c for c in e if c.tag in ('PROPERTY', 'PROPERTY.ARRAY', 'PROPERTY.REFERENCE')]


def ref(e):
    tag = e.tag
    if tag == 'CLASSNAME':
        return ('cpath', None, None, e.attrib['NAME'])
    if tag in ('LOCALCLASSPATH', 'LOCALINSTANCEPATH'):
        return with_path(ref(e[1]), None, ref_lnp(e[0]))
    if tag in ('CLASSPATH', 'INSTANCEPATH'):
        host, ns = ref_nsp(e[0])
        return with_path(ref(e[1]), host, ns)
    if tag == 'INSTANCENAME':
        kbs = []
        for kb in e:
            if kb.tag != 'KEYBINDING' or len(kb) != 1:
                raise RefError('INSTANCENAME child ' + kb.tag)
            c = kb[0]
            kbs.append(('kb', kb.attrib['NAME'], ref_keyvalue(c) if c.tag == 'KEYVALUE' else ref_one(c, None, None)))
        return ('ipath', None, None, e.attrib['CLASSNAME'], seq(kbs))
    if tag == 'QUALIFIER':
        t = e.attrib['TYPE']
        return ('qual', e.attrib['NAME'], t, ref_value(e, t), xbool(e, 'PROPAGATED', False),
                xbool(e, 'OVERRIDABLE', True), xbool(e, 'TOSUBCLASS', True), xbool(e, 'TOINSTANCE', False),
                xbool(e, 'TRANSLATABLE', False))
    if tag in ('PROPERTY', 'PROPERTY.ARRAY'):
        t = e.attrib['TYPE']
        emb = e.get('EmbeddedObject')
        return ('prop', e.attrib['NAME'], t, tag == 'PROPERTY.ARRAY', xint(e, 'ARRAYSIZE'), e.get('CLASSORIGIN'),
                xbool(e, 'PROPAGATED', False), None, emb, ref_value(e, t, emb), ref_quals(e))
    if tag == 'PROPERTY.REFERENCE':
        return ('prop', e.attrib['NAME'], 'reference', False, None, e.get('CLASSORIGIN'),
                xbool(e, 'PROPAGATED', False), e.get('REFERENCECLASS'), None, ref_value(e, 'reference'),
                ref_quals(e))
    if tag in ('PARAMETER', 'PARAMETER.ARRAY'):
        return ('param', e.attrib['NAME'], e.attrib['TYPE'], tag == 'PARAMETER.ARRAY', xint(e, 'ARRAYSIZE'), None,
                ref_quals(e))
    if tag in ('PARAMETER.REFERENCE', 'PARAMETER.REFARRAY'):
        return ('param', e.attrib['NAME'], 'reference', tag == 'PARAMETER.REFARRAY', xint(e, 'ARRAYSIZE'),
                e.get('REFERENCECLASS'), ref_quals(e))
    if tag == 'METHOD':
        return ('meth', e.attrib['NAME'], e.get('TYPE'), e.get('CLASSORIGIN'), xbool(e, 'PROPAGATED', False),
                seq(ref(c) for c in e if c.tag.startswith('PARAMETER')), ref_quals(e))
    if tag == 'INSTANCE':
        props = ref_props(e)
        return ('inst', e.attrib['CLASSNAME'], NOPATH, tuple(p.attrib['NAME'] for p in props),
                seq(ref(p) for p in props), ref_quals(e))
    if tag in ('VALUE.NAMEDINSTANCE', 'VALUE.OBJECTWITHLOCALPATH', 'VALUE.INSTANCEWITHPATH'):
        want = {'VALUE.NAMEDINSTANCE': 'INSTANCENAME', 'VALUE.OBJECTWITHLOCALPATH': 'LOCALINSTANCEPATH',
                'VALUE.INSTANCEWITHPATH': 'INSTANCEPATH'}[tag]
        if len(e) != 2 or e[0].tag != want or e[1].tag != 'INSTANCE':
            raise RefError(tag + ' children')
        i = ref(e[1])
        return i[:2] + (ref(e[0]),) + i[3:]
    if tag == 'CLASS':
        return ('class', e.attrib['NAME'], e.get('SUPERCLASS'), seq(ref(p) for p in ref_props(e)),
                seq(ref(c) for c in e if c.tag == 'METHOD'), ref_quals(e))
    if tag == 'QUALIFIER.DECLARATION':
        t = e.attrib['TYPE']
        scopes = ()
        for c in e:
            if c.tag == 'SCOPE':
                scopes = tuple(sorted(a for a in c.attrib if xbool(c, a, False)))
                for a in c.attrib:
                    if a not in ALL_SCOPES:
                        raise RefError('SCOPE attribute ' + a)
        return ('qdecl', e.attrib['NAME'], t, xbool(e, 'ISARRAY', False), xint(e, 'ARRAYSIZE'), ref_value(e, t),
                scopes, xbool(e, 'OVERRIDABLE', True), xbool(e, 'TOSUBCLASS', True), xbool(e, 'TOINSTANCE', False),
                xbool(e, 'TRANSLATABLE', False))
    if tag == 'PARAMVALUE':
        t = e.get('PARAMTYPE')
        return ('pval', e.attrib['NAME'], t, ref_value(e, t, e.get('EmbeddedObject')))
    raise RefError('element ' + tag)


# ---------------------------------------------------------------------------------------------
# comparison and classification
# ---------------------------------------------------------------------------------------------
def diff(a, b, slot, out):
    """collect (slot, expected, observed) for every differing leaf"""
    if a == b:
        return
    if isinstance(a, tuple) and isinstance(b, tuple) and a and b and a[0] == b[0] and len(a) == len(b):
        if a[0] in FIELDS:
            for n, x, y in zip(FIELDS[a[0]], a[1:], b[1:]):
                diff(x, y, a[0] + '.' + n, out)
            return
        if a[0] in ('seq', 'array'):
            for x, y in zip(a[1:], b[1:]):
                diff(x, y, slot, out)
            return
    if isinstance(a, tuple) and isinstance(b, tuple) and a and b and a[0] == b[0] and a[0] in ('seq', 'array'):
        out.append((slot + '#count', len(a) - 1, len(b) - 1))
        return
    out.append((slot, a, b))


def lineend(s):
    return s.replace('\r\n', '\n').replace('\r', '\n')


def known_leaf(slot, exp, obs):
    """narrow signatures of the defects reproduced on the unchanged tree"""
    if isinstance(exp, tuple) and isinstance(obs, tuple) and len(exp) == 2 and len(obs) == 2:
        if exp[0] in ('string', 'char16') and isinstance(exp[1], str) and isinstance(obs[1], str):
            if obs[0] == exp[0] and '\r' in exp[1] and obs[1] == lineend(exp[1]):
                return 'known:string-CR-becomes-LF'
            if slot == 'kb.value' and exp[0] == 'char16' and obs == ('string', exp[1]):
                return 'known:keybinding-char16-read-back-as-string'
    return None


def walk(v):
    yield v
    if isinstance(v, tuple):
        for c in v:
            if isinstance(c, tuple):
                yield from walk(c)


def null_in_nonstring_array(view):
    for n in walk(view):
        if n and n[0] in ('prop', 'qual', 'qdecl', 'pval'):
            t = n[2]
            val = n[FIELDS[n[0]].index('value') + 1]
            if t not in ('string', 'reference') and val[0] == 'array' and NULL in val[1:] and \
                    not any(x[0] in ('inst', 'class') for x in val[1:]):
                return True
    return False


def embedded_with_path(x, inside=False):
    """does the hand-built object x carry an embedded instance whose path is set"""
    if isinstance(x, (list, tuple)):
        return any(embedded_with_path(e, inside) for e in x)
    if isinstance(x, CIMInstance):
        if inside and x.path is not None:
            return True
        return any(embedded_with_path(p.value, True) for p in x.properties.values())
    if isinstance(x, CIMClass):
        return any(embedded_with_path(p.value, True) for p in x.properties.values())
    if isinstance(x, (CIMProperty, CIMParameter)):
        return embedded_with_path(x.value, True)
    return False


KNOWN_SCOPE_ANY = 'known:qualifier-declaration-scope-ANY-false-sent-as-SCOPE-attribute'
KNOWN_BOOLEAN_FALSE = 'known:paramvalue-boolean-FALSE-typed-True-by-cimvalue'


def short(v):
    return repr(v)[:300]


VIOLS = {}


class Lazy:
    """a detail value that is only rendered when a violation is actually recorded"""
    def __init__(self, fn):
        self.fn = fn


class KnownDefect(Exception):
    """raised by a codec when the failure it met is one of the catalogued defects"""
    def __init__(self, vid, what):
        Exception.__init__(self, vid)
        self.vid = vid
        self.what = what


def violation(vid, **detail):
    """buffered, so that R.violation (which keeps a bounded number of ids) sees unknown failures first"""
    if vid not in VIOLS:
        VIOLS[vid] = {k: (v.fn() if isinstance(v, Lazy) else v) for k, v in detail.items()}


def flush():
    for vid in sorted(VIOLS, key=lambda v: (v.startswith('known:'), v)):
        R.violation(vid, **VIOLS[vid])
    R.finish()


def scope_any_false(x):
    return isinstance(x, CIMQualifierDeclaration) and any(k.upper() == 'ANY' and not v for k, v in x.scopes.items())


def report(stage, diffs, desc):
    for slot, exp, obs in diffs:
        vid = known_leaf(slot, exp, obs)
        if vid is None:
            kind = exp[0] if isinstance(exp, tuple) and exp and exp[0] in KINDS else type(exp).__name__
            vid = f'{stage}-{slot}-differs[{kind}]'
        violation(vid, slot=slot, expected=short(exp), observed=short(obs), **desc)


def enc_default(x):
    return pywbem.tocimxmlstr(x)


def parse_default(xml):
    r = TP.parse_any(xml_to_tupletree_sax(xml, 'C01'))
    if isinstance(r, tuple) and len(r) == 3 and isinstance(r[0], str) and r[0].startswith('VALUE.OBJECT'):
        r = r[2]
    return r


class Codec:
    """how one family of objects is encoded, parsed and viewed"""
    enc = staticmethod(enc_default)
    parse = staticmethod(parse_default)
    reenc = staticmethod(enc_default)

    @staticmethod
    def view(v, x):
        return v.any(x)


def unpack_raw(raw, t):
    """type the raw text of VALUE / VALUE.ARRAY with the parser's own leaf decoder"""
    if isinstance(raw, list):
        return [unpack_raw(d, t) for d in raw]
    if raw is None or not isinstance(raw, str):
        return raw
    return TP.unpack_single_value(raw, t)


class ParamValueCodec(Codec):
    """CIMParameter as PARAMVALUE (parse_paramvalue returns name, type and the untyped VALUE text)"""
    @staticmethod
    def enc(x):
        return pywbem.tocimxmlstr(x.tocimxml(as_value=True))
    reenc = enc

    @staticmethod
    def parse(xml):
        name, ptype, raw = parse_default(xml)
        # parse_paramvalue does not return the EmbeddedObject attribute; CIMParameter looks at the first entry only
        flat = raw if isinstance(raw, list) else [raw]
        eo = 'object' if any(isinstance(e, CIMClass) for e in flat) else \
            'instance' if any(isinstance(e, CIMInstance) for e in flat) else None
        return CIMParameter(name, ptype, value=unpack_raw(raw, ptype), embedded_object=eo)

    @staticmethod
    def view(v, x):
        return v.pval(x)

    @staticmethod
    def client_typed(xml):
        """the typing WBEMConnection._methodcall applies to the PARAMVALUEs of a method response"""
        name, ptype, raw = parse_default(xml)
        return CIMParameter(name, ptype, value=raw if ptype == 'reference' else pywbem.cimvalue(raw, ptype))


class TypedValue:
    """a bare typed value for the module-level tocimxml(): VALUE / VALUE.ARRAY"""
    def __init__(self, t, value):
        self.type = t
        self.value = value


class ValueCodec(Codec):
    @staticmethod
    def enc(x):
        return pywbem.tocimxmlstr(x.value)
    reenc = enc

    @staticmethod
    def view(v, x):
        return ('val', x.type, v.value(x.value, x.type))


def value_codec(t):
    class C(ValueCodec):
        @staticmethod
        def parse(xml):
            return TypedValue(t, unpack_raw(parse_default(xml), t))
    return C


# extrinsic method call: the request is built by WBEMConnection._methodcall (its own PARAMVALUE encoder, not
# CIMParameter.tocimxml) and the output parameters of the response are typed by it; the HTTP layer is replaced
# by an echo server that answers with the PARAMVALUE elements it is told to return
REPLY = ('<?xml version="1.0" encoding="utf-8" ?>\n<CIM CIMVERSION="2.0" DTDVERSION="2.0"><MESSAGE ID="1001" '
         'PROTOCOLVERSION="1.0"><SIMPLERSP><METHODRESPONSE NAME="M">%s</METHODRESPONSE></SIMPLERSP></MESSAGE></CIM>')
NULL_PARAM_ID = 'known:InvokeMethod-array-parameter-with-NULL-entry-AttributeError'
NULL_PARAM_WHAT = ("WBEMConnection.InvokeMethod() cannot send an array input parameter that has a NULL entry: "
                   "conn.InvokeMethod('M', 'C', P=[pywbem.Uint8(1), None]) (equally Params=[CIMParameter('P', 'uint8', "
                   "value=[1, None])]) raises AttributeError \"'NoneType' object has no attribute 'nodeType'\" while "
                   "building the request, because paramvalue() in _methodcall() returns None for a None entry "
                   "instead of a VALUE.NULL element (CIMParameter.tocimxml(as_value=True) encodes the same value "
                   "correctly)")


class Captured(Exception):
    pass


class EchoServer:
    """stands in for pywbem._cim_operations.wbem_request; nothing is sent anywhere"""
    def __init__(self):
        self.conn = None
        self.capture = False
        self.request = None
        self.reply_params = ''

    def __call__(self, conn, req_data, cimxml_headers, *args, **kwargs):
        self.request = req_data.decode('utf-8') if isinstance(req_data, bytes) else req_data
        if self.capture:
            raise Captured()
        return (REPLY % self.reply_params).encode('utf-8'), 0

    def invoke(self, capture, reply_params='', params=None, **kwparams):
        if self.conn is None:
            self.conn = pywbem.WBEMConnection('http://c01.invalid:5988', default_namespace='root/c01')
        old = _ops.wbem_request
        _ops.wbem_request = self
        self.capture, self.reply_params, self.request = capture, reply_params, None
        try:
            return self.conn.InvokeMethod('M', 'C', params, **kwparams)
        except Captured:
            return None
        finally:
            _ops.wbem_request = old


SERVER = EchoServer()


class ParamHolder:
    """name, type and value of one method parameter as the caller of InvokeMethod sees it"""
    def __init__(self, name, t, value, embedded_object=None):
        self.name = name
        self.type = t
        self.value = value
        self.embedded_object = embedded_object


def as_cimparameter(x):
    if isinstance(x, CIMParameter):
        return x
    return CIMParameter(x.name, x.type, value=x.value, is_array=isinstance(x.value, list),
                        embedded_object=x.embedded_object)


def request_paramvalues(x, **invoke_args):
    try:
        SERVER.invoke(True, **invoke_args)
    except AttributeError as e:
        if "'NoneType' object has no attribute 'nodeType'" in str(e) and isinstance(x.value, list) and \
                any(e is None for e in x.value) and '_methodcall' in tb_functions(e) and tb_functions(e)[-1] == 'appendChild':
            raise KnownDefect(NULL_PARAM_ID, NULL_PARAM_WHAT)
        raise
    req = SERVER.request
    return req[req.index('</LOCALCLASSPATH>') + len('</LOCALCLASSPATH>'):req.rindex('</METHODCALL>')]


class InvokeParamCodec(Codec):
    """InvokeMethod(Params=[CIMParameter]) -> request PARAMVALUE -> echoed as output parameter -> outparams"""
    @staticmethod
    def enc(x):
        return request_paramvalues(x, params=[as_cimparameter(x)])
    reenc = enc

    @staticmethod
    def parse(xml):
        _, out = SERVER.invoke(False, reply_params=xml)
        (name, value), = out.items()
        m = re.match(r'<PARAMVALUE NAME="[^"]*"(?: PARAMTYPE="([^"]*)")?(?: EmbeddedObject="([^"]*)")?>', xml)
        return ParamHolder(name, m.group(1), value, m.group(2))

    @staticmethod
    def view(v, x):
        return v.pval(x)


class InvokeKwCodec(InvokeParamCodec):
    """InvokeMethod(P=value): CIM type and embedded-object kind inferred from the value"""
    @staticmethod
    def enc(x):
        value = x.value
        if x.type == 'char16' and isinstance(value, list):
            # char16 output parameters are plain str (the type is in PARAMTYPE); a keyword argument needs Char16
            value = [None if e is None else Char16(e) for e in value]
        return request_paramvalues(x, **{x.name: value})
    reenc = enc


class InvokeReplyCodec(InvokeParamCodec):
    """CIMParameter.tocimxml(as_value=True) as the output parameter of a method response -> outparams"""
    @staticmethod
    def enc(x):
        return ParamValueCodec.enc(as_cimparameter(x))
    reenc = enc


def ref_for(codec, xml, x0):
    e = ET.fromstring(xml.encode('utf-8'))
    if issubclass(codec, ValueCodec):
        t = x0.type
        if e.tag == 'VALUE.ARRAY':
            return ('val', t, ('array',) + tuple(ref_one(c, t, None) for c in e))
        return ('val', t, ref_one(e, t, None))
    return ref(e)


def tb_functions(exc):
    return [f.name for f in traceback.extract_tb(exc.__traceback__)]


def render_input(x0):
    if isinstance(x0, (TypedValue, ParamHolder)):
        return repr((x0.type, x0.value))[:600]
    return repr(x0)[:600]


def check(key, x0, codec=Codec, expected=None, enc=None, once=False, **desc):
    """one case: x0 is the hand-built object; returns the object the real parser read back (None: no such object).
    once: leave out the second round trip (used by the large array shape sweeps)"""
    R.case(key)
    desc = dict(case=Lazy(lambda: repr(key)[:200]), input=Lazy(lambda: render_input(x0)), **desc)
    if _cim_xml._CDATA_ESCAPING:
        desc['cdata_escaping'] = True
    if expected is None:
        expected = codec.view(EXPECT, x0)
    try:
        xml0 = (enc or codec.enc)(x0)
    except KnownDefect as e:
        violation(e.vid, what=e.what, **desc)
        return None
    except Exception as e:  # pylint: disable=broad-except
        if isinstance(e, (ValueError, TypeError)) and embedded_with_path(x0):
            return None     # refusing what DSP0201 cannot represent is "not accepted for transmission"
        violation('encode-raises-' + type(e).__name__, error=str(e)[:200], **desc)
        return None
    desc['xml'] = xml0[:600]
    # 1. independent decoding of the wire form
    wire_slots = set()
    try:
        wire = ref_for(codec, xml0, x0)
    except Exception as e:  # pylint: disable=broad-except
        if isinstance(e, RefError) and str(e).startswith('embedded top-level element VALUE.') and \
                embedded_with_path(x0):
            violation('known:embedded-instance-with-path-sent-as-VALUE.x-element', error=str(e), **desc)
        elif isinstance(e, RefError) and str(e) == 'SCOPE attribute ANY' and scope_any_false(x0):
            violation(KNOWN_SCOPE_ANY, error=str(e), **desc)
        else:
            violation('encode-wire-not-decodable-' + type(e).__name__, error=str(e)[:200], **desc)
        wire = None
    if wire is not None and wire != expected:
        d = []
        diff(expected, wire, 'top', d)
        wire_slots = {s for s, _, _ in d}
        report('encode', d, desc)
    # 2. the real parser
    try:
        x1 = codec.parse(xml0)
    except Exception as e:  # pylint: disable=broad-except
        fns = tb_functions(e)
        if isinstance(e, AssertionError) and fns[-1] in ('unpack_boolean', 'unpack_numeric', 'unpack_datetime',
                                                          'unpack_char16') and null_in_nonstring_array(expected):
            violation('known:NULL-entry-in-non-string-array-AssertionError', raised_in=fns[-1], **desc)
        elif type(e).__name__ == 'CIMXMLParseError' and 'Invalid top-level element' in str(e) and \
                'VALUE.' in str(e) and embedded_with_path(x0):
            violation('known:embedded-instance-with-path-sent-as-VALUE.x-element', error=str(e)[:150], **desc)
        elif type(e).__name__ == 'CIMXMLParseError' and scope_any_false(x0) and \
                "Element 'SCOPE' has invalid attribute(s) dict_keys({'ANY'})" in str(e):
            violation(KNOWN_SCOPE_ANY, error=str(e)[:150], **desc)
        else:
            violation('parse-raises-' + type(e).__name__, error=str(e)[:300], raised_in=fns[-1], **desc)
        return None
    got = codec.view(GOT, x1)
    if got != expected:
        d = []
        diff(expected, got, 'top', d)
        d = [t for t in d if t[0] not in wire_slots or known_leaf(*t)]
        if issubclass(codec, InvokeParamCodec):
            # the output parameters of InvokeMethod are typed by cimvalue(): same defect as client_typed below
            for slot, exp, obs in [t for t in d if t[1:] == (('boolean', False), ('boolean', True))]:
                violation(KNOWN_BOOLEAN_FALSE, slot=slot, expected=short(exp), observed=short(obs), **desc)
            d = [t for t in d if t[1:] != (('boolean', False), ('boolean', True))]
        report('roundtrip', d, desc)
    if codec is ParamValueCodec:
        try:
            got = codec.view(GOT, codec.client_typed(xml0))
        except Exception as e:  # pylint: disable=broad-except
            violation('paramvalue-client-typing-raises-' + type(e).__name__, error=str(e)[:300], **desc)
        else:
            d = []
            diff(expected, got, 'top', d)
            for slot, exp, obs in d:
                if exp == ('boolean', False) and obs == ('boolean', True):
                    violation(KNOWN_BOOLEAN_FALSE, slot=slot, expected=short(exp), observed=short(obs), **desc)
                elif not known_leaf(slot, exp, obs):
                    report('paramvalue-client-typing', [(slot, exp, obs)], desc)
    if once:
        return x1
    # 3. once more: same object, byte-identical XML
    try:
        xml1 = codec.reenc(x1)
        x2 = codec.parse(xml1)
        xml2 = codec.reenc(x2)
    except Exception as e:  # pylint: disable=broad-except
        violation('second-roundtrip-raises-' + type(e).__name__, error=str(e)[:300], **desc)
        return x1
    v1, v2 = codec.view(EXACT, x1), codec.view(EXACT, x2)
    if v1 != v2:
        d = []
        diff(v1, v2, 'top', d)
        violation('second-roundtrip-object-differs-at-' + d[0][0], first=short(d[0][1]), second=short(d[0][2]),
                    **desc)
    if xml1 != xml2:
        violation('second-roundtrip-xml-not-byte-identical', xml1=xml1[:400], xml2=xml2[:400], **desc)
    return x1


class cdata:
    """run with pywbem's CDATA escaping switch on"""
    def __enter__(self):
        _cim_xml._CDATA_ESCAPING = True

    def __exit__(self, *a):
        _cim_xml._CDATA_ESCAPING = False


# ---------------------------------------------------------------------------------------------
# ingredients
# ---------------------------------------------------------------------------------------------
ALPHA = ['a', ' ', '\t', '\n', '\r', '<', '>', '&', ']', '"', '\xe9', '\U0001F600']
WIDE = ALPHA + ["'", '\x7f', '\x85', '\xa0', '\u2028', '\u3000', '\ud7ff', '\ue000', '\ufffd', '\U00010000',
                '\U0010ffff', ';', '#', '[', '!', '-', '?', '/', '=', 'A', '0', '\\']


def f32val(x):
    return struct.unpack('>f', struct.pack('>f', x))[0]


DATETIMES = ['20140924193040.654321+120', '2014092419****.******+120', '00000000000000.000000:000',
             '99999999235959.999999:000', '12345678******.******:000', '00010101000000.000000-720',
             '99991231235959.999999+840', '19920901******.******+000', '20000229235959.000001-001']
SAMPLES = {
    'boolean': [True, False],
    'string': ['', 'abc', ' lead', 'trail ', ' ', 'a\tb\nc', '<&>"\'', ']]>', '<![CDATA[x]]>', '&amp;', '&#13;',
               '\U0001F600x', 'TRUE', '123', '\xe9\u20ac', '<INSTANCE CLASSNAME="C"/>'],
    'char16': ['a', ' ', '\t', '\n', '<', '&', '>', '"', '\xe9', '\ud7ff', '\ue000', '\ufffd', 'Z'],
    'real32': [0.0, -0.0, 1.0, -1.5, 0.5, 2.0**-149, 2.0**-126, (2 - 2.0**-23) * 2.0**127, 16777216.0, 1e10,
               f32val(0.1), f32val(1 / 3), f32val(3.14159265), f32val(-1.17549435e-38), f32val(6.02e23), 0.1, 4.35,
               float('inf'), float('-inf'), float('nan')],
    'real64': [0.0, -0.0, 1.0, 0.1, 1 / 3, 5e-324, 2.2250738585072014e-308, 1.7976931348623157e308, 1e15, 1e16, 1e17,
               123456789012345678.0, 1e22, 1e23, -1.5e-7, 4.35, 9007199254740993.0, 2.0**-149, 0.30000000000000004,
               float('inf'), float('-inf'), float('nan')],
    'datetime': [CIMDateTime(s) for s in DATETIMES],
}
for _t, (_lo, _hi) in INT_RANGE.items():
    SAMPLES[_t] = sorted({v for v in (_lo, _lo + 1, -1, 0, 1, 9, 10, _hi - 1, _hi) if _lo <= v <= _hi})

NAMES = ['abc', 'ABC', 'aBc', 'CIM_Foo', 'x_1', '\xdcn\xef_1', 'Z9']
HOSTS = ['h', 'Host.Example.COM:5989', '[::1]:5989', '10.1.2.3', 'h\xf6st']
NAMESPACES = ['root', 'root/cimv2', 'Root/CIMv2/x', 'interop', 'r\xf6ot/a']


def typed(t, v):
    """the CIM data type object for v"""
    return pywbem.cimvalue(v, t)


def ipath(depth=0, host=None, ns=None, cls='CIM_Ref', keys=None):
    kb = keys if keys is not None else [('Name', 'n'), ('ID', Uint16(3))]
    kb = list(kb)
    if depth > 0:
        kb.append(('Ref', ipath(depth - 1, host, ns, cls + str(depth))))
    return CIMInstanceName(cls, kb, host=host, namespace=ns)


KEYVALUES = [('str', 'v'), ('empty', ''), ('blank', ' a '), ('numstr', '42'), ('boolstr', 'TRUE'), ('markup', '<&>"'),
             ('tab', 'a\tb\nc'), ('astral', '\U0001F600'), ('t', True), ('f', False), ('i0', 0), ('ineg', -5),
             ('ibig', 2**70), ('fl', 1.5), ('flexp', 1e22), ('flneg0', -0.0), ('flinf', float('inf')),
             ('flnan', float('nan')), ('fltiny', 5e-324), ('dt', CIMDateTime(DATETIMES[0])),
             ('iv', CIMDateTime(DATETIMES[3])), ('r32', Real32(f32val(0.1))), ('r64', Real64(1 / 3)),
             ('r64nan', Real64('nan')), ('r32inf', Real32('-inf'))] + \
            [(t, typed(t, v)) for t in INT_RANGE for v in (INT_RANGE[t][0], INT_RANGE[t][1])]


def quals(n, flav=0):
    out = []
    for i in range(n):
        f = FLAVORS[(flav + i) % len(FLAVORS)]
        if i % 2 == 0:
            out.append(CIMQualifier(('Description', 'key', 'MaxLen')[i % 3], 'text <' + str(i) + '>', type='string',
                                    **f))
        else:
            out.append(CIMQualifier(('ValueMap', 'Values')[i % 2], ['1', None, ''], type='string', **f))
    return out


FLAVORS = [dict(zip(('propagated', 'overridable', 'tosubclass', 'toinstance', 'translatable'), c))
           for c in itertools.product((None, True, False), repeat=5)]


def nest(chain, s='leaf', arr=False, explicit_object=False):
    """embedded chain, outermost first, e.g. 'ici'; returns the outermost object"""
    inner = None
    for k, kind in enumerate(reversed(chain)):
        props = [CIMProperty('Str', s, type='string'), CIMProperty('N', k, type='uint8')]
        if inner is not None:
            eo = 'object' if (explicit_object or isinstance(inner, CIMClass)) else 'instance'
            val = [inner, None, inner] if arr else inner
            props.insert(1, CIMProperty('Emb', val, embedded_object=eo))
        if kind == 'i':
            inner = CIMInstance('C_L%d' % k, properties=props)
        else:
            inner = CIMClass('C_L%d' % k, properties=props, superclass='Sup' if k % 2 else None)
    return inner


# ---------------------------------------------------------------------------------------------
# families
# ---------------------------------------------------------------------------------------------
def string_contexts(s, which):
    """yield (context name, object, codec) carrying the string s"""
    if 'prop' in which:
        yield 'prop', CIMProperty('P', s, type='string'), Codec
    if 'cdata' in which:
        yield 'prop-cdata', CIMProperty('P', s, type='string'), Codec
        yield 'emb1-cdata', CIMProperty('E', nest('i', s)), Codec
    if 'emb' in which:
        yield 'emb1', CIMProperty('E', nest('i', s)), Codec
        yield 'emb2', CIMProperty('E', nest('ci', s)), Codec
    if 'rest' in which:
        yield 'proparr', CIMProperty('P', [s, None, s + 'x'], type='string'), Codec
        yield 'qual', CIMQualifier('Q', s, type='string'), Codec
        yield 'qualarr', CIMQualifier('Q', ['', s], type='string'), Codec
        yield 'qdecl', CIMQualifierDeclaration('Q', 'string', value=s), Codec
        yield 'key', CIMInstanceName('C', [('K', s), ('L', 1)]), Codec
        yield 'pval', CIMParameter('P', 'string', value=s), ParamValueCodec
        yield 'value', TypedValue('string', s), value_codec('string')
        yield 'emb3arr', CIMProperty('E', nest('iii', s, arr=True)), Codec
        yield 'instprop', CIMInstance('C', properties=[CIMProperty('p', s, type='string')],
                                      path=CIMInstanceName('C', [('k', s)], namespace='root')), Codec


def family_strings(rnd):
    thorough = R.tier == 'thorough'
    for n in range(0, 5 if thorough else 4):
        for tup in itertools.product(ALPHA, repeat=n):
            s = ''.join(tup)
            if n <= 2:
                which = ('prop', 'cdata', 'emb', 'rest')
            elif n == 3:
                which = ('prop', 'cdata', 'emb', 'rest') if thorough else ('prop', 'cdata') + \
                    (('emb',) if ']' in s or '&' in s or '\r' in s else ())
            else:
                which = ('prop', 'cdata')
            for ctx, obj, codec in string_contexts(s, which):
                if ctx.endswith('-cdata'):
                    with cdata():
                        check(('str', ctx, s), obj, codec, string=s)
                else:
                    check(('str', ctx, s), obj, codec, string=s)
    # seeded samples over a wider alphabet, longer strings
    for i in range(8000 if thorough else 400):
        s = ''.join(rnd.choice(WIDE) for _ in range(rnd.randint(1, 12)))
        which = ('prop', 'cdata', 'emb') if i % 4 else ('prop', 'cdata', 'emb', 'rest')
        for ctx, obj, codec in string_contexts(s, which):
            if ctx.endswith('-cdata'):
                with cdata():
                    check(('str', ctx, s), obj, codec, string=s)
            else:
                check(('str', ctx, s), obj, codec, string=s)
    # char16: every single character of both alphabets
    for c in sorted(set(WIDE)):
        if len(c) == 1 and ord(c) <= 0xFFFF:
            check(('char16', 'prop', c), CIMProperty('P', c, type='char16'), char=c)
            check(('char16', 'arr', c), CIMProperty('P', [c, c], type='char16'), char=c)
            check(('char16', 'qual', c), CIMQualifier('Q', c, type='char16'), char=c)
            if c != '\r':
                check(('char16', 'key', c), CIMInstanceName('C', [('K', Char16(c))]), char=c)


def value_shapes(t, vals):
    """scalar and array shapes of the sample values of type t (python values)"""
    for v in vals:
        yield 'scalar', v
    yield 'null', None
    yield 'empty', []
    yield 'one', [vals[0]]
    yield 'all', list(vals)
    yield 'nullonly', [None]
    yield 'withnull', [vals[0], None, vals[-1]]
    yield 'nullfirst', [None, vals[-1]]


def family_typed_values(rnd):
    for t in TYPES:
        vals = SAMPLES[t]
        for shape, v in value_shapes(t, vals):
            arr = isinstance(v, list)
            key = (t, shape, repr(v))
            check(('prop',) + key, CIMProperty('P', v, type=t, is_array=arr), type=t, value=repr(v))
            check(('qual',) + key, CIMQualifier('Q', v, type=t), type=t, value=repr(v))
            check(('qdecl',) + key, CIMQualifierDeclaration('Q', t, value=v, is_array=arr), type=t, value=repr(v))
            check(('pval',) + key, CIMParameter('P', t, value=v, is_array=arr), ParamValueCodec, type=t,
                  value=repr(v))
            if v is not None:
                tv = typed(t, v)
                check(('value',) + key, TypedValue(t, tv), value_codec(t), type=t, value=repr(v))
            if not arr and v is not None and t not in ('string', 'char16'):
                check(('key',) + key, CIMInstanceName('C', [('K', typed(t, v))]), type=t, value=repr(v))
    # seeded reals: random float32 and float64 bit patterns
    n = 20000 if R.tier == 'thorough' else 300
    for i in range(n):
        b32 = rnd.getrandbits(32)
        b64 = rnd.getrandbits(64)
        x32 = struct.unpack('>f', struct.pack('>I', b32))[0]
        x64 = struct.unpack('>d', struct.pack('>Q', b64))[0]
        check(('real32-bits', b32), CIMProperty('P', x32, type='real32'), bits=hex(b32))
        check(('real64-bits', b64), CIMProperty('P', [x64], type='real64'), bits=hex(b64))
        if i % 10 == 0:
            check(('real-key-bits', b64), CIMInstanceName('C', [('a', x64), ('b', Real64(x64)), ('c', Real32(x32))]),
                  bits=hex(b64))
    # seeded integers across each range
    for t, (lo, hi) in INT_RANGE.items():
        for i in range(200 if R.tier == 'thorough' else 20):
            v = rnd.randint(lo, hi)
            check(('int', t, v), CIMProperty('P', [v], type=t), type=t, value=v)


def family_paths(rnd):
    hostns = [(None, None), (None, 'root/cimv2'), ('h', 'root/cimv2'), ('h', None)]
    # every key value kind alone and in pairs (order, name case)
    for (n1, v1) in KEYVALUES:
        check(('path', 'key1', n1), CIMInstanceName('C', [(n1, v1)]), keyname=n1)
    for (n1, v1), (n2, v2) in itertools.permutations(KEYVALUES[:14], 2):
        check(('path', 'key2', n1, n2), CIMInstanceName('CIM_X', [(n1.upper(), v1), (n2, v2)], namespace='root'))
    for names in itertools.permutations(NAMES[:4], 3):
        check(('path', 'order', names), CIMInstanceName('c', [(n, i) for i, n in enumerate(names)]))
    check(('path', 'nokeys'), CIMInstanceName('C'))
    check(('path', 'allkeys'), CIMInstanceName('C', KEYVALUES, host='h', namespace='a/b'))
    for host in [None] + HOSTS:
        for ns in [None] + NAMESPACES:
            for cls in NAMES[:4]:
                check(('cpath', host, ns, cls), CIMClassName(cls, host=host, namespace=ns))
            for depth in range(0, 4):
                check(('ipath', host, ns, depth), ipath(depth, host, ns))
    # nested reference keys whose own host/namespace differ from the outer path
    for (h1, n1), (h2, n2), (h3, n3) in itertools.product(hostns, repeat=3):
        inner = CIMInstanceName('In', [('k', Sint8(-1))], host=h3, namespace=n3)
        mid = CIMInstanceName('Mid', [('r', inner), ('s', 'x')], host=h2, namespace=n2)
        check(('ipath-mixed', h1, n1, h2, n2, h3, n3),
              CIMInstanceName('Out', [('a', True), ('R', mid)], host=h1, namespace=n1))
    # ignore_host / ignore_namespace
    for host, ns in hostns:
        for ih, ins in itertools.product((False, True), repeat=2):
            for p in (ipath(1, host, ns), CIMClassName('C', host=host, namespace=ns)):
                exp = EXPECT.path(p)
                if ins:
                    exp = with_path(exp, None, None)
                elif ih:
                    exp = with_path(exp, None, exp[2])
                check(('ignore', type(p).__name__, host, ns, ih, ins), p, expected=exp,
                      enc=lambda x, ih=ih, ins=ins: x.tocimxmlstr(ignore_host=ih, ignore_namespace=ins),
                      ignore_host=ih, ignore_namespace=ins)
    # references as values: property, array parameter values
    refs = [ipath(0), ipath(2, None, 'root'), ipath(1, 'h', 'a/b'), CIMClassName('C'),
            CIMClassName('C', namespace='root'), CIMClassName('C', host='h', namespace='root/x')]
    for i, r in enumerate(refs):
        for rc in (None, 'CIM_RefClass'):
            check(('refprop', i, rc), CIMProperty('R', r, type='reference', reference_class=rc), ref=repr(r))
        check(('refpval', i), CIMParameter('R', 'reference', value=r), ParamValueCodec, ref=repr(r))
    check(('refprop', 'null'), CIMProperty('R', None, type='reference', reference_class='X'))
    for arr in ([], [None], [refs[0], None, refs[2]], refs[:3]):
        check(('refarr', len(arr), repr(arr)[:40]), CIMParameter('R', 'reference', value=arr, is_array=True),
              ParamValueCodec)


def family_qualifiers(rnd):
    for i, f in enumerate(FLAVORS):
        for name, t, v in (('Key', 'boolean', True), ('description', 'string', 'x'), ('VALUES', 'string', ['a', 'b']),
                           ('MaxLen', 'uint32', None)):
            check(('qual', i, name), CIMQualifier(name, v, type=t, **f), flavors=f)
    flav4 = list(itertools.product((None, True, False), repeat=4))
    scope_sets = []
    for n in range(0, 8):
        for c in itertools.combinations(ALL_SCOPES, n):
            scope_sets.append({k: True for k in c})
    scope_sets += [{'any': True}, {'ANY': True, 'class': False}, {'any': False, 'method': True},
                   {'class': False, 'Property': True, 'METHOD': False},
                   {k.lower(): (i % 2 == 0) for i, k in enumerate(ALL_SCOPES)},
                   # the shape the MOF compiler builds: every keyword present, ANY last
                   {k: k in ('PROPERTY', 'REFERENCE') for k in ALL_SCOPES + ('ANY',)},
                   {k: k == 'ANY' for k in ALL_SCOPES + ('ANY',)}]
    few_scopes = [{}, {'any': True}, {'CLASS': True, 'property': True}, {'method': False}]
    for fi, f in enumerate(flav4):
        fl = dict(zip(('overridable', 'tosubclass', 'toinstance', 'translatable'), f))
        for si, sc in enumerate(few_scopes):
            check(('qdecl', 'flav', fi, si), CIMQualifierDeclaration('Q', 'string', scopes=sc, **fl), scopes=sc,
                  flavors=fl)
    for si, sc in enumerate(scope_sets):
        for fl in ({}, dict(overridable=False, toinstance=True)):
            check(('qdecl', 'scope', si, len(fl)), CIMQualifierDeclaration('Abstract', 'boolean', value=False,
                                                                           scopes=sc, **fl), scopes=sc)
    for t in TYPES:
        for is_array, array_size, v in ((False, None, None), (True, None, None), (True, 0, None), (True, 5, []),
                                        (True, 2, [SAMPLES[t][0], SAMPLES[t][-1]]), (None, None, SAMPLES[t][0]),
                                        (None, None, [SAMPLES[t][0]])):
            check(('qdecl', 'arr', t, is_array, array_size, repr(v)),
                  CIMQualifierDeclaration('Q_' + t, t, value=v, is_array=is_array, array_size=array_size))


def prop_variants():
    """(label, kwargs) of the property element kinds"""
    inst = nest('i')
    yield 'uint8', dict(value=5, type='uint8')
    yield 'uint8-null', dict(value=None, type='uint8')
    yield 'string', dict(value='s p', type='string')
    yield 'bool', dict(value=False, type='boolean')
    yield 'datetime', dict(value=CIMDateTime(DATETIMES[0]), type='datetime')
    for asz in (None, 0, 3, 2**31):
        yield f'arr-{asz}', dict(value=['a', None, ''], type='string', array_size=asz)
        yield f'arrnull-{asz}', dict(value=None, type='sint64', is_array=True, array_size=asz)
    for rc in (None, 'CIM_Target', 'cim_target'):
        yield f'ref-{rc}', dict(value=ipath(1, None, 'root'), type='reference', reference_class=rc)
        yield f'refnull-{rc}', dict(value=None, type='reference', reference_class=rc)
    yield 'emb-inst', dict(value=inst)
    yield 'emb-inst-as-object', dict(value=inst, embedded_object='object')
    yield 'emb-class', dict(value=nest('c'))
    yield 'emb-null-inst', dict(value=None, type='string', embedded_object='instance')
    yield 'emb-null-obj', dict(value=None, type='string', embedded_object='object')
    yield 'emb-arr', dict(value=[inst, None, nest('i', 'other')])
    yield 'emb-arr-empty', dict(value=[], type='string', embedded_object='instance')
    yield 'emb-arr-obj', dict(value=[nest('c'), inst], embedded_object='object', array_size=2)


def family_properties(rnd):
    for label, kw in prop_variants():
        for co in (None, 'CIM_Origin', 'cim_origin'):
            for pg in (None, True, False):
                for nq in (0, 1, 3):
                    for name in ('Prop', 'PROP'):
                        if name == 'PROP' and (nq == 1 or co == 'cim_origin'):
                            continue
                        check(('prop', label, co, pg, nq, name),
                              CIMProperty(name, class_origin=co, propagated=pg, qualifiers=quals(nq, nq + len(label)),
                                          **kw), variant=label)


def param_variants():
    for t in TYPES:
        yield t, dict(type=t)
    for asz in (None, 0, 7, 2**31):
        yield f'arr-{asz}', dict(type='uint16', is_array=True, array_size=asz)
        yield f'strarr-{asz}', dict(type='string', is_array=True, array_size=asz)
        for rc in (None, 'CIM_T'):
            yield f'refarr-{asz}-{rc}', dict(type='reference', is_array=True, array_size=asz, reference_class=rc)
    for rc in (None, 'CIM_T', 'cim_t'):
        yield f'ref-{rc}', dict(type='reference', reference_class=rc)


def family_methods(rnd):
    pv = list(param_variants())
    for label, kw in pv:
        for nq in (0, 1, 2):
            for name in ('Param', 'pARAM'):
                check(('param', label, nq, name), CIMParameter(name, qualifiers=quals(nq, nq * 7), **kw),
                      variant=label)
    for rt in TYPES:
        for co in (None, 'CIM_Origin'):
            for pg in (None, True, False):
                for np_ in (0, 1, 4):
                    for nq in (0, 2):
                        params = [CIMParameter(NAMES[i], qualifiers=quals(i % 2, i), **pv[(i * 5 + np_ + nq) % len(pv)][1])
                                  for i in range(np_)]
                        check(('meth', rt, co, pg, np_, nq),
                              CIMMethod('DoIt', return_type=rt, class_origin=co, propagated=pg, parameters=params,
                                        qualifiers=quals(nq, 11)))
    # parameter order and name case
    for names in itertools.permutations(NAMES[:4], 4):
        params = [CIMParameter(n, **pv[(i * 3) % len(pv)][1]) for i, n in enumerate(names)]
        check(('meth', 'order', names), CIMMethod('m', return_type='uint32', parameters=params))


def sample_props(cls_level):
    """one property of every element kind, for instances (cls_level False) or classes"""
    out = [CIMProperty('pU8', 255, type='uint8'), CIMProperty('PS', ' s<&>\n', type='string'),
           CIMProperty('pnull', None, type='real64'), CIMProperty('pArr', ['x', None], type='string'),
           CIMProperty('pB', [True, False], type='boolean'), CIMProperty('pDT', CIMDateTime(DATETIMES[1]),
                                                                         type='datetime'),
           CIMProperty('pRef', ipath(1, 'h', 'root'), type='reference', reference_class='CIM_Ref' if cls_level else None),
           CIMProperty('pEmb', nest('i')), CIMProperty('pR32', f32val(0.1), type='real32'),
           CIMProperty('pC16', '\xe9', type='char16')]
    if cls_level:
        out = [CIMProperty(p.name, p.value, type=p.type, is_array=p.is_array, reference_class=p.reference_class,
                           embedded_object=p.embedded_object, class_origin='CIM_Base' if i % 2 else None,
                           propagated=(None, True, False)[i % 3], array_size=4 if p.is_array and i % 2 else None,
                           qualifiers=quals(i % 3, i))
               for i, p in enumerate(out)]
    return out


def family_objects(rnd):
    hostns = [(None, None), (None, 'root/cimv2'), ('h:5988', 'root/cimv2'), ('h', None)]
    props = sample_props(False)
    # instances: path kinds x property subsets x qualifiers
    for host, ns in hostns + [('nopath', None)]:
        path = None if host == 'nopath' else CIMInstanceName('CIM_Foo', [('pU8', Uint8(255)), ('PS', 's')], host=host,
                                                             namespace=ns)
        for k in range(0, len(props) + 1):
            for nq in (0, 2):
                check(('inst', host, ns, k, nq),
                      CIMInstance('CIM_Foo', properties=props[:k], qualifiers=quals(nq, k), path=path))
        if path is not None:
            i = CIMInstance('CIM_Foo', properties=props[:3], path=path)
            check(('inst', 'ignore_path', host, ns), i, expected=EXPECT.inst(i, embedded=True),
                  enc=lambda x: x.tocimxmlstr(ignore_path=True))
    for p in props:
        check(('inst', 'single', p.name), CIMInstance('c', properties=[p]))
    # property order and name case in instances and classes
    for names in itertools.permutations(NAMES[:5], 3):
        ps = [CIMProperty(n, i, type='uint16') for i, n in enumerate(names)]
        check(('inst', 'order', names), CIMInstance('C', properties=ps))
        check(('class', 'order', names), CIMClass('C', properties=ps,
                                                  methods=[CIMMethod(n, return_type='string') for n in names],
                                                  qualifiers=[CIMQualifier(n, True, type='boolean') for n in names]))
    # classes
    cprops = sample_props(True)
    meths = [CIMMethod('M%d' % i, return_type=TYPES[i * 3 % len(TYPES)], class_origin='CIM_Base' if i % 2 else None,
                       propagated=(None, False, True)[i % 3], qualifiers=quals(i % 3, i),
                       parameters=[CIMParameter('p%d' % j, **list(param_variants())[(i * 7 + j * 3) % 30][1])
                                   for j in range(i)])
             for i in range(4)]
    for sup in (None, 'CIM_Base', 'cim_base'):
        for k in (0, 1, 4, len(cprops)):
            for nm in (0, 1, 4):
                for nq in (0, 1, 3):
                    check(('class', sup, k, nm, nq),
                          CIMClass('CIM_Foo', properties=cprops[:k], methods=meths[:nm], qualifiers=quals(nq, k + nm),
                                   superclass=sup, path=CIMClassName('CIM_Foo', namespace='root') if k % 2 else None))
    for p in cprops:
        check(('class', 'single', p.name), CIMClass('c', properties=[p]))
    # embedded chains of depth 0..3 (depth = objects below the carrying property)
    check(('nest', 0), CIMProperty('E', 'plain', type='string'))
    for depth in (1, 2, 3):
        for chain in itertools.product('ic', repeat=depth):
            chain = ''.join(chain)
            for arr in (False, True):
                for s in ('leaf', '<&]]>\'" \t\n', ''):
                    for mode in ('entity', 'cdata'):
                        for eo in (False, True):
                            if eo and (mode == 'cdata' or s == ''):
                                continue
                            obj = nest(chain, s, arr, explicit_object=eo)
                            cases = [('prop', CIMProperty('E', [obj, None] if arr else obj,
                                                          embedded_object='object' if eo or chain[0] == 'c' else None),
                                      Codec),
                                     ('pval', CIMParameter('E', 'string', value=obj), ParamValueCodec)]
                            if chain[0] == 'i':
                                cases.append(('top', obj, Codec))
                            for where, x, codec in cases:
                                key = ('nest', chain, arr, s, mode, eo, where)
                                if mode == 'cdata':
                                    with cdata():
                                        check(key, x, codec)
                                else:
                                    check(key, x, codec)
    # an embedded instance that carries a path (the path has no representation inside an embedded INSTANCE)
    for host, ns in hostns[:3]:
        ei = CIMInstance('CIM_E', properties=[CIMProperty('k', 1, type='uint8')],
                         path=CIMInstanceName('CIM_E', [('k', Uint8(1))], host=host, namespace=ns))
        check(('emb-with-path', host, ns, 'prop'), CIMProperty('E', ei))
        check(('emb-with-path', host, ns, 'inst'), CIMInstance('C', properties=[CIMProperty('E', [ei])]))


# array shapes --------------------------------------------------------------------------------------
# every array over {a, b, NULL} up to a length bound, in every carrier of an array value.  a is the "falsy" value
# of its type (0, False, '', zero interval), b a different one, so that a decoder or encoder that tests `if v`
# instead of `v is None`, drops, merges, reorders or pads entries shows up as a changed shape code.
class send_value_null:
    """run with pywbem's SEND_VALUE_NULL switch set (the encoder reads the name bound in _cim_obj)"""
    def __init__(self, flag):
        self.flag = flag

    def __enter__(self):
        self.old = (_cim_obj.SEND_VALUE_NULL, pywbem.config.SEND_VALUE_NULL)
        _cim_obj.SEND_VALUE_NULL = pywbem.config.SEND_VALUE_NULL = self.flag

    def __exit__(self, *a):
        _cim_obj.SEND_VALUE_NULL, pywbem.config.SEND_VALUE_NULL = self.old


class ArrayKind:
    def __init__(self, label, t, a, b, eo=None):
        self.label, self.t, self.a, self.b, self.eo = label, t, a, b, eo
        self.plain = eo is None and t != 'reference'
        self.views = {'a': EXPECT.value(typed(t, a) if self.plain else a, t),
                      'b': EXPECT.value(typed(t, b) if self.plain else b, t)}
        assert self.views['a'] != self.views['b']

    def value(self, code, as_typed=False):
        m = {'a': self.a, 'b': self.b, 'N': None}
        v = [m[c] for c in code]
        if as_typed and self.t == 'char16':
            return [None if e is None else Char16(e) for e in v]    # cimvalue() leaves char16 as str
        return typed(self.t, v) if as_typed and self.plain else v

    def code_of(self, value):
        """shape code of a value that was read back, from the views of its entries"""
        if not isinstance(value, list):
            return 'not-a-list:' + type(value).__name__
        out = ''
        for e in value:
            if e is None:
                out += 'N'
                continue
            try:
                ev = GOT.value(e, self.t)
            except Exception:  # pylint: disable=broad-except
                ev = None
            out += 'a' if ev == self.views['a'] else 'b' if ev == self.views['b'] else '?'
        return out


def array_kinds():
    kinds = []
    for t in TYPES:
        if t == 'boolean':
            a, b = False, True
        elif t == 'string':
            a, b = '', 'x y'
        elif t == 'char16':
            a, b = '0', 'Z'
        elif t in INT_RANGE:
            lo, hi = INT_RANGE[t]
            a, b = 0, (lo if lo < 0 else hi)
        elif t == 'real32':
            a, b = 0.0, -1.5
        elif t == 'real64':
            a, b = 0.0, 0.1
        else:
            a, b = CIMDateTime(DATETIMES[2]), CIMDateTime(DATETIMES[0])
        kinds.append(ArrayKind(t, t, a, b))
    kinds.append(ArrayKind('reference', 'reference', CIMInstanceName('C_A', [('k', Uint8(0))]),
                           CIMClassName('C_B', host='h', namespace='root/x')))
    ia = CIMInstance('A')
    ib = CIMInstance('B', properties=[CIMProperty('p', ['', 'x'], type='string'), CIMProperty('n', 0, type='uint8')])
    cb = CIMClass('B', properties=[CIMProperty('p', [0, 255], type='uint8', is_array=True)])
    kinds.append(ArrayKind('embinst', 'string', ia, ib, eo='instance'))
    kinds.append(ArrayKind('embobj', 'string', ib, cb, eo='object'))
    return kinds


def array_carriers(kind):
    """(label, build(code) -> x0, codec, get(x1) -> array read back, expected view or None)"""
    t, eo = kind.t, kind.eo

    def prop(code, name='P', **kw):
        return CIMProperty(name, kind.value(code), type=t, is_array=True, embedded_object=eo, **kw)

    def param(code):
        return CIMParameter('P', t, value=kind.value(code), is_array=True, embedded_object=eo)

    def value_of(x):
        return x.value

    def kw_expected(code):
        # the CIM type of a keyword argument can only come from its entries
        return ('pval', 'P', t, EXPECT.value(typed(t, kind.value(code)) if kind.plain else kind.value(code), t))

    out = []
    if t != 'reference':
        out.append(('prop', prop, Codec, value_of, None))
        out.append(('instprop', lambda c: CIMInstance('C', properties=[prop(c)],
                                                      path=CIMInstanceName('C', [('k', 'v')], namespace='root')),
                    Codec, lambda x: x.properties['P'].value, None))
        # class property default, qualified by an array of the same shape where qualifiers can have the type
        out.append(('classprop',
                    lambda c: CIMClass('C', properties=[prop(c, array_size=7, class_origin='C', qualifiers=(
                        [CIMQualifier('Q', kind.value(c), type=t)] if kind.plain else []))]),
                    Codec, lambda x: x.properties['P'].value, None))
        # instance property inside an instance inside an embedded object, and a class default inside an embedded class
        out.append(('nested',
                    lambda c: CIMProperty('E', CIMInstance('Outer', properties=[
                        CIMProperty('I', CIMInstance('Inner', properties=[prop(c)]))])),
                    Codec, lambda x: x.value.properties['I'].value.properties['P'].value, None))
        out.append(('nested-class',
                    lambda c: CIMProperty('E', [CIMInstance('X'), CIMClass('Outer', properties=[prop(c)])],
                                          embedded_object='object'),
                    Codec, lambda x: x.value[1].properties['P'].value, None))
    if kind.plain:
        out.append(('qual', lambda c: CIMQualifier('Q', kind.value(c), type=t), Codec, value_of, None))
        out.append(('qdecl', lambda c: CIMQualifierDeclaration('Q', t, value=kind.value(c), is_array=True,
                                                               scopes={'PROPERTY': True}), Codec, value_of, None))
        out.append(('value', lambda c: TypedValue(t, kind.value(c, as_typed=True)), value_codec(t), value_of, None))
    out.append(('pval', param, ParamValueCodec, value_of, None))
    out.append(('invoke', param, InvokeParamCodec, value_of, None))
    out.append(('invoke-reply', param, InvokeReplyCodec, value_of, None))
    out.append(('invoke-kw', lambda c: ParamHolder('P', t, kind.value(c, as_typed=True), eo), InvokeKwCodec, value_of,
                kw_expected))
    return out


def check_shape(carrier, kind, code, build, codec, get, expected):
    """flag on (default): the full check, then the shape code of what was read back against the one sent"""
    key = ('shape', carrier, kind.label, code)
    x0 = build(code)
    x1 = check(key, x0, codec, expected=expected(code) if expected else None, once=len(code) > 2, carrier=carrier,
               kind=kind.label, shape=code)
    if x1 is None:
        return
    try:
        got = kind.code_of(get(x1))
    except Exception as e:  # pylint: disable=broad-except
        got = 'unreadable:' + type(e).__name__
    if got != code and carrier.startswith('invoke') and kind.label == 'boolean' and got == code.replace('a', 'b'):
        return      # FALSE entries typed True: recorded by check() as KNOWN_BOOLEAN_FALSE
    if got != code:
        violation(f'array-shape-differs[{carrier}]', carrier=carrier, kind=kind.label, sent_shape=code,
                  read_back_shape=got, input=Lazy(lambda: render_input(x0)))


PARSE_ERRORS = ('CIMXMLParseError', 'XMLParseError')


def check_shape_null_off(carrier, kind, code, build, codec, get):
    """SEND_VALUE_NULL = False is the documented compatibility mode "NULL entries are sent as VALUE elements with an
    empty value".  Modelled as documented: the wire form is the default one with each VALUE.NULL replaced by an empty
    VALUE, entry for entry; read back, a string array shows '' at those positions, the parser may refuse the empty
    VALUE for the types that have no empty representation, and everything it does accept keeps length, order and
    the non-NULL entries."""
    R.case(('shape-null-off', carrier, kind.label, code))
    x0 = build(code)
    desc = dict(carrier=carrier, kind=kind.label, shape=code, send_value_null=False,
                input=Lazy(lambda: render_input(x0)))
    try:
        xml_on = codec.enc(x0)
        with send_value_null(False):
            xml_off = codec.enc(x0)
    except Exception as e:  # pylint: disable=broad-except
        violation('null-off-encode-raises-' + type(e).__name__, error=str(e)[:200], **desc)
        return
    desc['xml'] = xml_off[:600]
    if xml_off != xml_on.replace('VALUE.NULL/', 'VALUE/') or xml_on.count('VALUE.NULL/') < code.count('N'):
        violation('null-off-wire-form-is-not-default-with-empty-VALUE-for-VALUE.NULL', default_xml=xml_on[:600],
                  **desc)
    try:
        x1 = codec.parse(xml_off)
    except Exception as e:  # pylint: disable=broad-except
        if type(e).__name__ not in PARSE_ERRORS or (kind.label == 'string'):
            violation('null-off-parse-raises-' + type(e).__name__, error=str(e)[:300], **desc)
        return
    try:
        got = kind.code_of(get(x1))
    except Exception as e:  # pylint: disable=broad-except
        got = 'unreadable:' + type(e).__name__
    want = code.replace('N', 'a') if kind.label == 'string' else code
    if got != want:
        violation(f'null-off-array-shape-differs[{carrier}]', sent_shape=code, read_back_shape=got,
                  acceptable_shape=want, **desc)


def shape_codes(maxlen):
    for n in range(maxlen + 1):
        for tup in itertools.product('abN', repeat=n):
            yield ''.join(tup)


def family_array_shapes(rnd):
    thorough = R.tier == 'thorough'
    # quick tier: all shapes up to length 4 in every carrier for one kind per decoding branch (string, boolean,
    # numeric, embedded, reference) and in the PROPERTY.ARRAY and PARAMVALUE carriers for every kind; the remaining
    # carrier x kind pairs up to length 2 (the type only matters entry by entry).  thorough: everything to length 5.
    full = {'string', 'boolean', 'uint8', 'embinst', 'reference'}
    for kind in array_kinds():
        for carrier, build, codec, get, expected in array_carriers(kind):
            if thorough:
                maxlen = offlen = 5
            elif carrier == 'invoke-kw':
                maxlen = offlen = 3
            elif kind.label in full or carrier in ('prop', 'pval'):
                maxlen, offlen = 4, (4 if carrier in ('prop', 'pval') and kind.label in full else 3)
            else:
                maxlen = offlen = 2
            if kind.label == 'boolean' and not thorough:
                offlen = 2      # each empty boolean VALUE costs an inspect.stack() for the parser's warning
            for code in shape_codes(maxlen):
                if carrier == 'invoke-kw' and not code.strip('N'):
                    continue    # [] and [None, ...] as keyword argument: no entry to infer the CIM type from
                check_shape(carrier, kind, code, build, codec, get, expected)
                if 'N' in code and len(code) <= offlen and not carrier.startswith('invoke'):
                    check_shape_null_off(carrier, kind, code, build, codec, get)
        if thorough:
            # CDATA escaping mode for the carriers that escape an embedded object
            for carrier, build, codec, get, expected in array_carriers(kind):
                if carrier in ('nested', 'nested-class') or (kind.eo and carrier in ('prop', 'pval')):
                    with cdata():
                        for code in shape_codes(4):
                            check_shape(carrier + '-cdata', kind, code, build, codec, get, expected)


# seeded random object trees ---------------------------------------------------------------------
def rnd_value(rnd, t, allow_cr=False):
    if t == 'string':
        if rnd.random() < 0.5:
            return rnd.choice(SAMPLES['string'])
        alpha = WIDE if allow_cr else [c for c in WIDE if c != '\r']
        return ''.join(rnd.choice(alpha) for _ in range(rnd.randint(0, 6)))
    if t in INT_RANGE:
        return rnd.choice(SAMPLES[t] + [rnd.randint(*INT_RANGE[t])])
    if t == 'real64':
        return rnd.choice(SAMPLES[t] + [rnd.uniform(-1e6, 1e6), rnd.random() * 10.0 ** rnd.randint(-300, 300)])
    if t == 'real32':
        return rnd.choice(SAMPLES[t] + [f32val(rnd.uniform(-1e6, 1e6))])
    return rnd.choice(SAMPLES[t])


def rnd_name(rnd, used):
    while True:
        n = rnd.choice(NAMES) + rnd.choice(['', '', '_a', 'B', '2'])
        if n.lower() not in used:
            used.add(n.lower())
            return n


def rnd_quals(rnd):
    used = set()
    out = []
    for _ in range(rnd.choice((0, 0, 1, 2, 3))):
        t = rnd.choice(TYPES)
        arr = rnd.random() < 0.4
        # NULL entries only in string arrays here (the other types are the known parser defect, covered above)
        v = [rnd_value(rnd, t) if (t != 'string' or rnd.random() < 0.8) else None
             for _ in range(rnd.randint(0, 3))] if arr else rnd.choice((None, rnd_value(rnd, t)))
        out.append(CIMQualifier(rnd_name(rnd, used), v, type=t, **rnd.choice(FLAVORS)))
    return out


def rnd_path(rnd, depth, prefix=''):
    used = set()
    kb = []
    for _ in range(rnd.randint(0 if depth else 1, 3)):
        n, v = rnd.choice(KEYVALUES)
        kb.append((prefix + rnd_name(rnd, used), v))
    if depth > 0 and rnd.random() < 0.6:
        kb.insert(rnd.randint(0, len(kb)), (prefix + rnd_name(rnd, used), rnd_path(rnd, depth - 1)))
    ns = rnd.choice([None] + NAMESPACES)
    host = rnd.choice([None] + HOSTS) if ns else None
    return CIMInstanceName(rnd.choice(NAMES), kb, host=host, namespace=ns)


def rnd_prop(rnd, name, depth, cls_level):
    kind = rnd.choice(('leaf', 'leaf', 'leaf', 'array', 'array', 'ref', 'emb', 'embarr'))
    kw = {}
    if cls_level:
        kw = dict(class_origin=rnd.choice((None, 'CIM_Base', 'x')), propagated=rnd.choice((None, True, False)),
                  qualifiers=rnd_quals(rnd))
    if kind in ('emb', 'embarr') and depth <= 0:
        kind = 'leaf'
    if kind == 'leaf':
        t = rnd.choice(TYPES)
        return CIMProperty(name, rnd.choice((None, rnd_value(rnd, t), rnd_value(rnd, t))), type=t, **kw)
    if kind == 'array':
        t = rnd.choice(TYPES)
        v = None if rnd.random() < 0.15 else \
            [rnd_value(rnd, t) if (t != 'string' or rnd.random() < 0.8) else None for _ in range(rnd.randint(0, 4))]
        return CIMProperty(name, v, type=t, is_array=True, array_size=rnd.choice((None, None, 4, 0)), **kw)
    if kind == 'ref':
        v = rnd.choice((None, rnd_path(rnd, 2), CIMClassName('C', namespace=rnd.choice((None, 'root')))))
        return CIMProperty(name, v, type='reference', reference_class=rnd.choice((None, 'CIM_RC')), **kw)
    obj = rnd_inst(rnd, depth - 1) if rnd.random() < 0.6 else rnd_class(rnd, depth - 1)
    eo = 'object' if isinstance(obj, CIMClass) or rnd.random() < 0.3 else 'instance'
    if kind == 'emb':
        return CIMProperty(name, obj, embedded_object=eo, **kw)
    others = [o for o in (rnd_inst(rnd, 0), None, obj) if not (eo == 'instance' and isinstance(o, CIMClass))]
    return CIMProperty(name, [obj] + others[:rnd.randint(0, 3)], embedded_object=eo,
                       array_size=rnd.choice((None, 9)), **kw)


def rnd_props(rnd, depth, cls_level):
    used = set()
    return [rnd_prop(rnd, rnd_name(rnd, used), depth, cls_level) for _ in range(rnd.randint(0, 4))]


def rnd_inst(rnd, depth, top=False):
    path = rnd_path(rnd, 1, 'Key') if top and rnd.random() < 0.5 else None
    return CIMInstance(rnd.choice(NAMES), properties=rnd_props(rnd, depth, False),
                       qualifiers=rnd_quals(rnd) if rnd.random() < 0.2 else [], path=path)


def rnd_method(rnd, name):
    pv = [kw for _, kw in param_variants()]
    used = set()
    return CIMMethod(name, return_type=rnd.choice(TYPES), class_origin=rnd.choice((None, 'CIM_Base')),
                     propagated=rnd.choice((None, True, False)), qualifiers=rnd_quals(rnd),
                     parameters=[CIMParameter(rnd_name(rnd, used), qualifiers=rnd_quals(rnd), **rnd.choice(pv))
                                 for _ in range(rnd.randint(0, 3))])


def rnd_class(rnd, depth):
    used = set()
    return CIMClass(rnd.choice(NAMES), properties=rnd_props(rnd, depth, True),
                    methods=[rnd_method(rnd, rnd_name(rnd, used)) for _ in range(rnd.randint(0, 2))],
                    qualifiers=rnd_quals(rnd), superclass=rnd.choice((None, 'CIM_Super')))


def family_random(rnd):
    n = 16000 if R.tier == 'thorough' else 500
    for i in range(n):
        depth = i % 4
        obj = rnd_inst(rnd, depth, top=True) if i % 2 else rnd_class(rnd, depth)
        key = ('random', R.seed, i)
        if i % 5 == 4:
            with cdata():
                check(key, obj)
        else:
            check(key, obj)


def main():
    rnd = random.Random(R.seed)
    try:
        family_typed_values(rnd)
        family_array_shapes(rnd)
        family_paths(rnd)
        family_qualifiers(rnd)
        family_properties(rnd)
        family_methods(rnd)
        family_objects(rnd)
        family_strings(rnd)
        family_random(rnd)
    finally:
        _cim_xml._CDATA_ESCAPING = False
    flush()


main()
